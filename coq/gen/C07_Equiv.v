(* Re-checked on every run against the model REGENERATED from /repo's matrix_util.py by gen/py2coq.py:
   the generated _check_cross_system_position equals the hand-written [check_cross] of Model/C07_Tensor.v (the control of the
   bubble loop of calc_permutation_matrix), hence what the C07 loop theorems use about it holds for the regenerated function. *)
From Coq Require Import ZArith List Bool Lia Sorted.
From QV.Model Require Import C07_Tensor.
From QV.Proofs Require Import C07_Loop.
From QVGen Require Import Gen_cross_position.
Import ListNotations.

Section Fold.
Context (step : option Z * option Z -> Z * Z -> option Z * option Z).
Context (Hdone : forall fo r p x, step (fo, Some r) (p, x) = (fo, Some r)).
Context (Hcmp : forall f p x, step (Some f, None) (p, x) = if (x <? f)%Z then (Some f, Some p) else (Some x, None)).

Lemma fold_done l : forall fo r, fold_left step l (fo, Some r) = (fo, Some r).
Proof. induction l as [|[p x] l IH]; intros fo r; cbn; [reflexivity|]. now rewrite Hdone. Qed.

Lemma fold_from l : forall f k,
  snd (fold_left step (combine (map Z.of_nat (seq k (length l))) l) (Some f, None)) = option_map Z.of_nat (check_cross_from f k l).
Proof. induction l as [|x l IH]; intros f k; cbn [length seq map combine fold_left check_cross_from]; [reflexivity|].
  rewrite Hcmp. destruct (x <? f)%Z.
  - rewrite fold_done. reflexivity.
  - apply IH. Qed.
End Fold.

Theorem gen_check_cross_eq : forall l, gen_check_cross_system_position l = option_map Z.of_nat (check_cross l).
Proof. intros l. unfold gen_check_cross_system_position.
  match goal with |- context [fold_left ?f _ _] => set (step := f) end.
  assert (Hdone : forall fo r p x, step (fo, Some r) (p, x) = (fo, Some r)) by reflexivity.
  assert (Hcmp : forall f p x, step (Some f, None) (p, x) = if (x <? f)%Z then (Some f, Some p) else (Some x, None)).
  { intros f p x. unfold step. cbn. rewrite Z.gtb_ltb. destruct (x <? f)%Z; reflexivity. }
  assert (Hfirst : forall p x, step (None, None) (p, x) = (Some x, None)) by reflexivity.
  destruct l as [|x l].
  - reflexivity.
  - cbn [length seq map combine fold_left check_cross]. rewrite Hfirst.
    pose proof (fold_from step Hdone Hcmp l x 1%nat) as H.
    destruct (fold_left step (combine (map Z.of_nat (seq 1 (length l))) l) (Some x, None)) as [fo r].
    cbn [snd] in H. rewrite <- H. destruct r; reflexivity. Qed.
Print Assumptions gen_check_cross_eq.

(* transported: None = the names are ascending (loop exit); Some p = position of the first descent (the pair that is swapped) *)
Theorem gen_check_cross_none : forall l, gen_check_cross_system_position l = None -> Sorted Z.le l.
Proof. intros l H. rewrite gen_check_cross_eq in H. apply check_cross_none. destruct (check_cross l); [discriminate|reflexivity]. Qed.
Print Assumptions gen_check_cross_none.

Theorem gen_check_cross_some : forall l p, gen_check_cross_system_position l = Some p ->
  exists q, p = Z.of_nat q /\ check_cross l = Some q.
Proof. intros l p H. rewrite gen_check_cross_eq in H. destruct (check_cross l) as [q|]; [|discriminate].
  exists q. cbn in H. inversion H. split; reflexivity. Qed.
Print Assumptions gen_check_cross_some.
