(* Re-checked on every run against the validators REGENERATED (gen/c20_py2coq.py) from the current source of
     quara/qcircuit/experiment.py : Experiment._validate_schedule_item, Experiment._validate_schedule_order
     quara/protocol/qtomography/standard/standard_{qst,povmt,qpt,qmpt}.py : _validate_schedules (loop body)
   The regenerated functions equal the hand-written model (Model/C20_Schedule.v: validate_order, guard_one), hence the
   property theorems hold for them.  A source change that alters behaviour (a position, a kind name, a comparison, the
   length test, the order of the rules, the exception class) breaks these proofs. *)
From Coq Require Import ZArith List Bool Arith String Lia.
From QV.Model Require Import C20_Schedule C20_PySem.
From QV.Core Require Import OF Sums Mat.
From QV.Model Require Import C20_Run.
From QV.Proofs Require Import C20_Schedule C20_Tomo C20_PySem C20_Run C20_Exec.
From QVGen Require Import Gen_c20_validators.
Import ListNotations.

(* ------------------------------------------------------------------ Experiment._validate_schedule_item *)
(* for every python value, every experiment and every objdict (absent or given): the regenerated validator passes exactly
   when the model does, raises an exception of the same class otherwise, and is never stuck / never raises anything else *)
Theorem gen_validate_schedule_item_sim : forall self_ objdict item,
  item_sim (gen_validate_schedule_item self_ objdict item) (validate_item (effective_cfg self_ objdict) item).
Proof.
  intros self_ objdict item. unfold gen_validate_schedule_item.
  destruct item as [|s0|z0|b0|vs|]; try reflexivity.
  change (2)%Z with (Z.of_nat 2). rewrite cv_len_eq.
  destruct vs as [|name [|idx [|x vs]]]; try reflexivity.
  destruct name as [|s|zn|bn|vn|]; try reflexivity.
  destruct idx as [|si|z|bi|vi|]; try reflexivity.
  cbn [Datatypes.length Nat.eqb c_bool c_not f_if pv_sub Z.leb Z.to_nat nth_error f_bind cv_type_ne pv_has_type negb
       validate_item Z.compare].
  change (Pos.to_nat 1) with 1%nat.
  cbn [nth_error f_bind cv_type_ne pv_has_type negb c_bool f_if].
  unfold cv_str_in. rewrite known_kind_name.
  destruct (kind_of_name s) as [k|] eqn:K; [|reflexivity].
  apply kind_of_name_spec in K. subst s.
  assert (E : forall d, env_get_v (Some d) (Some (PStr (kind_name k))) = Some (objs d k))
    by (intros d; cbn; unfold env_get; now rewrite kind_of_name_name).
  destruct objdict as [d|]; cbn [env_true effective_cfg]; rewrite E; unfold size;
    destruct k; cbn;
    repeat match goal with |- context [is_nil ?l] => destruct (is_nil l); cbn end;
    destruct (0 <=? z)%Z; cbn; try reflexivity;
    match goal with |- context [(z <? ?n)%Z] => destruct (z <? n)%Z end; reflexivity.
Qed.
Print Assumptions gen_validate_schedule_item_sim.
(* transported: the regenerated item validator accepts exactly the well-typed in-range items *)
Theorem gen_validate_schedule_item_pass_iff : forall self_ objdict item,
  gen_validate_schedule_item self_ objdict item = FPass <-> item_ok (effective_cfg self_ objdict) item.
Proof.
  intros self_ objdict item. pose proof (gen_validate_schedule_item_sim self_ objdict item) as S.
  destruct (validate_item (effective_cfg self_ objdict) item) as [it|e] eqn:V.
  - apply validate_item_ok_iff in V. split; [intros _; now exists it|intros _].
    destruct (gen_validate_schedule_item self_ objdict item); cbn in S; try contradiction; reflexivity.
  - assert (N : ~ item_ok (effective_cfg self_ objdict) item) by (apply validate_item_err_iff; now exists e).
    split; [|intros H; contradiction]. intros H. rewrite H in S. contradiction.
Qed.
Print Assumptions gen_validate_schedule_item_pass_iff.

(* ------------------------------------------------------------------ Experiment._validate_schedule_order *)
Theorem gen_validate_schedule_order_eq : forall s,
  gen_validate_schedule_order s = fres_of_order (validate_order s).
Proof.
  intros s. unfold gen_validate_schedule_order, validate_order.
  change (2)%Z with (Z.of_nat 2). rewrite c_len_lt.
  change "state"%string with (kind_name KState). change "povm"%string with (kind_name KPovm) at 2.
  rewrite !c_count_ge.
  destruct (Nat.ltb_spec (List.length s) 2) as [L|L]; [reflexivity|]. cbn [c_bool f_if].
  assert (Hne : s <> []) by (intros ->; cbn in L; lia).
  rewrite (py_item_first s Hne), (py_item_last s Hne). cbn [py_name option_map].
  rewrite c_str_eq_kind, c_str_in_meas.
  destruct (kind_eqb (fst (hd dflt_item s)) KState); cbn [c_bool c_not f_if negb]; [|reflexivity].
  destruct (is_meas (fst (last s dflt_item))); cbn [c_bool c_not f_if negb]; [|reflexivity].
  destruct (2 <=? count_kind KState s)%nat; cbn [c_bool f_if]; [reflexivity|].
  destruct (2 <=? count_kind KPovm s)%nat; reflexivity.
Qed.
Print Assumptions gen_validate_schedule_order_eq.

(* the order rules, transported: the regenerated function passes exactly the schedules that satisfy them, and it can
   only raise ValueError (which _validate_schedules turns into QuaraScheduleOrderError) — never IndexError *)
Theorem gen_validate_schedule_order_pass_iff : forall s, gen_validate_schedule_order s = FPass <-> order_ok s.
Proof.
  intros s. rewrite gen_validate_schedule_order_eq, <- validate_order_none_iff.
  destruct (validate_order s) as [[]|]; cbn; split; intros H; try discriminate; reflexivity.
Qed.
Print Assumptions gen_validate_schedule_order_pass_iff.
Theorem gen_validate_schedule_order_raises_value_error : forall s,
  gen_validate_schedule_order s = FPass \/ exists n, gen_validate_schedule_order s = FRaise n "ValueError".
Proof.
  intros s. rewrite gen_validate_schedule_order_eq. destruct (validate_order s) as [[]|]; cbn; [right; eexists; reflexivity..|now left].
Qed.
Print Assumptions gen_validate_schedule_order_raises_value_error.

(* ------------------------------------------------------------------ the four class guards *)
Ltac guard_cases s :=
  destruct s as [|[[] ?z0] [|[[] ?z1] [|[[] ?z2] [|? ?]]]];
  cbn; cbv [Pos.to_nat Pos.iter_op Nat.add]; cbn; repeat match goal with |- context [(?z =? 0)%Z] => destruct (z =? 0)%Z; cbn end; try exact I; try reflexivity.

Theorem gen_guard_qst_sim : forall s, guard_sim (gen_guard_qst s) (guard_one Qst s).
Proof. intros s. unfold gen_guard_qst. guard_cases s. Qed.
Print Assumptions gen_guard_qst_sim.
Theorem gen_guard_povmt_sim : forall s, guard_sim (gen_guard_povmt s) (guard_one Povmt s).
Proof. intros s. unfold gen_guard_povmt. guard_cases s. Qed.
Print Assumptions gen_guard_povmt_sim.
Theorem gen_guard_qpt_sim : forall s, guard_sim (gen_guard_qpt s) (guard_one Qpt s).
Proof. intros s. unfold gen_guard_qpt. guard_cases s. Qed.
Print Assumptions gen_guard_qpt_sim.
Theorem gen_guard_qmpt_sim : forall s, guard_sim (gen_guard_qmpt s) (guard_one Qmpt s).
Proof.
  intros s. unfold gen_guard_qmpt. change (3)%Z with (Z.of_nat 3). rewrite c_len_eq. unfold guard_one, len_ok. cbn [class_len].
  guard_cases s.
Qed.
Print Assumptions gen_guard_qmpt_sim.

(* the property theorem for the tomography classes, transported to the regenerated guards *)
Definition gen_guard (t : tclass) (s : list titem) : gres :=
  gres_of (match t with Qst => gen_guard_qst s | Povmt => gen_guard_povmt s | Qpt => gen_guard_qpt s | Qmpt => gen_guard_qmpt s end).
Theorem gen_guards_accept_iff_shape : forall t ns np ss,
  tomo_run_with (gen_guard t) t ns np ss = TOk <-> Forall (class_shape t ns np) ss.
Proof.
  intros t ns np ss. rewrite <- (tomo_accepts_iff_shape t ns np ss). cbn [tomo_construct]. unfold tomo_run.
  rewrite (tomo_run_with_ext (gen_guard t) (guard_one t)); [reflexivity|].
  intros s. unfold gen_guard. apply guard_sim_gres_of.
  destruct t; [apply gen_guard_qst_sim|apply gen_guard_povmt_sim|apply gen_guard_qpt_sim|apply gen_guard_qmpt_sim].
Qed.
Print Assumptions gen_guards_accept_iff_shape.

(* ------------------------------------------------------------------ Experiment._validate_schedules (loop, try/except) *)
Lemma gen_items_loop : forall self_ objdict items j,
  x_for items (fun item => x_of_fres (gen_validate_schedule_item self_ objdict item)) =
  match validate_items (effective_cfg self_ objdict) j items with inl _ => XPass | inr (_, e) => XRaise (exc_name e) end.
Proof.
  intros self_ objdict items. induction items as [|v items IH]; intros j; [reflexivity|].
  cbn [x_for validate_items]. pose proof (gen_validate_schedule_item_sim self_ objdict v) as Hs.
  destruct (validate_item (effective_cfg self_ objdict) v) as [t|e];
    destruct (gen_validate_schedule_item self_ objdict v); cbn in Hs; try contradiction.
  - cbn [x_of_fres x_seq]. rewrite (IH (S j)). destruct (validate_items _ (S j) items) as [l|[j' e']]; reflexivity.
  - subst. reflexivity.
Qed.
(* for every experiment, every objdict and every list of schedules (sequences of arbitrary values or non-iterable): the
   regenerated procedure completes / raises exactly as the model says, with the same exception class *)
Theorem gen_validate_schedules_eq : forall self_ objdict schedules,
  gen_validate_schedules self_ objdict schedules = xres_of_vres (validate_schedules (effective_cfg self_ objdict) schedules).
Proof.
  intros self_ objdict ss. unfold gen_validate_schedules, validate_schedules. generalize 0%nat.
  induction ss as [|s ss IH]; intros i; [reflexivity|].
  cbn [x_for validate_from]. destruct s as [items|]; [|reflexivity].
  cbn [x_for_sched]. rewrite (gen_items_loop self_ objdict items 0).
  destruct (validate_items (effective_cfg self_ objdict) 0 items) as [t|[j e]] eqn:V.
  - cbn [x_try x_seq x_call_order]. rewrite (validate_items_parse _ _ _ _ V), gen_validate_schedule_order_eq.
    destruct (validate_order t) as [[]|]; try reflexivity. cbn [fres_of_order x_of_fres x_try x_seq]. apply IH.
  - destruct e; reflexivity.
Qed.
Print Assumptions gen_validate_schedules_eq.
(* THE PROPERTY's first sentence, transported to the regenerated procedure *)
Theorem gen_validate_schedules_property : forall self_ schedules,
  (Forall (well_formed self_) schedules /\ gen_validate_schedules self_ None schedules = XPass) \/
  (~ Forall (well_formed self_) schedules /\
   (gen_validate_schedules self_ None schedules = XRaise "QuaraScheduleItemError" \/
    gen_validate_schedules self_ None schedules = XRaise "QuaraScheduleOrderError")).
Proof.
  intros c ss. rewrite gen_validate_schedules_eq. cbn [effective_cfg].
  destruct (accepted_or_item_or_order_error c ss) as [[W E]|[W E]].
  - left. split; [exact W|]. now rewrite E.
  - right. split; [exact W|]. destruct (validate_schedules c ss); cbn in E |- *; destruct E as [E|E]; try contradiction; auto.
Qed.
Print Assumptions gen_validate_schedules_property.

(* ------------------------------------------------------------------ Experiment.__init__ and the five setters *)
Theorem gen_experiment_init_eq : forall schedules states povms gates mprocesses,
  let c := mkcfg (or_nil states) (or_nil povms) (or_nil gates) (or_nil mprocesses) in
  snd (gen_experiment_init schedules states povms gates mprocesses) = xres_of_vres (validate_schedules c schedules) /\
  (validate_schedules c schedules = VOk ->
   construct c schedules = inl (fst (gen_experiment_init schedules states povms gates mprocesses))).
Proof.
  intros ss st pv gt mp c. unfold gen_experiment_init. cbn [set_objs with_objs e_cfg e_scheds c_states c_povms c_gates c_mprocesses].
  rewrite gen_validate_schedules_eq. cbn [effective_cfg]. fold c. unfold construct.
  destruct (validate_schedules c ss); cbn; split; try reflexivity; discriminate.
Qed.
Print Assumptions gen_experiment_init_eq.

Lemma gen_list_setter e k v body :
  body = s_then (x_try (gen_validate_schedules (e_cfg e) (Some (with_objs (e_cfg e) k v)) (e_scheds e))
                       ["QuaraScheduleItemError"%string] (XRaise "QuaraScheduleItemError")) e (set_objs e k v, XPass) ->
  body = (fst (apply_set e (SetObjs k v)), xres_of_vres (snd (apply_set e (SetObjs k v)))).
Proof.
  intros ->. rewrite gen_validate_schedules_eq. cbn [effective_cfg apply_set].
  destruct (validate_schedules (with_objs (e_cfg e) k v) (e_scheds e)); reflexivity.
Qed.
(* every setter: same new state (unchanged on rejection) and same exception class as the model's apply_set *)
Theorem gen_set_states_eq : forall e v,
  gen_set_states e v = (fst (apply_set e (SetObjs KState v)), xres_of_vres (snd (apply_set e (SetObjs KState v)))).
Proof. intros. now apply gen_list_setter. Qed.
Print Assumptions gen_set_states_eq.
Theorem gen_set_povms_eq : forall e v,
  gen_set_povms e v = (fst (apply_set e (SetObjs KPovm v)), xres_of_vres (snd (apply_set e (SetObjs KPovm v)))).
Proof. intros. now apply gen_list_setter. Qed.
Print Assumptions gen_set_povms_eq.
Theorem gen_set_gates_eq : forall e v,
  gen_set_gates e v = (fst (apply_set e (SetObjs KGate v)), xres_of_vres (snd (apply_set e (SetObjs KGate v)))).
Proof. intros. now apply gen_list_setter. Qed.
Print Assumptions gen_set_gates_eq.
Theorem gen_set_mprocesses_eq : forall e v,
  gen_set_mprocesses e v = (fst (apply_set e (SetObjs KMprocess v)), xres_of_vres (snd (apply_set e (SetObjs KMprocess v)))).
Proof. intros. now apply gen_list_setter. Qed.
Print Assumptions gen_set_mprocesses_eq.
Theorem gen_set_schedules_eq : forall e ss,
  gen_set_schedules e ss = (fst (apply_set e (SetSchedules ss)), xres_of_vres (snd (apply_set e (SetSchedules ss)))).
Proof.
  intros e ss. unfold gen_set_schedules. rewrite gen_validate_schedules_eq. cbn [effective_cfg apply_set].
  destruct (validate_schedules (e_cfg e) ss); reflexivity.
Qed.
Print Assumptions gen_set_schedules_eq.
(* the invariant over every history of assignments, transported: a run of regenerated setters from a valid experiment *)
Definition gen_apply (e : exp) (op : setop) : exp * xres :=
  match op with
  | SetObjs KState v => gen_set_states e v | SetObjs KPovm v => gen_set_povms e v
  | SetObjs KGate v => gen_set_gates e v | SetObjs KMprocess v => gen_set_mprocesses e v
  | SetSchedules ss => gen_set_schedules e ss
  end.
Theorem gen_setters_preserve_validity : forall ops e, valid_exp e ->
  valid_exp (fold_left (fun st op => fst (gen_apply st op)) ops e).
Proof.
  intros ops e H.
  assert (E : forall st op, fst (gen_apply st op) = fst (apply_set st op)).
  { intros st [[] v|ss]; cbn [gen_apply];
      [rewrite gen_set_states_eq|rewrite gen_set_povms_eq|rewrite gen_set_gates_eq|rewrite gen_set_mprocesses_eq|rewrite gen_set_schedules_eq]; reflexivity. }
  revert e H. induction ops as [|op ops IH]; intros e H; [exact H|]. cbn [fold_left]. apply IH. rewrite E. now apply apply_set_valid.
Qed.
Print Assumptions gen_setters_preserve_validity.

(* ------------------------------------------------------------------ the four tomography constructors: schedule prologue
   (`if type(schedules) == str: _validate_schedules_str` ; "all" expansion ; Experiment(...) ; class guard loop) *)
Lemma gen_tomo_body t (gen : list titem -> fres) ns np ss st pv gt mp :
  (forall s, guard_sim (gen s) (guard_one t s)) ->
  mkcfg (or_nil st) (or_nil pv) (or_nil gt) (or_nil mp) = class_cfg t ns np ->
  x_seq (snd (gen_experiment_init ss st pv gt mp)) (x_for ss (fun schedule => x_call_guard gen schedule)) =
  xres_of_tres (tomo_run t ns np ss).
Proof.
  intros G C. destruct (gen_experiment_init_eq ss st pv gt mp) as [E _]. cbv zeta in E. rewrite E, C.
  unfold tomo_run, tomo_run_with. destruct (validate_schedules (class_cfg t ns np) ss) eqn:V; try reflexivity.
  cbn [xres_of_vres x_seq]. apply guard_loop_sim; [exact G|now apply experiment_accepts_iff].
Qed.
Lemma gen_str_check s :
  x_of_fres (gen_validate_schedules_str s) = if String.eqb s "all" then XPass else XRaise "ValueError".
Proof. unfold gen_validate_schedules_str. cbn [existsb]. rewrite orb_false_r. destruct (String.eqb s "all"); reflexivity. Qed.
Ltac tomo_eq G :=
  intros ns np [s|ss]; cbn [tomo_construct];
  [ rewrite gen_str_check; destruct (String.eqb s "all"); [cbn [x_seq]; apply gen_tomo_body; [exact G|reflexivity] | reflexivity]
  | cbn [x_seq]; apply gen_tomo_body; [exact G|reflexivity] ].
(* for every number of testers and every schedules argument (a str or a list of arbitrary schedules): the regenerated
   prologue completes / raises as the model's tomo_construct says, with the same exception class *)
Theorem gen_tomo_qst_eq : forall ns np a, gen_tomo_qst ns np a = xres_of_tres (tomo_construct Qst ns np a).
Proof. unfold gen_tomo_qst. tomo_eq gen_guard_qst_sim. Qed.
Print Assumptions gen_tomo_qst_eq.
Theorem gen_tomo_povmt_eq : forall ns np a, gen_tomo_povmt ns np a = xres_of_tres (tomo_construct Povmt ns np a).
Proof. unfold gen_tomo_povmt. tomo_eq gen_guard_povmt_sim. Qed.
Print Assumptions gen_tomo_povmt_eq.
Theorem gen_tomo_qpt_eq : forall ns np a, gen_tomo_qpt ns np a = xres_of_tres (tomo_construct Qpt ns np a).
Proof. unfold gen_tomo_qpt. tomo_eq gen_guard_qpt_sim. Qed.
Print Assumptions gen_tomo_qpt_eq.
Theorem gen_tomo_qmpt_eq : forall ns np a, gen_tomo_qmpt ns np a = xres_of_tres (tomo_construct Qmpt ns np a).
Proof. unfold gen_tomo_qmpt. tomo_eq gen_guard_qmpt_sim. Qed.
Print Assumptions gen_tomo_qmpt_eq.
(* the second sentence of THE PROPERTY, transported: each regenerated constructor prologue completes exactly for the schedule
   lists of the class's own shape (and for "all") *)
Definition gen_tomo (t : tclass) := match t with Qst => gen_tomo_qst | Povmt => gen_tomo_povmt | Qpt => gen_tomo_qpt | Qmpt => gen_tomo_qmpt end.
Theorem gen_tomo_accepts_iff_shape : forall t ns np ss,
  gen_tomo t ns np (AList ss) = XPass <-> Forall (class_shape t ns np) ss.
Proof.
  intros t ns np ss. rewrite <- (tomo_accepts_iff_shape t ns np ss).
  assert (E : gen_tomo t ns np (AList ss) = xres_of_tres (tomo_construct t ns np (AList ss)))
    by (destruct t; [apply gen_tomo_qst_eq|apply gen_tomo_povmt_eq|apply gen_tomo_qpt_eq|apply gen_tomo_qmpt_eq]).
  rewrite E. apply xres_of_tres_pass. cbn [tomo_construct]. unfold tomo_run, tomo_run_with. intros v.
  destruct (validate_schedules (class_cfg t ns np) ss) eqn:V; try (intros [= <-]; discriminate).
  intros H. exfalso. revert H. apply guard_from_not_exp.
Qed.
Print Assumptions gen_tomo_accepts_iff_shape.
Theorem gen_tomo_all_accepted : forall t ns np, gen_tomo t ns np (AStr "all") = XPass.
Proof.
  intros t ns np.
  assert (E : gen_tomo t ns np (AStr "all") = xres_of_tres (tomo_construct t ns np (AStr "all")))
    by (destruct t; [apply gen_tomo_qst_eq|apply gen_tomo_povmt_eq|apply gen_tomo_qpt_eq|apply gen_tomo_qmpt_eq]).
  rewrite E, tomo_all_accepted. reflexivity.
Qed.
Print Assumptions gen_tomo_all_accepted.

(* ------------------------------------------------------------------ _validate_schedule_index, calc_prob_dist *)
Theorem gen_validate_schedule_index_eq : forall e idx,
  x_of_fres (gen_validate_schedule_index e idx) =
  match idx with
  | PInt z => if ((0 <=? z) && (z <? Z.of_nat (List.length (e_scheds e))))%Z then XPass else XRaise "IndexError"
  | _ => XRaise "TypeError"
  end.
Proof.
  intros e idx. unfold gen_validate_schedule_index. destruct idx as [|s|z|b|vs|]; try reflexivity.
  cbn. destruct (0 <=? z)%Z; cbn; [|reflexivity]. destruct (z <? Z.of_nat (List.length (e_scheds e)))%Z; reflexivity.
Qed.
Print Assumptions gen_validate_schedule_index_eq.
(* on a validated experiment, for EVERY argument: TypeError / IndexError for a bad index, ValueError exactly when the
   schedule refers to a None placeholder, otherwise compose_qoperations receives the referenced objects in reverse order *)
Theorem gen_calc_prob_dist_eq : forall e idx, valid_exp e ->
  gen_calc_prob_dist e idx = crun_of (calc_prob_dist_pre e idx).
Proof.
  intros e idx He. unfold gen_calc_prob_dist. rewrite gen_validate_schedule_index_eq. unfold calc_prob_dist_pre.
  destruct idx as [|s|z|b|vs|]; try reflexivity.
  destruct (0 <=? z)%Z eqn:Z0; cbn [andb]; [|reflexivity].
  destruct (z <? Z.of_nat (List.length (e_scheds e)))%Z eqn:Z1; [|reflexivity].
  cbn [pv_int sl_get]. rewrite Z0.
  apply Z.leb_le in Z0. apply Z.ltb_lt in Z1.
  destruct (nth_error (e_scheds e) (Z.to_nat z)) as [s|] eqn:N; [|apply nth_error_None in N; lia].
  rewrite (nth_error_nth _ _ SNonIter N).
  unfold valid_exp in He. rewrite Forall_forall in He. destruct (He s (nth_error_In _ _ N)) as (t & -> & Hr & _).
  assert (V : validate_items (e_cfg e) 0 (map raw t) = inl t) by (apply validate_items_inl_iff; auto).
  rewrite V, cfg_eta.
  (* either spelling of the loop: appendleft + compose( *targets ), or append + compose( *reversed(targets) ) *)
  first [ destruct (collect_left_crun (e_cfg e) "ValueError" t) as [C|C]; [exact C|now contradiction C]
        | destruct (collect_right_crun (e_cfg e) "ValueError" t) as [C|C]; [exact C|now contradiction C] ].
Qed.
Print Assumptions gen_calc_prob_dist_eq.

(* ------------------------------------------------------------------ Experiment._validate_type, Experiment.copy *)
(* passes exactly when every element is None or an object of the expected class; otherwise TypeError *)
Theorem gen_validate_type_spec : forall l cls,
  gen_validate_type l cls = if forallb (fun x => negb (elem_truthy x) || elem_isinstance x cls) l then XPass else XRaise "TypeError".
Proof.
  intros l cls. unfold gen_validate_type. induction l as [|x l IH]; [reflexivity|].
  cbn [x_for forallb]. rewrite IH. destruct x as [|c]; cbn; [reflexivity|]. destruct (String.eqb c cls); reflexivity.
Qed.
Print Assumptions gen_validate_type_spec.
(* the abstraction under which __init__ and the setters are translated (lists of objects of the right class or None) is one
   _validate_type accepts; None placeholders in particular are accepted *)
Theorem gen_validate_type_passes : forall l cls, Forall (fun x => x = ENone \/ x = EObj cls) l -> gen_validate_type l cls = XPass.
Proof.
  intros l cls H. rewrite gen_validate_type_spec.
  replace (forallb _ l) with true; [reflexivity|]. symmetry. apply forallb_forall. rewrite Forall_forall in H.
  intros x Hx. destruct (H x Hx) as [->| ->]; cbn; [reflexivity|]. now rewrite String.eqb_refl.
Qed.
Print Assumptions gen_validate_type_passes.
(* copy() of a validated experiment goes through the validating constructor, succeeds, and yields the same lists and schedules *)
Theorem gen_copy_eq : forall e, valid_exp e -> gen_copy e = (e, XPass).
Proof.
  intros e He. unfold gen_copy.
  destruct (gen_experiment_init_eq (e_scheds e) (Some (c_states (e_cfg e))) (Some (c_povms (e_cfg e))) (Some (c_gates (e_cfg e)))
              (Some (c_mprocesses (e_cfg e)))) as [E1 E2]. cbv zeta in E1, E2. cbn [or_nil] in E1, E2. rewrite cfg_eta in E1, E2.
  assert (V : validate_schedules (e_cfg e) (e_scheds e) = VOk) by (now apply experiment_accepts_iff).
  rewrite V in E1. specialize (E2 V). unfold construct in E2. rewrite V in E2. injection E2 as E2.
  destruct (gen_experiment_init _ _ _ _ _) as [e' x]. cbn [fst snd] in *. subst. now destruct e.
Qed.
Print Assumptions gen_copy_eq.

(* ------------------------------------------------------------------ executing an accepted schedule, transported *)
(* the property's last clause about the REGENERATED calc_prob_dist: on a validated experiment without None placeholders every
   valid index reaches compose_qoperations (with the schedule's objects in reverse order), and the distribution of a schedule
   that ends in its POVM is normalised in the reference semantics *)
Theorem gen_calc_executes_normalised : forall (R : CR) (dim : nat) (tr : @vec R) (O : @objects R) e n s,
  physical dim tr O -> valid_exp e -> all_present (e_cfg e) -> nth_error (e_scheds e) n = Some s ->
  exists t, s = sched_of t /\ gen_calc_prob_dist e (PInt (Z.of_nat n)) = CRCompose (rev t) /\
            (ends_in_povm t = true -> lsum (run_dist dim O t) = c1 R).
Proof.
  intros R dim tr O e n s Ph He Hp Hn.
  destruct (accepted_povm_schedule_executes_normalised dim tr O e n s Ph He Hp Hn) as (t & -> & E & N).
  exists t. split; [reflexivity|]. split; [|exact N]. now rewrite (gen_calc_prob_dist_eq e _ He), E.
Qed.
Print Assumptions gen_calc_executes_normalised.

(* ------------------------------------------------------------------ default values *)
(* no method of Experiment, StandardQTomography or the four tomography classes has a (possibly) mutable default value: no object
   created at definition time is shared between calls / instances *)
Theorem gen_no_mutable_defaults : forallb (fun d => dkind_immutable (snd d)) gen_defaults = true.
Proof. vm_compute. reflexivity. Qed.
Print Assumptions gen_no_mutable_defaults.
(* in particular the four object lists of Experiment.__init__ default to None (the constructor then creates a FRESH list) *)
Theorem gen_experiment_init_defaults_none : forall p, In p ["states"; "povms"; "gates"; "mprocesses"]%string ->
  In ("Experiment.__init__"%string, p, DNone) gen_defaults.
Proof. intros p H. repeat (destruct H as [<-|H]; [vm_compute; tauto|]). contradiction. Qed.
Print Assumptions gen_experiment_init_defaults_none.
