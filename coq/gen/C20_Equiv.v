(* Re-checked on every run against the validators REGENERATED (gen/c20_py2coq.py) from the current source of
     quara/qcircuit/experiment.py : Experiment._validate_schedule_item, Experiment._validate_schedule_order
     quara/protocol/qtomography/standard/standard_{qst,povmt,qpt,qmpt}.py : _validate_schedules (loop body)
   The regenerated functions equal the hand-written model (Model/C20_Schedule.v: validate_order, guard_one), hence the
   property theorems hold for them.  A source change that alters behaviour (a position, a kind name, a comparison, the
   length test, the order of the rules, the exception class) breaks these proofs. *)
From Coq Require Import ZArith List Bool Arith String Lia.
From QV.Model Require Import C20_Schedule C20_PySem.
From QV.Proofs Require Import C20_Schedule C20_Tomo C20_PySem.
From QVGen Require Import Gen_c20_validators.
Import ListNotations.

(* ------------------------------------------------------------------ Experiment._validate_schedule_item *)
(* for every python value, every experiment and every objdict (absent or given): the regenerated validator passes exactly
   when the model does, raises an exception of the same class otherwise, and is never stuck / never raises anything else *)
Theorem gen_validate_schedule_item_sim : forall self_ objdict item,
  item_sim (gen_validate_schedule_item self_ objdict item) (validate_item (effective_cfg self_ objdict) item).
Proof.
  intros self_ objdict item. unfold gen_validate_schedule_item.
  destruct item as [|s0|z0|b0|vs|]; try reflexivity.
  change (2)%Z with (Z.of_nat 2). rewrite cv_len_eq.
  destruct vs as [|name [|idx [|x vs]]]; try reflexivity.
  destruct name as [|s|zn|bn|vn|]; try reflexivity.
  destruct idx as [|si|z|bi|vi|]; try reflexivity.
  cbn [Datatypes.length Nat.eqb c_bool c_not f_if pv_sub Z.leb Z.to_nat nth_error f_bind cv_type_ne pv_has_type negb
       validate_item Z.compare].
  change (Pos.to_nat 1) with 1%nat.
  cbn [nth_error f_bind cv_type_ne pv_has_type negb c_bool f_if].
  unfold cv_str_in. rewrite known_kind_name.
  destruct (kind_of_name s) as [k|] eqn:K; [|reflexivity].
  apply kind_of_name_spec in K. subst s.
  assert (E : forall d, env_get_v (Some d) (Some (PStr (kind_name k))) = Some (objs d k))
    by (intros d; cbn; unfold env_get; now rewrite kind_of_name_name).
  destruct objdict as [d|]; cbn [env_true effective_cfg]; rewrite E; unfold size;
    destruct k; cbn;
    repeat match goal with |- context [is_nil ?l] => destruct (is_nil l); cbn end;
    destruct (0 <=? z)%Z; cbn; try reflexivity;
    match goal with |- context [(z <? ?n)%Z] => destruct (z <? n)%Z end; reflexivity.
Qed.
Print Assumptions gen_validate_schedule_item_sim.
(* transported: the regenerated item validator accepts exactly the well-typed in-range items *)
Theorem gen_validate_schedule_item_pass_iff : forall self_ objdict item,
  gen_validate_schedule_item self_ objdict item = FPass <-> item_ok (effective_cfg self_ objdict) item.
Proof.
  intros self_ objdict item. pose proof (gen_validate_schedule_item_sim self_ objdict item) as S.
  destruct (validate_item (effective_cfg self_ objdict) item) as [it|e] eqn:V.
  - apply validate_item_ok_iff in V. split; [intros _; now exists it|intros _].
    destruct (gen_validate_schedule_item self_ objdict item); cbn in S; try contradiction; reflexivity.
  - assert (N : ~ item_ok (effective_cfg self_ objdict) item) by (apply validate_item_err_iff; now exists e).
    split; [|intros H; contradiction]. intros H. rewrite H in S. contradiction.
Qed.
Print Assumptions gen_validate_schedule_item_pass_iff.

(* ------------------------------------------------------------------ Experiment._validate_schedule_order *)
Theorem gen_validate_schedule_order_eq : forall s,
  gen_validate_schedule_order s = fres_of_order (validate_order s).
Proof.
  intros s. unfold gen_validate_schedule_order, validate_order.
  change (2)%Z with (Z.of_nat 2). rewrite c_len_lt.
  change "state"%string with (kind_name KState). change "povm"%string with (kind_name KPovm) at 2.
  rewrite !c_count_ge.
  destruct (Nat.ltb_spec (List.length s) 2) as [L|L]; [reflexivity|]. cbn [c_bool f_if].
  assert (Hne : s <> []) by (intros ->; cbn in L; lia).
  rewrite (py_item_first s Hne), (py_item_last s Hne). cbn [py_name option_map].
  rewrite c_str_eq_kind, c_str_in_meas.
  destruct (kind_eqb (fst (hd dflt_item s)) KState); cbn [c_bool c_not f_if negb]; [|reflexivity].
  destruct (is_meas (fst (last s dflt_item))); cbn [c_bool c_not f_if negb]; [|reflexivity].
  destruct (2 <=? count_kind KState s)%nat; cbn [c_bool f_if]; [reflexivity|].
  destruct (2 <=? count_kind KPovm s)%nat; reflexivity.
Qed.
Print Assumptions gen_validate_schedule_order_eq.

(* the order rules, transported: the regenerated function passes exactly the schedules that satisfy them, and it can
   only raise ValueError (which _validate_schedules turns into QuaraScheduleOrderError) — never IndexError *)
Theorem gen_validate_schedule_order_pass_iff : forall s, gen_validate_schedule_order s = FPass <-> order_ok s.
Proof.
  intros s. rewrite gen_validate_schedule_order_eq, <- validate_order_none_iff.
  destruct (validate_order s) as [[]|]; cbn; split; intros H; try discriminate; reflexivity.
Qed.
Print Assumptions gen_validate_schedule_order_pass_iff.
Theorem gen_validate_schedule_order_raises_value_error : forall s,
  gen_validate_schedule_order s = FPass \/ exists n, gen_validate_schedule_order s = FRaise n "ValueError".
Proof.
  intros s. rewrite gen_validate_schedule_order_eq. destruct (validate_order s) as [[]|]; cbn; [right; eexists; reflexivity..|now left].
Qed.
Print Assumptions gen_validate_schedule_order_raises_value_error.

(* ------------------------------------------------------------------ the four class guards *)
Ltac guard_cases s :=
  destruct s as [|[[] ?z0] [|[[] ?z1] [|[[] ?z2] [|? ?]]]];
  cbn; cbv [Pos.to_nat Pos.iter_op Nat.add]; cbn; repeat match goal with |- context [(?z =? 0)%Z] => destruct (z =? 0)%Z; cbn end; try exact I; try reflexivity.

Theorem gen_guard_qst_sim : forall s, guard_sim (gen_guard_qst s) (guard_one Qst s).
Proof. intros s. unfold gen_guard_qst. guard_cases s. Qed.
Print Assumptions gen_guard_qst_sim.
Theorem gen_guard_povmt_sim : forall s, guard_sim (gen_guard_povmt s) (guard_one Povmt s).
Proof. intros s. unfold gen_guard_povmt. guard_cases s. Qed.
Print Assumptions gen_guard_povmt_sim.
Theorem gen_guard_qpt_sim : forall s, guard_sim (gen_guard_qpt s) (guard_one Qpt s).
Proof. intros s. unfold gen_guard_qpt. guard_cases s. Qed.
Print Assumptions gen_guard_qpt_sim.
Theorem gen_guard_qmpt_sim : forall s, guard_sim (gen_guard_qmpt s) (guard_one Qmpt s).
Proof.
  intros s. unfold gen_guard_qmpt. change (3)%Z with (Z.of_nat 3). rewrite c_len_eq. unfold guard_one, len_ok. cbn [class_len].
  guard_cases s.
Qed.
Print Assumptions gen_guard_qmpt_sim.

(* the property theorem for the tomography classes, transported to the regenerated guards *)
Definition gen_guard (t : tclass) (s : list titem) : gres :=
  gres_of (match t with Qst => gen_guard_qst s | Povmt => gen_guard_povmt s | Qpt => gen_guard_qpt s | Qmpt => gen_guard_qmpt s end).
Theorem gen_guards_accept_iff_shape : forall t ns np ss,
  tomo_run_with (gen_guard t) t ns np ss = TOk <-> Forall (class_shape t ns np) ss.
Proof.
  intros t ns np ss. rewrite <- (tomo_accepts_iff_shape t ns np ss). cbn [tomo_construct]. unfold tomo_run.
  rewrite (tomo_run_with_ext (gen_guard t) (guard_one t)); [reflexivity|].
  intros s. unfold gen_guard. apply guard_sim_gres_of.
  destruct t; [apply gen_guard_qst_sim|apply gen_guard_povmt_sim|apply gen_guard_qpt_sim|apply gen_guard_qmpt_sim].
Qed.
Print Assumptions gen_guards_accept_iff_shape.
