(* Re-checked on every run against the eight convert_*_index_to_*_index functions REGENERATED from /repo's
   state.py / povm.py / gate.py / mprocess.py (gen/py2coq.py, group "var_index" of gen/signatures.json):
   (1) each regenerated function equals the hand-written model of Model/C03_Index.v, for ALL integer arguments;
   (2) the C03 index theorems, transported to the regenerated functions: each pair is a pair of mutually inverse
       bijections  [0, num_variables) <-> free entries  for every d > 0, every m, both flags;
   (3) the regenerated var->object maps point at the entry of the (modelled) stacked vector that holds the
       variable's value.
   Abstractions made by the signature table (trusted, compared by execution in the index_maps sub-check):
   c_sys.dim -> dim, len(hss) -> num_hss, vecs[0].shape[0] -> size (instantiated with d*d below). *)
From Coq Require Import ZArith List Bool Lia.
From QV.Core Require Import OF.
From QV.Model Require Import C03_Index C03_VarObj.
From QV.Proofs Require Import C03_Index C03_VarObj.
From QVGen Require Import Gen_var_index.
Local Open Scope Z_scope.

(* ------------------------------------------------------------------ (1) equivalence with the model *)
(* One tactic for all eight: case analysis on the flag and on every integer test, then linear arithmetic over the
   products / quotients as atoms.  Deliberately NOT just [reflexivity]: a behaviour-preserving rewrite of the Python source
   (re-associated sums, `x -= n` instead of a conditional expression, early returns ...) must keep these proofs going. *)
Ltac case_tests :=
  repeat match goal with
         | |- context [Z.eqb ?a ?b] => destruct (Z.eqb_spec a b)
         | |- context [Z.ltb ?a ?b] => destruct (Z.ltb_spec a b)
         | |- context [Z.leb ?a ?b] => destruct (Z.leb_spec a b)
         end.
Ltac finish := try reflexivity; try lia; repeat (f_equal; try lia); try ring.
Ltac solve_equiv :=
  intros;
  repeat match goal with x : (_ * _)%type |- _ => destruct x end;
  repeat match goal with b : bool |- _ => destruct b end;
  cbv beta iota zeta delta
    [gen_state_var_to_idx gen_state_idx_to_var gen_povm_var_to_idx gen_povm_idx_to_var gen_gate_var_to_idx gen_gate_idx_to_var
     gen_mprocess_var_to_idx gen_mprocess_idx_to_var
     state_index_of_var var_of_state_index povm_index_of_var var_of_povm_index gate_index_of_var var_of_gate_index
     mproc_index_of_var var_of_mproc_index andb orb negb];
  case_tests; finish.

Theorem gen_state_var_to_idx_eq : forall i flag, gen_state_var_to_idx i flag = state_index_of_var flag i.
Proof. solve_equiv. Qed.
Print Assumptions gen_state_var_to_idx_eq.
Theorem gen_state_idx_to_var_eq : forall k flag, gen_state_idx_to_var k flag = var_of_state_index flag k.
Proof. solve_equiv. Qed.
Print Assumptions gen_state_idx_to_var_eq.
Theorem gen_povm_var_to_idx_eq : forall size i flag, gen_povm_var_to_idx size i flag = povm_index_of_var size i.
Proof. solve_equiv. Qed.
Print Assumptions gen_povm_var_to_idx_eq.
Theorem gen_povm_idx_to_var_eq : forall size p flag, gen_povm_idx_to_var size p flag = var_of_povm_index size p.
Proof. solve_equiv. Qed.
Print Assumptions gen_povm_idx_to_var_eq.
Theorem gen_gate_var_to_idx_eq : forall d i flag, gen_gate_var_to_idx d i flag = gate_index_of_var d flag i.
Proof. solve_equiv. Qed.
Print Assumptions gen_gate_var_to_idx_eq.
Theorem gen_gate_idx_to_var_eq : forall d p flag, gen_gate_idx_to_var d p flag = var_of_gate_index d flag p.
Proof. solve_equiv. Qed.
Print Assumptions gen_gate_idx_to_var_eq.
Theorem gen_mprocess_var_to_idx_eq : forall d m i flag,
  gen_mprocess_var_to_idx d m i flag = mproc_index_of_var d m flag i.
Proof. solve_equiv. Qed.
Print Assumptions gen_mprocess_var_to_idx_eq.
Theorem gen_mprocess_idx_to_var_eq : forall d m p flag,
  gen_mprocess_idx_to_var d m p flag = var_of_mproc_index d m flag p.
Proof. solve_equiv. Qed.
Print Assumptions gen_mprocess_idx_to_var_eq.

(* ------------------------------------------------------------------ (2) the property theorems, about the regenerated functions *)
Theorem gen_state_index_fwd : forall d flag i, 0 <= i < nv_state d flag ->
  free_state d flag (gen_state_var_to_idx i flag) /\
  gen_state_idx_to_var (gen_state_var_to_idx i flag) flag = i /\
  flat_state (gen_state_var_to_idx i flag) = i + shift_state flag.
Proof. intros d flag i H. rewrite gen_state_idx_to_var_eq, gen_state_var_to_idx_eq. now apply state_index_fwd. Qed.
Print Assumptions gen_state_index_fwd.
Theorem gen_state_index_bwd : forall d flag k, free_state d flag k ->
  0 <= gen_state_idx_to_var k flag < nv_state d flag /\ gen_state_var_to_idx (gen_state_idx_to_var k flag) flag = k.
Proof. intros d flag k H. rewrite gen_state_var_to_idx_eq, gen_state_idx_to_var_eq. now apply state_index_bwd. Qed.
Print Assumptions gen_state_index_bwd.

Theorem gen_povm_index_fwd : forall d m flag i, 0 < d -> 0 <= i < nv_povm d m flag ->
  free_povm d m flag (gen_povm_var_to_idx (d * d) i flag) /\
  gen_povm_idx_to_var (d * d) (gen_povm_var_to_idx (d * d) i flag) flag = i /\
  flat_povm d (gen_povm_var_to_idx (d * d) i flag) = i.
Proof. intros d m flag i Hd H. rewrite gen_povm_idx_to_var_eq, gen_povm_var_to_idx_eq. now apply povm_index_fwd. Qed.
Print Assumptions gen_povm_index_fwd.
Theorem gen_povm_index_bwd : forall d m flag p, 0 < d -> free_povm d m flag p ->
  0 <= gen_povm_idx_to_var (d * d) p flag < nv_povm d m flag /\
  gen_povm_var_to_idx (d * d) (gen_povm_idx_to_var (d * d) p flag) flag = p.
Proof. intros d m flag p Hd H. rewrite gen_povm_var_to_idx_eq, gen_povm_idx_to_var_eq. now apply povm_index_bwd. Qed.
Print Assumptions gen_povm_index_bwd.

Theorem gen_gate_index_fwd : forall d flag i, 0 < d -> 0 <= i < nv_gate d flag ->
  free_gate d flag (gen_gate_var_to_idx d i flag) /\
  gen_gate_idx_to_var d (gen_gate_var_to_idx d i flag) flag = i /\
  flat_gate d (gen_gate_var_to_idx d i flag) = i + shift_gate d flag.
Proof. intros d flag i Hd H. rewrite gen_gate_idx_to_var_eq, gen_gate_var_to_idx_eq. now apply gate_index_fwd. Qed.
Print Assumptions gen_gate_index_fwd.
Theorem gen_gate_index_bwd : forall d flag p, 0 < d -> free_gate d flag p ->
  0 <= gen_gate_idx_to_var d p flag < nv_gate d flag /\
  gen_gate_var_to_idx d (gen_gate_idx_to_var d p flag) flag = p.
Proof. intros d flag p Hd H. rewrite gen_gate_var_to_idx_eq, gen_gate_idx_to_var_eq. now apply gate_index_bwd. Qed.
Print Assumptions gen_gate_index_bwd.

Theorem gen_mprocess_index_fwd : forall d m flag i, 0 < d -> 0 <= i < nv_mproc d m flag ->
  free_mproc d m flag (gen_mprocess_var_to_idx d m i flag) /\
  gen_mprocess_idx_to_var d m (gen_mprocess_var_to_idx d m i flag) flag = i /\
  flat_mproc d (gen_mprocess_var_to_idx d m i flag) = i + shift_mproc d m flag i.
Proof. intros d m flag i Hd H. rewrite gen_mprocess_idx_to_var_eq, gen_mprocess_var_to_idx_eq. now apply mproc_index_fwd. Qed.
Print Assumptions gen_mprocess_index_fwd.
Theorem gen_mprocess_index_bwd : forall d m flag p, 0 < d -> free_mproc d m flag p ->
  0 <= gen_mprocess_idx_to_var d m p flag < nv_mproc d m flag /\
  gen_mprocess_var_to_idx d m (gen_mprocess_idx_to_var d m p flag) flag = p.
Proof. intros d m flag p Hd H. rewrite gen_mprocess_var_to_idx_eq, gen_mprocess_idx_to_var_eq. now apply mproc_index_bwd. Qed.
Print Assumptions gen_mprocess_index_bwd.

(* ------------------------------------------------------------------ (3) "points at the entry holding that variable's value" *)
(* position in the stacked vector of the entry the REGENERATED var->object map designates *)
Definition gen_flat_index (F : OF) (o : qop F) (i : Z) : Z :=
  match o with
  | QState _ d f _ => flat_state (gen_state_var_to_idx i f)
  | QGate _ d f _ => flat_gate (Z.of_nat d) (gen_gate_var_to_idx (Z.of_nat d) i f)
  | QPovm _ d f v => flat_povm (Z.of_nat d) (gen_povm_var_to_idx (Z.of_nat d * Z.of_nat d) i f)
  | QMproc _ d f h => flat_mproc (Z.of_nat d) (gen_mprocess_var_to_idx (Z.of_nat d) (Z.of_nat (length h)) i f)
  end.
Theorem gen_index_points_at_entry : forall (F : OF) (o : qop F) (i : Z),
  qop_wf F o -> 0 <= i < qop_num_variables F o ->
  nth (Z.to_nat (gen_flat_index F o i)) (qop_stacked F o) (c0 F) = nth (Z.to_nat i) (qop_to_var F o) (c0 F).
Proof. intros F o i W H. rewrite <- (qop_index_points F o i W H). f_equal. f_equal.
  destruct o; cbn [gen_flat_index qop_flat_index];
  now rewrite ?gen_state_var_to_idx_eq, ?gen_gate_var_to_idx_eq, ?gen_povm_var_to_idx_eq, ?gen_mprocess_var_to_idx_eq. Qed.
Print Assumptions gen_index_points_at_entry.
