(* Re-checked on every run against the eight convert_*_index_to_*_index functions REGENERATED from /repo's
   state.py / povm.py / gate.py / mprocess.py: each equals the hand-written model of Model/C03_Index.v. *)
From Coq Require Import ZArith List Bool Lia.
From QV.Model Require Import C03_Index.
From QVGen Require Import Gen_var_index.
Local Open Scope Z_scope.

Theorem gen_state_var_to_idx_eq : forall i flag, gen_state_var_to_idx i flag = state_index_of_var flag i.
Proof. intros i [|]; reflexivity. Qed.
Print Assumptions gen_state_var_to_idx_eq.
Theorem gen_state_idx_to_var_eq : forall k flag, gen_state_idx_to_var k flag = var_of_state_index flag k.
Proof. intros k [|]; reflexivity. Qed.
Print Assumptions gen_state_idx_to_var_eq.
Theorem gen_povm_var_to_idx_eq : forall size i flag, gen_povm_var_to_idx size i flag = povm_index_of_var size i.
Proof. reflexivity. Qed.
Print Assumptions gen_povm_var_to_idx_eq.
Theorem gen_povm_idx_to_var_eq : forall size p flag, gen_povm_idx_to_var size p flag = var_of_povm_index size p.
Proof. intros size [x a] flag. reflexivity. Qed.
Print Assumptions gen_povm_idx_to_var_eq.
Theorem gen_gate_var_to_idx_eq : forall d i flag, gen_gate_var_to_idx d i flag = gate_index_of_var d flag i.
Proof. intros d i [|]; reflexivity. Qed.
Print Assumptions gen_gate_var_to_idx_eq.
Theorem gen_gate_idx_to_var_eq : forall d p flag, gen_gate_idx_to_var d p flag = var_of_gate_index d flag p.
Proof. intros d [r c] [|]; reflexivity. Qed.
Print Assumptions gen_gate_idx_to_var_eq.
Theorem gen_mprocess_var_to_idx_eq : forall d m i flag,
  gen_mprocess_var_to_idx d m i flag = mproc_index_of_var d m flag i.
Proof. intros d m i [|]; unfold gen_mprocess_var_to_idx, mproc_index_of_var; cbn [andb];
  try reflexivity; destruct (i / (d * d * (d * d)) =? m - 1); reflexivity. Qed.
Print Assumptions gen_mprocess_var_to_idx_eq.
Theorem gen_mprocess_idx_to_var_eq : forall d m p flag,
  gen_mprocess_idx_to_var d m p flag = var_of_mproc_index d m flag p.
Proof. intros d m [[x r] c] [|]; unfold gen_mprocess_idx_to_var, var_of_mproc_index; cbn [andb];
  try reflexivity; destruct (x =? m - 1); reflexivity. Qed.
Print Assumptions gen_mprocess_idx_to_var_eq.
