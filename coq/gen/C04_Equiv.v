(* Re-checked on every run against the definitions REGENERATED (gen/c04_py2coq.py -> Gen_c04_closures.v) from the CURRENT source of
     quara/objects/qoperation.py : QOperation.func_calc_proj_eq_constraint, func_calc_proj_eq_constraint_with_var,
                                   func_calc_proj_ineq_constraint, func_calc_proj_ineq_constraint_with_var,
                                   func_calc_proj_physical, func_calc_proj_physical_with_var
     quara/objects/mprocess.py   : MProcess.calc_proj_ineq_constraint_with_var (assembly rule of the result vector),
                                   convert_var_to_hss, convert_hss_to_var (integer layout: outcome count from the length, inserted / deleted first row)
     quara/objects/{state,povm,gate,mprocess}.py : default of on_para_eq_constraint of the eight static calc_proj_*_constraint_with_var
     quara/objects/state.py, gate.py : State / Gate.calc_proj_eq_constraint and ..._with_var (the index / slice assignments, performed on a copy)
     quara/objects/povm.py, mprocess.py : Povm / MProcess.calc_proj_eq_constraint and ..._with_var (loop skeleton + whole-array arithmetic; MProcess on a deep copy).
   For ALL requested flags (None / True / False) and own flags the value every closure hands to its callee as
   on_para_eq_constraint is  resolve req own  (explicit request wins, None = the object's own): this is the clause
   "the object-level and variable-level forms compute the same point under BOTH parametrisations" at the level of the
   factories' decision logic; every other parameter of a factory reaches a callee; each closure calls the projection it is
   named after.  The flag theorems go by case analysis on the VALUES (6 cases), so any rewriting of the prologue with the same
   meaning (`x if x is not None else self._x`, nested ifs, ...) keeps them valid, while `x or self._x`, passing the own flag,
   a constant, or dropping a forwarded argument breaks them. *)
From Coq Require Import String List Bool ZArith Lia Field Ring.
From QV.Core Require Import OF Sums.
From QV.Model Require Import C04_PySem C04_Proj.
From QVGen Require Import Gen_c04_closures.
Import ListNotations.
Open Scope string_scope.

Ltac flag_cases := intros req own; destruct req as [[|]|]; destruct own; vm_compute; repeat constructor.

Theorem gen_eq_obj_flag : forall req own, Forall (fun v => v = PBool (resolve req own)) (gen_func_calc_proj_eq_constraint_flags req own).
Proof. flag_cases. Qed.
Print Assumptions gen_eq_obj_flag.
Theorem gen_eq_var_flag : forall req own, Forall (fun v => v = PBool (resolve req own)) (gen_func_calc_proj_eq_constraint_with_var_flags req own).
Proof. flag_cases. Qed.
Print Assumptions gen_eq_var_flag.
Theorem gen_ineq_obj_flag : forall req own, Forall (fun v => v = PBool (resolve req own)) (gen_func_calc_proj_ineq_constraint_flags req own).
Proof. flag_cases. Qed.
Print Assumptions gen_ineq_obj_flag.
Theorem gen_ineq_var_flag : forall req own, Forall (fun v => v = PBool (resolve req own)) (gen_func_calc_proj_ineq_constraint_with_var_flags req own).
Proof. flag_cases. Qed.
Print Assumptions gen_ineq_var_flag.
Theorem gen_physical_obj_flag : forall req own, Forall (fun v => v = PBool (resolve req own)) (gen_func_calc_proj_physical_flags req own).
Proof. flag_cases. Qed.
Print Assumptions gen_physical_obj_flag.
Theorem gen_physical_var_flag : forall req own, Forall (fun v => v = PBool (resolve req own)) (gen_func_calc_proj_physical_with_var_flags req own).
Proof. flag_cases. Qed.
Print Assumptions gen_physical_var_flag.

(* every closure passes the flag at least once (a closure that ignores it would make the theorems above vacuous) *)
Theorem gen_flags_nonempty : forall req own,
  gen_func_calc_proj_eq_constraint_flags req own <> [] /\ gen_func_calc_proj_eq_constraint_with_var_flags req own <> [] /\
  gen_func_calc_proj_ineq_constraint_flags req own <> [] /\ gen_func_calc_proj_ineq_constraint_with_var_flags req own <> [] /\
  gen_func_calc_proj_physical_flags req own <> [] /\ gen_func_calc_proj_physical_with_var_flags req own <> [].
Proof. intros req own. repeat split; discriminate. Qed.
Print Assumptions gen_flags_nonempty.

(* consequently: the object-level closure and the variable-level closure of the same request hand the SAME flag to their callees *)
Theorem gen_obj_var_same_flag : forall req own v v',
  (In v (gen_func_calc_proj_eq_constraint_flags req own) -> In v' (gen_func_calc_proj_eq_constraint_with_var_flags req own) -> v = v') /\
  (In v (gen_func_calc_proj_ineq_constraint_flags req own) -> In v' (gen_func_calc_proj_ineq_constraint_with_var_flags req own) -> v = v') /\
  (In v (gen_func_calc_proj_physical_flags req own) -> In v' (gen_func_calc_proj_physical_with_var_flags req own) -> v = v').
Proof. intros req own v v'.
  pose proof (proj1 (Forall_forall _ _) (gen_eq_obj_flag req own)) as A1. pose proof (proj1 (Forall_forall _ _) (gen_eq_var_flag req own)) as A2.
  pose proof (proj1 (Forall_forall _ _) (gen_ineq_obj_flag req own)) as B1. pose proof (proj1 (Forall_forall _ _) (gen_ineq_var_flag req own)) as B2.
  pose proof (proj1 (Forall_forall _ _) (gen_physical_obj_flag req own)) as C1. pose proof (proj1 (Forall_forall _ _) (gen_physical_var_flag req own)) as C2.
  repeat split; intros H H'; [rewrite (A1 v H), (A2 v' H')|rewrite (B1 v H), (B2 v' H')|rewrite (C1 v H), (C2 v' H')]; reflexivity. Qed.
Print Assumptions gen_obj_var_same_flag.

(* every other parameter of a factory (and the object's eps_truncate_imaginary_part, where the callee takes it) reaches a callee *)
Theorem gen_forwards_all : forallb snd (gen_func_calc_proj_eq_constraint_forwards ++ gen_func_calc_proj_eq_constraint_with_var_forwards ++
  gen_func_calc_proj_ineq_constraint_forwards ++ gen_func_calc_proj_ineq_constraint_with_var_forwards ++
  gen_func_calc_proj_physical_forwards ++ gen_func_calc_proj_physical_with_var_forwards) = true /\
  In "self.eps_truncate_imaginary_part" (map fst gen_func_calc_proj_ineq_constraint_with_var_forwards) /\
  In "mode_proj_order" (map fst gen_func_calc_proj_physical_forwards) /\ In "max_iteration" (map fst gen_func_calc_proj_physical_forwards) /\
  In "mode_proj_order" (map fst gen_func_calc_proj_physical_with_var_forwards) /\ In "max_iteration" (map fst gen_func_calc_proj_physical_with_var_forwards).
Proof. vm_compute. intuition. Qed.
Print Assumptions gen_forwards_all.

(* each closure calls the projection it is named after; the object-level ones go var -> object -> project -> var *)
Theorem gen_callees : 
  In "calc_proj_eq_constraint" gen_func_calc_proj_eq_constraint_callees /\ In "generate_from_var" gen_func_calc_proj_eq_constraint_callees /\
  In "to_var" gen_func_calc_proj_eq_constraint_callees /\
  gen_func_calc_proj_eq_constraint_with_var_callees = ["calc_proj_eq_constraint_with_var"] /\
  In "calc_proj_ineq_constraint" gen_func_calc_proj_ineq_constraint_callees /\ In "generate_from_var" gen_func_calc_proj_ineq_constraint_callees /\
  In "to_var" gen_func_calc_proj_ineq_constraint_callees /\
  gen_func_calc_proj_ineq_constraint_with_var_callees = ["calc_proj_ineq_constraint_with_var"] /\
  In "calc_proj_physical" gen_func_calc_proj_physical_callees /\ In "generate_from_var" gen_func_calc_proj_physical_callees /\
  In "to_var" gen_func_calc_proj_physical_callees /\
  gen_func_calc_proj_physical_with_var_callees = ["calc_proj_physical_with_var"].
Proof. vm_compute. intuition. Qed.
Print Assumptions gen_callees.

(* MProcess.calc_proj_ineq_constraint_with_var: per-outcome projection in the FULL parametrisation; the first dim^2 entries of the
   last projected hs are dropped exactly when the variables are in the constrained parametrisation - for all flags, indices, counts, dims *)
Theorem gen_mp_ineq_assembly : forall flag i m dim,
  gen_mp_ineq_delete flag i m = mp_ineq_delete flag i m /\ gen_mp_ineq_slice dim = mp_ineq_slice dim /\ gen_mp_ineq_callee_flag = PBool false.
Proof. intros flag i m dim. unfold gen_mp_ineq_delete, mp_ineq_delete, gen_mp_ineq_slice, mp_ineq_slice, gen_mp_ineq_callee_flag.
  split; [|split; [f_equal; lia|reflexivity]].
  destruct flag; cbn [andb negb orb]; try reflexivity;
  repeat match goal with |- context [(?a =? ?b)%Z] => destruct (Z.eqb_spec a b) end; try reflexivity; try lia. Qed.
Print Assumptions gen_mp_ineq_assembly.

(* mprocess.convert_var_to_hss: the integer layout of the code IS the layout of Model/C04_Proj.v (mp_m_of_len, vinsert position of
   mp_var_to_stacked, summation range and slices of mp_first_row_last, e0, reshape to (m, n, n)) - for every dimension d and every length *)
Theorem gen_v2h_layout : forall d len : nat,
  let n := (d * d)%nat in let D := Z.of_nat d in let L := Z.of_nat len in
  gen_v2h_hs_size D = Z.of_nat (n * n) /\
  gen_v2h_m_true D L = Z.of_nat (mp_m_of_len true n len) /\
  gen_v2h_m_false D L = Z.of_nat (mp_m_of_len false n len) /\
  gen_v2h_loop_n D L = Z.of_nat (mp_m_of_len true n len - 1) /\
  gen_v2h_insert_pos D L = Z.of_nat ((mp_m_of_len true n len - 1) * (n * n)) /\
  gen_v2h_one_len D L = Z.of_nat n /\ gen_v2h_one_index D L = 0%Z /\ gen_v2h_one_value D L = 1%Z /\ gen_v2h_acc_len D L = Z.of_nat n /\
  (forall o : nat, gen_v2h_slice D L (Z.of_nat o) = (Z.of_nat (o * (n * n)), Z.of_nat (o * (n * n) + n))) /\
  gen_v2h_reshape_true D L = (Z.of_nat (mp_m_of_len true n len), Z.of_nat n, Z.of_nat n) /\
  gen_v2h_reshape_false D L = (Z.of_nat (mp_m_of_len false n len), Z.of_nat n, Z.of_nat n).
Proof. intros d len n D L. unfold mp_m_of_len.
  replace (len / (n * n) + 1 - 1)%nat with (len / (n * n))%nat by lia.
  assert (H1 : gen_v2h_hs_size D = Z.of_nat (n * n)).
  { unfold gen_v2h_hs_size. subst n D. rewrite !Nat2Z.inj_mul. ring. }
  assert (HN : Z.of_nat n = (D * D)%Z) by (subst n D; now rewrite Nat2Z.inj_mul).
  assert (H2 : gen_v2h_m_true D L = Z.of_nat (len / (n * n) + 1)).
  { unfold gen_v2h_m_true. rewrite ?H1, Nat2Z.inj_add, Nat2Z.inj_div. fold L. cbn [Z.of_nat]. lia. }
  assert (H3 : gen_v2h_m_false D L = Z.of_nat (len / (n * n))).
  { unfold gen_v2h_m_false. rewrite ?H1, Nat2Z.inj_div. fold L. lia. }
  unfold gen_v2h_loop_n, gen_v2h_insert_pos, gen_v2h_one_len, gen_v2h_one_index,
    gen_v2h_one_value, gen_v2h_acc_len, gen_v2h_slice, gen_v2h_reshape_true, gen_v2h_reshape_false.
  rewrite ?H1, ?H2, ?H3, ?Nat2Z.inj_add, ?Nat2Z.inj_mul, ?HN. cbn [Z.of_nat].
  set (q := Z.of_nat (len / (n * n))). set (P := (D * D)%Z).
  repeat split; try reflexivity; try lia; try ring;
    try (intros o; rewrite ?Nat2Z.inj_add, ?Nat2Z.inj_mul, ?HN; fold P; f_equal; ring); try (repeat f_equal; (lia || ring)). Qed.
Print Assumptions gen_v2h_layout.

(* mprocess.convert_hss_to_var (constrained parametrisation): row 0 (axis 0) of exactly the LAST hs is dropped - the vdelete of mp_hss_to_var *)
Theorem gen_h2v_layout : forall i m : Z, gen_h2v_delete i m = (i =? m - 1)%Z /\ gen_h2v_row = 0%Z /\ gen_h2v_axis = 0%Z.
Proof. intros i m. unfold gen_h2v_delete, gen_h2v_row, gen_h2v_axis. split; [|split; reflexivity].
  repeat match goal with |- context [(?a =? ?b)%Z] => destruct (Z.eqb_spec a b) end; try reflexivity; lia. Qed.
Print Assumptions gen_h2v_layout.

(* the eight static variable-level projections default to the constrained parametrisation (what the harness calls "flag True") *)
Theorem gen_static_defaults_true : length gen_static_defaults = 8%nat /\
  forallb (fun p => match snd p with PBool true => true | _ => false end) gen_static_defaults = true.
Proof. vm_compute. split; reflexivity. Qed.
Print Assumptions gen_static_defaults_true.

(* ---- State / Gate equality projections: the regenerated assignment programs, interpreted (Model/C04_PySem.v interp1 / interp2) on the
   operand, ARE the models of Model/C04_Proj.v, for every ordered field, dimension, vector / matrix and index.  (That the assignments go to
   a copy of the operand which is then handed to the constructor / returned is enforced by the translator: any other shape is rejected.) *)
Ltac zcases := repeat match goal with
  | |- context [(?a <=? ?b)%Z] => destruct (Z.leb_spec a b)
  | |- context [(?a <? ?b)%Z] => destruct (Z.ltb_spec a b)
  | |- context [(?a =? ?b)%Z] => destruct (Z.eqb_spec a b)
  | |- context [Nat.eqb ?a ?b] => destruct (Nat.eqb_spec a b)
  | |- context [Nat.ltb ?a ?b] => destruct (Nat.ltb_spec a b) end; cbn [andb orb negb]; try reflexivity; try lia.

Theorem gen_state_eq_proj : forall (F : OF) (sd : F) (d : nat) (v : nat -> F) (i : nat),
  interp1 F sd (gen_state_obj_writes (Z.of_nat d)) v i = state_proj_eq F sd v i /\
  interp1 F sd (gen_state_var_writes (Z.of_nat d)) v i = state_proj_eq_var F false sd v i /\
  gen_state_var_true_is_arg = true.
Proof. intros F sd d v i. unfold gen_state_obj_writes, gen_state_var_writes, gen_state_var_true_is_arg, interp1, in_slice, state_proj_eq, state_proj_eq_var.
  cbn [fold_left wv]. repeat split; zcases. Qed.
Print Assumptions gen_state_eq_proj.

Theorem gen_gate_eq_proj : forall (F : OF) (sd : F) (d : nat) (H : nat -> nat -> F) (w : nat -> F) (a b k : nat),
  interp2 F sd (gen_gate_obj_writes (Z.of_nat d)) H a b = gate_proj_eq F H a b /\
  interp1 F sd (gen_gate_var_writes (Z.of_nat d)) w k = gate_proj_eq_var F false (d * d) w k /\
  gen_gate_var_true_is_arg = true.
Proof. intros F sd d H w a b k. unfold gen_gate_obj_writes, gen_gate_var_writes, gen_gate_var_true_is_arg, interp1, interp2, in_slice, gate_proj_eq, gate_proj_eq_var, e0.
  cbn [fold_left wv]. rewrite <- ?Nat2Z.inj_mul. repeat split; zcases. Qed.
Print Assumptions gen_gate_eq_proj.

(* ---- Povm / MProcess equality projections: the regenerated arithmetic, put into the (literally matched) loop skeleton, IS the model of
   Model/C04_Proj.v - for every ordered field, outcome count, dimension, object and index.  The translator additionally enforces that
   MProcess works on copy.deepcopy of self.hss / of convert_var_to_hss(...) and that Povm never assigns into its input arrays. *)
Section ArrayPrograms.
Context (F : OF).
Add Field Ffa : (k_field F).
(* c = hstack([first], zeros);  a_bar = sum_y V[y] (axis 0) <op> m;  new_vec = <expr>(vec, a_bar, c)   elementwise *)
Definition povm_interp (cfirst abar : F -> F -> F) (newvec : F -> F -> F -> F) (sd : F) (m : nat) (V : nat -> nat -> F) : nat -> nat -> F :=
  fun x a => newvec (V x a) (abar (sumn m (fun y => V y a)) (of_nat m)) (if Nat.eqb a 0 then cfirst sd (of_nat m) else c0 F).
(* vec = zeros; for hs: vec += hs[acc_row]; vec[dec_idx] -= dec_val; for hs: hs[upd_row] -= <expr>(vec, len(hss)) *)
Definition mp_interp (acc_row dec_idx upd_row : Z) (dec_val : Z) (upd : F -> F -> F) (m : nat) (H : nat -> nat -> nat -> F) : nat -> nat -> nat -> F :=
  fun x a b => let vec := csub F (sumn m (fun y => H y (Z.to_nat acc_row) b)) (if (Z.of_nat b =? dec_idx)%Z then of_nat (Z.to_nat dec_val) else c0 F) in
               if (Z.of_nat a =? upd_row)%Z then csub F (H x a b) (upd vec (of_nat m)) else H x a b.

Lemma gen_povm_eq_proj_F : forall (sd : F) (d m : nat) (V : nat -> nat -> F) (x a : nat),
  povm_interp (gen_povm_obj_c_first F) (gen_povm_obj_abar F) (gen_povm_obj_newvec F) sd m V x a = povm_proj_eq F sd m V x a /\
  povm_interp (gen_povm_var_c_first F) (gen_povm_var_abar F) (gen_povm_var_newvec F) sd m V x a = povm_proj_eq F sd m V x a /\
  gen_povm_obj_c_zeros (Z.of_nat d) = (Z.of_nat (d * d) - 1)%Z /\ gen_povm_var_c_zeros (Z.of_nat d) = (Z.of_nat (d * d) - 1)%Z /\
  gen_povm_obj_axis = 0%Z /\ gen_povm_var_axis = 0%Z.
Proof. intros sd d m V x a.
  unfold povm_interp, gen_povm_obj_c_first, gen_povm_obj_abar, gen_povm_obj_newvec, gen_povm_var_c_first, gen_povm_var_abar, gen_povm_var_newvec,
    gen_povm_obj_c_zeros, gen_povm_var_c_zeros, gen_povm_obj_size, gen_povm_var_size, gen_povm_obj_axis, gen_povm_var_axis, povm_proj_eq, povm_abar, povm_c.
  rewrite ?Nat2Z.inj_mul. repeat split; try reflexivity; try lia; destruct (Nat.eqb a 0); (reflexivity || ring). Qed.

Lemma gen_mp_eq_proj_F : forall (d m : nat) (H : nat -> nat -> nat -> F) (x a b : nat),
  mp_interp gen_mp_obj_acc_row gen_mp_obj_dec_idx gen_mp_obj_upd_row gen_mp_obj_dec_val (gen_mp_obj_upd F) m H x a b = mp_proj_eq F m H x a b /\
  mp_interp gen_mp_var_acc_row gen_mp_var_dec_idx gen_mp_var_upd_row gen_mp_var_dec_val (gen_mp_var_upd F) m H x a b = mp_proj_eq F m H x a b /\
  gen_mp_obj_zeros (Z.of_nat d) = Z.of_nat (d * d) /\ gen_mp_var_zeros (Z.of_nat d) = Z.of_nat (d * d).
Proof. intros d m H x a b.
  unfold mp_interp, gen_mp_obj_acc_row, gen_mp_obj_dec_idx, gen_mp_obj_upd_row, gen_mp_obj_dec_val, gen_mp_obj_upd,
    gen_mp_var_acc_row, gen_mp_var_dec_idx, gen_mp_var_upd_row, gen_mp_var_dec_val, gen_mp_var_upd, gen_mp_obj_zeros, gen_mp_var_zeros,
    mp_proj_eq, mp_defect, e0.
  rewrite ?Nat2Z.inj_mul. cbn [Z.to_nat]. change (Pos.to_nat 1) with 1%nat. cbn [of_nat].
  replace (cadd F (c0 F) (c1 F)) with (c1 F) by ring.
  repeat split; try reflexivity; try lia.
  all: destruct (Z.eqb_spec (Z.of_nat a) 0) as [Ea|Ea]; [assert (a = 0)%nat by lia; subst a|destruct (Nat.eqb_spec a 0); [lia|reflexivity]].
  all: cbn [Nat.eqb]. all: destruct (Z.eqb_spec (Z.of_nat b) 0) as [Eb|Eb]; [assert (b = 0)%nat by lia; subst b; cbn [Nat.eqb]|destruct (Nat.eqb_spec b 0); [lia|]].
  all: (reflexivity || ring). Qed.
End ArrayPrograms.

Theorem gen_povm_eq_proj : forall (F : OF) (sd : F) (d m : nat) (V : nat -> nat -> F) (x a : nat),
  povm_interp F (gen_povm_obj_c_first F) (gen_povm_obj_abar F) (gen_povm_obj_newvec F) sd m V x a = povm_proj_eq F sd m V x a /\
  povm_interp F (gen_povm_var_c_first F) (gen_povm_var_abar F) (gen_povm_var_newvec F) sd m V x a = povm_proj_eq F sd m V x a /\
  gen_povm_obj_c_zeros (Z.of_nat d) = (Z.of_nat (d * d) - 1)%Z /\ gen_povm_var_c_zeros (Z.of_nat d) = (Z.of_nat (d * d) - 1)%Z /\
  gen_povm_obj_axis = 0%Z /\ gen_povm_var_axis = 0%Z.
Proof. exact gen_povm_eq_proj_F. Qed.
Print Assumptions gen_povm_eq_proj.

Theorem gen_mp_eq_proj : forall (F : OF) (d m : nat) (H : nat -> nat -> nat -> F) (x a b : nat),
  mp_interp F gen_mp_obj_acc_row gen_mp_obj_dec_idx gen_mp_obj_upd_row gen_mp_obj_dec_val (gen_mp_obj_upd F) m H x a b = mp_proj_eq F m H x a b /\
  mp_interp F gen_mp_var_acc_row gen_mp_var_dec_idx gen_mp_var_upd_row gen_mp_var_dec_val (gen_mp_var_upd F) m H x a b = mp_proj_eq F m H x a b /\
  gen_mp_obj_zeros (Z.of_nat d) = Z.of_nat (d * d) /\ gen_mp_var_zeros (Z.of_nat d) = Z.of_nat (d * d).
Proof. exact gen_mp_eq_proj_F. Qed.
Print Assumptions gen_mp_eq_proj.
