(* C05 — property theorems transported to the REGENERATED text of calc_proj_physical / calc_proj_physical_with_var
   (through gen_with_var_equiv / gen_obj_equiv), and the documented defaults of the two signatures. *)
From Coq Require Import List Arith Bool String ZArith Lia.
From QV.Core Require Import OF Sums Mat.
From QV.Model Require Import C05_Dykstra C05_PySem.
From QV.Proofs Require Import C05_Dykstra C05_PySem.
From QVGen Require Import Gen_c05_dykstra C05_EquivBase C05_EquivVar C05_EquivObj.
Import ListNotations.
Local Open Scope string_scope.

Section Thm.
Context (F : OF) (n : nat).
Notation vec := (@vec F).
Context (Peq Pineq : vec -> vec) (x0 : vec) (conv_out : vec -> vec) (mode : string) (eps : F).
Notation orc := (orc F Peq Pineq x0 conv_out).
Notation sattr := (sattr F mode eps).
Infix "<=" := (kle F).

Lemma last_map_f {A B} (f : A -> B) l d : last (map f l) (f d) = f (last l d).
Proof. induction l as [|a l IH]; [reflexivity|]. cbn [map]. destruct l as [|a' l]; [reflexivity|].
  change (last (f a :: map f (a' :: l)) (f d)) with (last (map f (a' :: l)) (f d)). rewrite IH. reflexivity. Qed.
Lemma idv_ok : forall (v : vec) i, (i < n)%nat -> idv F v i = v i. Proof. reflexivity. Qed.

(* what a run of the model loop with fuel >= 1 guarantees, for nearest-point (obtuse-angle) projections *)
Lemma model_run_certified (E I : vec -> Prop) :
  obtuse F n E (fun _ => Peq) -> obtuse F n I (fun _ => Pineq) -> forall b max_iter, (1 <= max_iter)%nat ->
  exists r, run_mode F n (idv F) (fun _ => Peq) (fun _ => Pineq) b eps max_iter x0 = Some r /\
    (forall i, (i < n)%nat -> cadd F (cadd F (sx (r_final r) i) (sp (r_final r) i)) (sq (r_final r) i) = x0 i) /\
    (forall z, E z -> I z -> dot n (vsub x0 (sx (r_final r))) (vsub z (sx (r_final r))) <= gap F n (r_final r)) /\
    last (r_hist r) (init F (idv F) x0) = r_final r.
Proof. intros oE oI b max_iter Hm. unfold run_mode.
  destruct (run_history F n (idv F) (first_proj F (fun _ => Peq) (fun _ => Pineq) b) (second_proj F (fun _ => Peq) (fun _ => Pineq) b)
              eps max_iter x0 Hm) as (r & Hr & Hst & Hf & _ & _ & Hl & _).
  exists r. split; [exact Hr|]. rewrite Hf. split; [|split].
  - intros i Hi. apply (invariant_mode F n (idv F) idv_ok (fun _ => Peq) (fun _ => Pineq) b x0 (r_steps r) i Hi).
  - intros z Ez Iz. apply (certificate_mode F n (idv F) idv_ok (fun _ => Peq) (fun _ => Pineq) E I oE oI b x0 (r_steps r) z); [lia|assumption|assumption].
  - rewrite <- Hf. exact Hl. Qed.

(* calc_proj_physical_with_var as regenerated from /repo: it does not raise, its result is conv_out of a point x that
   satisfies the invariant x + p + q = x0 and the a-posteriori optimality certificate <x0 - x, z - x> <= gap for every
   z in E /\ I, and (history requested) the last recorded x is that point *)
Theorem gen_with_var_certified : forall (E I : vec -> Prop),
  obtuse F n E (fun _ => Peq) -> obtuse F n I (fun _ => Pineq) -> forall (hist : bool) max_iter, (1 <= max_iter)%nat ->
  let e := gen_calc_proj_physical_with_var F n orc sattr (VStr "<self>") (VStr "<var>") (VStr "<on_para_eq_constraint>")
             (VInt (Z.of_nat max_iter)) (VBool hist) in
  exists (x p q : vec) (g : F) (hx : list (val F)),
    e N_err = VBool false /\
    (if hist then exists d, e N_ret = VTuple [VVec (conv_out x); VDict (("p", d "p") :: ("q", d "q") :: ("x", VList hx) :: ("y", d "y") :: ("error_value", d "e") :: nil)]
                            /\ last hx (VVec x0) = VVec x
     else e N_ret = VVec (conv_out x)) /\
    (forall i, (i < n)%nat -> cadd F (cadd F (x i) (p i)) (q i) = x0 i) /\
    (forall z, E z -> I z -> dot n (vsub x0 x) (vsub z x) <= g).
Proof. intros E I oE oI hist max_iter Hm e.
  destruct (model_run_certified E I oE oI (String.eqb mode "eq_ineq") max_iter Hm) as (r & Hr & Hinv & Hc & Hl).
  pose proof (gen_with_var_equiv F n Peq Pineq x0 conv_out mode eps hist max_iter) as G. cbv zeta in G. rewrite Hr in G.
  destruct G as (G1 & _ & G3).
  exists (sx (r_final r)), (sp (r_final r)), (sq (r_final r)), (gap F n (r_final r)), (map (fx F) (r_hist r)).
  split; [exact G1|]. split; [|split; assumption].
  destruct hist; [|exact G3].
  exists (fun k => if k =? "p" then VList (map (fp F) (r_hist r)) else if k =? "q" then VList (map (fq F) (r_hist r))
                   else if k =? "y" then VList (fy F (r_hist r)) else VList (map (fe F) (r_errs r))).
  split; [exact G3|].
  change (VVec x0) with (fx F (init F (idv F) x0)). rewrite last_map_f, Hl. reflexivity. Qed.

(* the same for the object-level routine (objects represented by their stacked vectors) *)
Theorem gen_obj_certified : forall (E I : vec -> Prop),
  obtuse F n E (fun _ => Peq) -> obtuse F n I (fun _ => Pineq) -> forall (hist : bool) max_iter, (1 <= max_iter)%nat ->
  let e := gen_calc_proj_physical F n orc sattr (VVec x0) (VInt (Z.of_nat max_iter)) (VBool hist) in
  exists (x p q : vec) (g : F) (hx : list (val F)),
    e N_err = VBool false /\
    (if hist then exists d, e N_ret = VTuple [VVec x; VDict (("p", d "p") :: ("q", d "q") :: ("x", VList hx) :: ("y", d "y") :: ("error_value", d "e") :: nil)]
                            /\ last hx (VVec x0) = VVec x
     else e N_ret = VVec x) /\
    (forall i, (i < n)%nat -> cadd F (cadd F (x i) (p i)) (q i) = x0 i) /\
    (forall z, E z -> I z -> dot n (vsub x0 x) (vsub z x) <= g).
Proof. intros E I oE oI hist max_iter Hm e.
  destruct (model_run_certified E I oE oI (String.eqb mode "eq_ineq") max_iter Hm) as (r & Hr & Hinv & Hc & Hl).
  pose proof (gen_obj_equiv F n Peq Pineq x0 conv_out mode eps hist max_iter) as G. cbv zeta in G. rewrite Hr in G.
  destruct G as (G1 & _ & G3).
  exists (sx (r_final r)), (sp (r_final r)), (sq (r_final r)), (gap F n (r_final r)), (map (fx F) (r_hist r)).
  split; [exact G1|]. split; [|split; assumption].
  destruct hist; [|exact G3].
  exists (fun k => if k =? "p" then VList (map (fp F) (r_hist r)) else if k =? "q" then VList (map (fq F) (r_hist r))
                   else if k =? "y" then VList (fy F (r_hist r)) else VList (map (fe F) (r_errs r))).
  split; [exact G3|].
  change (VVec x0) with (fx F (init F (idv F) x0)). rewrite last_map_f, Hl. reflexivity. Qed.

(* max_iteration = 0: both regenerated routines raise (UnboundLocalError on the loop variable) *)
Theorem gen_zero_fuel_raises : forall hist : bool,
  gen_calc_proj_physical_with_var F n orc sattr (VStr "<self>") (VStr "<var>") (VStr "<on_para_eq_constraint>") (VInt (Z.of_nat 0)) (VBool hist) N_err = VBool true /\
  gen_calc_proj_physical F n orc sattr (VVec x0) (VInt (Z.of_nat 0)) (VBool hist) N_err = VBool true.
Proof. intros hist. split.
  - exact (gen_with_var_equiv F n Peq Pineq x0 conv_out mode eps hist 0).
  - exact (gen_obj_equiv F n Peq Pineq x0 conv_out mode eps hist 0). Qed.

(* the defaults written in the two signatures *)
Theorem gen_defaults :
  gen_calc_proj_physical__defaults F = [("max_iteration", VInt 1000); ("is_iteration_history", VBool false)] /\
  gen_calc_proj_physical_with_var__defaults F = [("on_para_eq_constraint", VBool true); ("max_iteration", VInt 1000); ("is_iteration_history", VBool false)].
Proof. split; reflexivity. Qed.
End Thm.
Print Assumptions gen_with_var_certified.
Print Assumptions gen_obj_certified.
Print Assumptions gen_zero_fuel_raises.
Print Assumptions gen_defaults.
