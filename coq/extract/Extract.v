(* Extraction of the executable interface. Only ExtrOcamlBasic is used: Z, positive, nat,
   Q/Qc and string/ascii stay Coq datatypes; no Extract Constant of our own. *)
From Coq Require Import ExtrOcamlBasic.
From QV.Exec Require Import Base AllOps.
Extraction "model.ml" run rat_make rat_num rat_den.
