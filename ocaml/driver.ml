(* Line protocol around the extracted models.
   request : <op> <nz> z_1 .. z_nz <nq> q_1 .. q_nq      (z decimal int, q = [-]hexnum/hexden)
   reply   : OK q_1 .. q_k   |   ERR <hex int>
   Z / positive are extracted to zarith big integers by the standard library's ExtrOcamlZBigInt
   (Big_int_Z.big_int = Z.t); number conversion is zarith's own parser/printer, no arithmetic is done here. *)

let z_of_hex (h : string) : Z.t =
  let neg = String.length h > 0 && h.[0] = '-' in
  let h' = if neg then String.sub h 1 (String.length h - 1) else h in
  let v = Z.of_string ("0x" ^ h') in
  if neg then Z.neg v else v

let hex_of_z (x : Z.t) : string = Z.format "%x" x

let q_of_string (s : string) =
  match String.index_opt s '/' with
  | None -> Model.rat_make (z_of_hex s) Z.one
  | Some i ->
    let n = String.sub s 0 i and d = String.sub s (i + 1) (String.length s - i - 1) in
    let dz = z_of_hex d in
    if Z.sign dz <= 0 then failwith "non-positive denominator" else Model.rat_make (z_of_hex n) dz

let string_of_q q = hex_of_z (Model.rat_num q) ^ "/" ^ hex_of_z (Model.rat_den q)

let coq_string_of (s : string) =
  let bit c k = (Char.code c lsr k) land 1 = 1 in
  let rec go i = if i >= String.length s then Model.EmptyString
    else let c = s.[i] in
      Model.String (Model.Ascii (bit c 0, bit c 1, bit c 2, bit c 3, bit c 4, bit c 5, bit c 6, bit c 7), go (i + 1)) in
  go 0

let rec take n l = if n = 0 then ([], l) else match l with
  | [] -> failwith "short request" | x :: t -> let (a, b) = take (n - 1) t in (x :: a, b)

let () =
  try
    while true do
      let line = input_line stdin in
      let toks = List.filter (fun s -> s <> "") (String.split_on_char ' ' line) in
      (match toks with
       | [] -> print_string "ERR -3e6\n"
       | op :: rest ->
         (try
            let (nz, rest) = match rest with x :: t -> (int_of_string x, t) | [] -> failwith "nz" in
            let (zs, rest) = take nz rest in
            let (nq, rest) = match rest with x :: t -> (int_of_string x, t) | [] -> failwith "nq" in
            let (qs, _) = take nq rest in
            let r = Model.run (coq_string_of op) (List.map Z.of_string zs) (List.map q_of_string qs) in
            (match r with
             | Model.Ok l -> print_string ("OK " ^ String.concat " " (List.map string_of_q l) ^ "\n")
             | Model.Err c -> print_string ("ERR " ^ hex_of_z c ^ "\n"))
          with Failure m -> print_string ("FAIL " ^ m ^ "\n")
             | Stack_overflow -> print_string "FAIL stack_overflow\n"));
      flush stdout
    done
  with End_of_file -> ()
