(* Line protocol around the extracted models.
   request : <op> <nz> z_1 .. z_nz <nq> q_1 .. q_nq      (z decimal int, q = [-]hexnum/hexden)
   reply   : OK q_1 .. q_k   |   ERR <int>
   Numbers are converted bit by bit to Coq's positive/Z; no arithmetic is done here. *)

let rec pos_of_bits (s : string) (i : int) (acc : Model.positive) : Model.positive =
  (* acc holds the bits read so far (msb first) *)
  if i >= String.length s then acc
  else pos_of_bits s (i + 1) (if s.[i] = '1' then Model.XI acc else Model.XO acc)

let bits_of_hex (h : string) : string =
  let b = Buffer.create (4 * String.length h) in
  String.iter (fun c ->
    let v = match c with
      | '0'..'9' -> Char.code c - 48 | 'a'..'f' -> Char.code c - 87
      | 'A'..'F' -> Char.code c - 55 | _ -> failwith "hex" in
    for k = 3 downto 0 do Buffer.add_char b (if (v lsr k) land 1 = 1 then '1' else '0') done) h;
  let s = Buffer.contents b in
  (* strip leading zeros *)
  let n = String.length s in
  let i = ref 0 in
  while !i < n && s.[!i] = '0' do incr i done;
  String.sub s !i (n - !i)

let pos_of_hex (h : string) : Model.positive option =
  let s = bits_of_hex h in
  if s = "" then None else Some (pos_of_bits s 1 Model.XH)

let z_of_hex (h : string) : Model.z =
  let neg = String.length h > 0 && h.[0] = '-' in
  let h' = if neg then String.sub h 1 (String.length h - 1) else h in
  match pos_of_hex h' with
  | None -> Model.Z0
  | Some p -> if neg then Model.Zneg p else Model.Zpos p

let z_of_dec (d : string) : Model.z =
  let n = int_of_string d in
  z_of_hex (if n < 0 then Printf.sprintf "-%x" (-n) else Printf.sprintf "%x" n)

let rec bits_of_pos (p : Model.positive) (acc : char list) : char list =
  match p with
  | Model.XH -> '1' :: acc
  | Model.XO q -> bits_of_pos q ('0' :: acc)
  | Model.XI q -> bits_of_pos q ('1' :: acc)

let hex_of_pos (p : Model.positive) : string =
  let bits = bits_of_pos p [] in
  let n = List.length bits in
  let pad = (4 - n mod 4) mod 4 in
  let arr = Array.of_list (List.init pad (fun _ -> '0') @ bits) in
  let m = Array.length arr / 4 in
  String.init m (fun i ->
    let v = ref 0 in
    for k = 0 to 3 do v := !v * 2 + (if arr.(4 * i + k) = '1' then 1 else 0) done;
    "0123456789abcdef".[!v])

let hex_of_z (x : Model.z) : string =
  match x with Model.Z0 -> "0" | Model.Zpos p -> hex_of_pos p | Model.Zneg p -> "-" ^ hex_of_pos p

let q_of_string (s : string) =
  match String.index_opt s '/' with
  | None -> Model.rat_make (z_of_hex s) Model.XH
  | Some i ->
    let n = String.sub s 0 i and d = String.sub s (i + 1) (String.length s - i - 1) in
    (match pos_of_hex d with None -> failwith "zero denominator" | Some p -> Model.rat_make (z_of_hex n) p)

let string_of_q q = hex_of_z (Model.rat_num q) ^ "/" ^ hex_of_pos (Model.rat_den q)

let coq_string_of (s : string) =
  let bit c k = (Char.code c lsr k) land 1 = 1 in
  let rec go i = if i >= String.length s then Model.EmptyString
    else let c = s.[i] in
      Model.String (Model.Ascii (bit c 0, bit c 1, bit c 2, bit c 3, bit c 4, bit c 5, bit c 6, bit c 7), go (i + 1)) in
  go 0

let rec take n l = if n = 0 then ([], l) else match l with
  | [] -> failwith "short request" | x :: t -> let (a, b) = take (n - 1) t in (x :: a, b)

let () =
  try
    while true do
      let line = input_line stdin in
      let toks = List.filter (fun s -> s <> "") (String.split_on_char ' ' line) in
      (match toks with
       | [] -> print_string "ERR -998\n"
       | op :: rest ->
         (try
            let (nz, rest) = match rest with x :: t -> (int_of_string x, t) | [] -> failwith "nz" in
            let (zs, rest) = take nz rest in
            let (nq, rest) = match rest with x :: t -> (int_of_string x, t) | [] -> failwith "nq" in
            let (qs, _) = take nq rest in
            let r = Model.run (coq_string_of op) (List.map z_of_dec zs) (List.map q_of_string qs) in
            (match r with
             | Model.Ok l -> print_string ("OK " ^ String.concat " " (List.map string_of_q l) ^ "\n")
             | Model.Err c -> print_string ("ERR " ^ hex_of_z c ^ "\n"))
          with Failure m -> print_string ("FAIL " ^ m ^ "\n")));
      flush stdout
    done
  with End_of_file -> ()
