#!/bin/bash
# tools/confirm_mut.sh <Cxx> <i> : confirm a seeded change in its scratch worktree (demo passes without it,
# fails with it, pinned test-suite still passes with it), then store it under /verif/seeded/<Cxx>-<i>/.
ID=$1; I=$2; WT=/tmp/mut/$ID/wt; OUT=/tmp/mut/$ID/${3:-out}; T=${4:-$I}   # optional: output dir name (out2 = second wave), target index under /verif/seeded
export PYTHONHASHSEED=0
git -C $WT checkout -q -- . || exit 2
( cd $OUT && PYTHONPATH=/tmp/mut/shim:$WT timeout 900 /venv/bin/python demo$I.py >/dev/null 2>&1 ); A=$?
git -C $WT apply $OUT/patch$I.diff || { echo "$ID-$I: patch does not apply"; exit 2; }
( cd $OUT && PYTHONPATH=/tmp/mut/shim:$WT timeout 900 /venv/bin/python demo$I.py >/dev/null 2>&1 ); B=$?
TS=$(cd $WT && PYTHONPATH=$WT timeout 1200 /venv/bin/python -m pytest -q -p no:cacheprovider --timeout=900 --continue-on-collection-errors 2>&1 | tail -1)
git -C $WT checkout -q -- .; git -C $WT clean -fdq
echo "$ID-$T: demo clean exit=$A, demo patched exit=$B, suite with patch: $TS"
if [ $A -eq 0 ] && [ $B -ne 0 ] && echo "$TS" | grep -q "113 passed"; then
  D=/verif/seeded/$ID-$T; mkdir -p $D; cp $OUT/patch$I.diff $D/patch.diff; cp $OUT/demo$I.py $D/demo.py
  python3 - "$OUT/meta$I.json" "$D/meta.json" "$ID" "$A" "$B" "$TS" <<'PY'
import json,sys
src,dst,pid,a,b,t=sys.argv[1:7]
try: m=json.load(open(src))
except Exception: m={}
m["property"]=pid
m["confirmed"]={"demo_exit_on_pinned_tree":int(a),"demo_exit_with_patch":int(b),"pinned_suite_with_patch":t,
  "how":"tools/confirm_mut.sh in a scratch git worktree of /repo (removed afterwards); demo run with PYTHONPATH=<shim>:<worktree>"}
json.dump(m,open(dst,"w"),indent=1)
PY
  echo "kept -> $D"
else echo "NOT kept"; fi
