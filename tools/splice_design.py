#!/usr/bin/env python3
"""Replace the per-property sections `### Cxx — …` of DESIGN.md §3 by the as-built texts docs/design/Cxx.md (where present)."""
import os, re
V = os.path.dirname(os.path.dirname(os.path.abspath(__file__)))
p = os.path.join(V, "DESIGN.md")
s = open(p).read()
a = s.index("## 3. Per property")
b = s.index("## 4. Defects already reproduced")
sec = s[a:b]
head_end = sec.index("### C01")
head, body = sec[:head_end], sec[head_end:]
parts = re.split(r"(?m)^(?=### C\d\d\b)", body)
out, n = [], 0
for part in parts:
    if not part.strip():
        continue
    m = re.match(r"### (C\d\d)", part)
    f = os.path.join(V, "docs", "design", m.group(1) + ".md") if m else None
    if f and os.path.exists(f):
        t = open(f).read().strip() + "\n\n"
        if not t.startswith("### " + m.group(1)):
            t = "### %s\n\n" % m.group(1) + t
        out.append(t); n += 1
    else:
        out.append(part)
tail = ""
if not out[-1].rstrip().endswith("-" * 20):
    tail = "---------------------------------------------------------------------------------\n\n"
head = re.sub(r"Notation:.*?outside\.\n", "Each section below describes what EXISTS (model, theorems, tie to the code, failure handling, defects found, measurements,\nlimits); sections not yet rewritten by their owner still show the round-0 plan.\n", head, flags=re.S)
s = s[:a] + head + "".join(out) + tail + s[b:]
open(p, "w").write(s)
print("spliced", n, "sections")
