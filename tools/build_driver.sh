#!/bin/bash
# Extract the executable models and build the OCaml driver.
#   tools/build_driver.sh            -> all Exec/*_ops.v  -> /verif/build/ocaml/driver
#   tools/build_driver.sh C03 C16    -> only those ops    -> /verif/build/ocaml-C03-C16/driver  (development)
# Extraction uses the standard library's ExtrOcamlBasic and ExtrOcamlZBigInt (Z/positive/N -> zarith big integers;
# directives listed in /usr/lib/ocaml/coq/theories/extraction/ExtrOcamlZBigInt.v); plus ONE Extract Constant of our own (Pos.ggcd -> zarith gcd, see below).
set -e
V="$(cd "$(dirname "$0")/.." && pwd)"
if [ $# -gt 0 ]; then MODS="$@"; OUT=$V/build/ocaml-$(echo "$@" | tr ' ' '-'); else
  MODS=$(ls $V/coq/theories/Exec/*_ops.v | sort | xargs -n1 basename | sed 's/_ops\.v$//'); OUT=$V/build/ocaml; fi
mkdir -p $OUT
exec 8>$OUT/.lock
flock 8
cd $OUT
if [ -x driver ] && [ -z "$(find $V/coq/theories/Exec $V/coq/theories/Model $V/coq/theories/Core $V/ocaml $V/tools/build_driver.sh -newer driver \( -name '*.vo' -o -name '*.ml' -o -name '*.sh' \) | head -1)" ] && [ "$(cat mods.txt 2>/dev/null)" = "$MODS" ]; then exit 0; fi
{ echo "From Coq Require Import ExtrOcamlBasic ExtrOcamlZBigInt List ZArith Qcanon."
  echo "From QV.Exec Require Import Base."
  for m in $MODS; do echo "From QV.Exec Require ${m}_ops."; done
  echo "Definition ops : optable := nil"; for m in $MODS; do echo "  ++ ${m}_ops.${m}_ops"; done; echo "."
  echo "Definition run (name : string) (zs : list Z) (qs : list Qc) : res := run_table ops name zs qs."
  # the ONE extraction directive of our own: Coq's binary gcd on big integers is quadratic and dominates
  # every Qc operation; it is replaced by zarith's gcd (same specification: (g, (a/g, b/g)), g = gcd a b).
  echo 'Extract Constant Pos.ggcd => "(fun a b -> let g = Z.gcd a b in (g, (Z.divexact a g, Z.divexact b g)))".'
  echo 'Extraction "model.ml" run rat_make rat_num rat_den.'; } > Extract.v
timeout 900 coqc -Q $V/coq/theories QV Extract.v >/dev/null
cp $V/ocaml/driver.ml .
timeout 900 ocamlfind ocamlopt -w -a -inline 100 -package zarith -linkpkg model.mli model.ml driver.ml -o driver
echo "$MODS" > mods.txt
