#!/bin/bash
# Extract the executable models and build the OCaml driver into /verif/build/ocaml/driver.
set -e
V=/verif
mkdir -p $V/build/ocaml
exec 8>$V/build/ocaml/.lock
flock 8
cd $V/build/ocaml
# rebuild only when an input is newer than the binary
if [ -x driver ] && [ -z "$(find $V/coq/theories $V/coq/extract $V/ocaml -newer driver \( -name '*.vo' -o -name '*.v' -o -name '*.ml' \) | head -1)" ]; then exit 0; fi
cp $V/coq/extract/Extract.v .
timeout 600 coqc -Q $V/coq/theories QV Extract.v >/dev/null
cp $V/ocaml/driver.ml .
timeout 600 ocamlfind ocamlopt -w -a -unboxed-types 2>/dev/null >/dev/null; timeout 600 ocamlfind ocamlopt -w -a -inline 100 model.mli model.ml driver.ml -o driver
