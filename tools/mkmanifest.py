#!/usr/bin/env python3
"""Compose /verif/MANIFEST.json from per-property fragments in harness/manifest/Cxx.json."""
import json, os, glob
V = '/verif'
props = [json.loads(l) for l in open(os.path.join(V, 'properties.jsonl'))]
checks, na = [], []
for p in props:
    pid = p['id']
    f = os.path.join(V, 'harness', 'manifest', pid + '.json')
    if os.path.exists(f):
        fr = json.load(open(f))
        if fr.get('not_applicable'):
            na.append({"property_id": pid, "reason": fr['not_applicable']}); continue
        checks.append({
            "property_id": pid,
            "quick_cmd": "./check %s --tier quick" % pid,
            "thorough_cmd": "./check %s --tier thorough" % pid,
            "evidence_file": "/verif/evidence/%s.json" % pid,
            "replay_cmd_template": "./check %s --replay {path}" % pid,
            "engine": "coq-proof+correspondence",
            "level_claimed": {"category": fr.get("category", "proof"), "text": fr["text"], "design_ref": fr.get("design_ref", "DESIGN.md §3 " + pid)},
            "level_note": fr["note"],
            "technique": fr.get("technique", "machine-checked proof in Coq 8.16 over a hand-written Gallina model + per-run correspondence (extracted model vs implementation)"),
        })
    else:
        na.append({"property_id": pid, "reason": "check not built yet in this round (planned in DESIGN.md §3 %s); no claim is made" % pid})
hooks_f = os.path.join(V, 'harness', 'manifest', 'hooks.json')
hooks = json.load(open(hooks_f))
m = {
    "version": 1,
    "setup_cmd": "tools/build_coq.sh && tools/build_driver.sh",
    "hooks": hooks,
    "engines": [{"name": "coq-proof+correspondence", "path": "/verif/check", "serves_properties": [c["property_id"] for c in checks],
                 "kind_free_text": "Coq 8.16.1 theorems over Gallina models (coq/theories), models extracted to OCaml (ocaml/driver.ml) and run against quara on generated inputs by harness/props/*.py"}],
    "checks": checks,
    "notes": "All checks rebuild stale Coq/OCaml artefacts, recompile Props/<id>.v for Print Assumptions, then run implementation (/venv/bin/python, /repo working tree, import shim) against the extracted model. See DESIGN.md.",
    "not_applicable": na,
}
json.dump(m, open(os.path.join(V, 'MANIFEST.json'), 'w'), indent=1)
print("claimed:", [c["property_id"] for c in checks]); print("not claimed:", [n["property_id"] for n in na])
