#!/usr/bin/env python3
"""validate MANIFEST.json and every evidence file against the schemas (run with python3-vt)"""
import json, sys, glob, jsonschema
ok = True
try:
    jsonschema.validate(json.load(open('/verif/MANIFEST.json')), json.load(open('/root/.vp/MANIFEST.schema.json')))
    print("MANIFEST ok")
except Exception as e:
    ok = False; print("MANIFEST INVALID:", str(e)[:500])
sch = json.load(open('/root/.vp/EVIDENCE.schema.json'))
for p in sorted(glob.glob('/verif/evidence/*.json')):
    try:
        jsonschema.validate(json.load(open(p)), sch); print(p, "ok")
    except Exception as e:
        ok = False; print(p, "INVALID:", str(e)[:500])
sys.exit(0 if ok else 1)
