#!/usr/bin/env python3
"""Coordinator tool: apply reviewed repair proposals (/verif/fixes/<slug>.diff + .json) to /repo, one "fix:" commit each.
usage: tools/apply_fixes.py slug [slug ...]     (order = commit order)
For each slug: git apply --check, apply, run the pinned test-suite (must report 113 passed), commit with the message
from the .json, append a `fixed` entry to KNOWN_FINDINGS.jsonl.  Stops at the first failure (tree restored)."""
import json, subprocess, sys, os, re

REPO, V = "/repo", "/verif"
PINNED = "cd /repo && /venv/bin/python -m pytest -q -p no:cacheprovider --timeout=900 --continue-on-collection-errors 2>&1 | tail -1"


def sh(cmd, **kw):
    return subprocess.run(cmd, shell=True, capture_output=True, text=True, **kw)


def main():
    for slug in sys.argv[1:]:
        d = os.path.join(V, "fixes", slug + ".diff")
        meta = json.load(open(os.path.join(V, "fixes", slug + ".json")))
        msg = meta["message"].strip()
        assert msg.startswith("fix:"), msg
        if sh("git -C %s status --porcelain --untracked-files=no" % REPO).stdout.strip():
            print("repo not clean"); sys.exit(2)
        r = sh("git -C %s apply --check %s" % (REPO, d))
        if r.returncode != 0:
            print("%s: does not apply: %s" % (slug, r.stderr[-300:])); sys.exit(1)
        sh("git -C %s apply %s" % (REPO, d))
        t = sh(PINNED).stdout.strip()
        if "113 passed" not in t:
            print("%s: pinned suite: %s -> reverted" % (slug, t))
            sh("git -C %s checkout -- ." % REPO); sys.exit(1)
        files = sh("git -C %s diff --name-only" % REPO).stdout.split()
        body = "%s\n\nproperty: %s\nsite: %s\nwhat failed: %s\n" % (msg, ",".join(meta.get("properties", [meta.get("owner", "")])), meta.get("site", ""), meta.get("what", ""))
        sh("git -C %s add %s" % (REPO, " ".join(files)))
        r = subprocess.run(["git", "-C", REPO, "commit", "-q", "-m", body], capture_output=True, text=True)
        if r.returncode != 0:
            print("commit failed", r.stderr); sys.exit(1)
        sha = sh("git -C %s rev-parse --short HEAD" % REPO).stdout.strip()
        what = re.sub(r"\s+", " ", meta.get("what", ""))[:400]
        with open(os.path.join(V, "KNOWN_FINDINGS.jsonl"), "a") as f:
            for p in meta.get("properties", [meta.get("owner")]):
                f.write("# fixed: property=%s %s %s\n" % (p, sha, what))
                f.write(json.dumps({"status": "fixed", "property": p, "site": meta.get("site"), "signature": meta.get("signature"),
                                    "what": what, "commit": sha, "fix": "fixes/%s.diff" % slug}) + "\n")
        print("%s: committed %s (%s) [%s]" % (slug, sha, t, ", ".join(files)))


if __name__ == "__main__":
    main()
