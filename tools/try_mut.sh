#!/bin/bash
# tools/try_mut.sh <Cxx> <patch.diff> [check ids...]  — apply a seeded change to the scratch worktree /tmp/mut/<Cxx>/wt,
# run the given checks (default: that property's) against it via VERIF_REPO, then restore the worktree.
ID=$1; PATCH=$2; shift 2; CHECKS=${@:-$ID}
WT=/tmp/mut/$ID/wt
git -C $WT checkout -q -- . && git -C $WT apply $PATCH || { echo "patch does not apply"; exit 2; }
for c in $CHECKS; do D=${VERIF_DEV_OVERRIDE:-$c}; [ "$D" = none ] && D=""; VERIF_REPO=$WT VERIF_DEV=$D /verif/check $c 2>&1 | grep -v "conda\|SyntaxWarning\|^  \"\"\"" | tail -${TAILN:-6}; done
git -C $WT checkout -q -- .
