#!/bin/bash
# development helper: tools/goal_at.sh theories/Proofs/Foo.v <line> ["extra tactics"]  -> prints the goal before <line>
cd /verif/coq
f=$1; n=$2; d=/tmp/dbg_$$; mkdir -p $d
{ head -$((n-1)) $f; echo "$3 Show."; } > $d/Dbg.v
timeout ${COQC_TIMEOUT:-600} coqc -Q theories QV -w -notation-overridden,-deprecated-hint-without-locality,-deprecated-instance-without-locality,-ambiguous-paths $d/Dbg.v 2>&1 | grep -v conda | head -${4:-60}
rm -rf $d
