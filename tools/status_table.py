#!/usr/bin/env python3
"""Print the per-property status table of DESIGN.md §0.3 from the files on disk (Props theorem counts, regenerated-model
obligations in coq/gen, translators, latest evidence)."""
import glob, json, os, re

V = os.path.dirname(os.path.dirname(os.path.abspath(__file__)))


def thms(path):
    t = re.sub(r"\(\*.*?\*\)", " ", open(path).read(), flags=re.S)
    return len(re.findall(r"^\s*Theorem\s", t, flags=re.M))


rows = []
for i in range(1, 21):
    pid = "C%02d" % i
    props = thms(os.path.join(V, "coq/theories/Props/%s.v" % pid))
    gen = sum(thms(p) for p in glob.glob(os.path.join(V, "coq/gen/%s_*.v" % pid)))
    trans = sorted(os.path.basename(p) for p in glob.glob(os.path.join(V, "gen/%s_py2coq.py" % pid.lower())))
    if pid in ("C03", "C07", "C14", "C16"):
        trans = ["py2coq.py"] + trans
    ev = {}
    try:
        ev = json.load(open(os.path.join(V, "evidence/%s.json" % pid)))
    except Exception:
        pass
    cov = ev.get("coverage", {})
    rows.append((pid, props, gen, ", ".join(trans) or "-", cov.get("obligations"), cov.get("discharged"), cov.get("evaluations"),
                 cov.get("distinct_nontrivial"), ev.get("tier"), ev.get("wall_s")))
print("| id | Props theorems | regenerated-model theorems (coq/gen) | translator(s) | obligations discharged (last run) | evaluations / distinct non-trivial | tier, wall |")
print("|---|---|---|---|---|---|---|")
for r in rows:
    print("| %s | %d | %d | %s | %s/%s | %s / %s | %s, %s s |" % (r[0], r[1], r[2], r[3], r[5], r[4], r[6], r[7], r[8], r[9]))
print("\ntotal Props theorems: %d, regenerated-model theorems: %d" % (sum(r[1] for r in rows), sum(r[2] for r in rows)))
