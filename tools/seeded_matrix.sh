#!/bin/bash
# tools/seeded_matrix.sh [jobs] [ids...] — run every confirmed seeded change /verif/seeded/<Cxx>-<i>/patch.diff against the check of
# its own property (full driver, scratch worktree /tmp/mut/<Cxx>/wt at /repo's HEAD, never /repo itself) and write
# /verif/seeded/RESULTS.json + RESULTS.md.  Properties run in parallel, the changes of one property sequentially.
cd /verif
JOBS=${1:-5}; shift
IDS=${@:-$(ls seeded | grep -o '^C[0-9]*' | sort -u)}
mkdir -p build/seeded
HEAD=$(git -C /repo rev-parse HEAD)
one() {
  id=$1; wt=/tmp/mut/$id/wt
  [ -d $wt ] || git -C /repo worktree add --detach $wt HEAD >/dev/null 2>&1
  git -C $wt checkout -q -- . ; git -C $wt checkout -q --detach $HEAD
  for d in /verif/seeded/$id-${SUFFIX:-*}; do
    n=$(basename $d)
    VERIF_DEV_OVERRIDE=none TAILN=400 /verif/tools/try_mut.sh $id $d/patch.diff > /verif/build/seeded/$n.log 2>&1
  done
}
export -f one; export HEAD
echo $IDS | tr ' ' '\n' | xargs -P $JOBS -I{} bash -c 'one {}'
python3 - <<'EOF'
import glob, json, os, re
res = {}
for d in sorted(glob.glob('/verif/seeded/C*-*')):
    n = os.path.basename(d)
    logp = '/verif/build/seeded/%s.log' % n
    if not os.path.exists(logp):
        continue
    log = open(logp).read()
    viol = re.findall(r'^VIOLATION property=(\S+) replay=(\S+)(.*)$', log, flags=re.M)
    details = re.findall(r'^  detail: ([^|]*)\|([^|]*)\|([^|]*)\|', log, flags=re.M)
    sigs = sorted({(a.strip(), b.strip(), c.strip()) for a, b, c in details})
    noise = [s for s in sigs if s[1] in ('ocaml-driver', 'coq-build')]
    real = [s for s in sigs if s not in noise]
    meta = json.load(open(os.path.join(d, 'meta.json')))
    res[n] = {"property": n.split('-')[0], "site": meta.get("site"), "needs_to_manifest": meta.get("needs_to_manifest"),
              "caught": bool(real), "violations": len(viol), "signatures": [" | ".join(s) for s in real][:6],
              "noise_only": bool(noise and not real)}
json.dump(res, open('/verif/seeded/RESULTS.json', 'w'), indent=1)
with open('/verif/seeded/RESULTS.md', 'w') as f:
    f.write("# Seeded changes vs checks (each change applied to a scratch worktree of /repo HEAD, own property's quick check)\n\n")
    f.write("| change | site | caught | first signatures |\n|---|---|---|---|\n")
    for n, r in res.items():
        f.write("| %s | %s | %s | %s |\n" % (n, r["site"], "yes" if r["caught"] else "**no**", "; ".join(r["signatures"][:2])[:300]))
    c = sum(1 for r in res.values() if r["caught"])
    f.write("\ncaught %d of %d\n" % (c, len(res)))
print("caught", sum(1 for r in res.values() if r["caught"]), "of", len(res))
print("missed:", [n for n, r in res.items() if not r["caught"]])
EOF
