#!/usr/bin/env python3
"""Regenerate the AUTO sections of DESIGN.md (status table, fix table, seeded table) from the files on disk."""
import json, os, re, subprocess, sys
V = os.path.dirname(os.path.dirname(os.path.abspath(__file__)))
p = os.path.join(V, "DESIGN.md")
s = open(p).read()


def put(tag, text):
    global s
    a, b = "<!-- AUTO:%s -->" % tag, "<!-- /AUTO:%s -->" % tag
    i, j = s.index(a) + len(a), s.index(b)
    s = s[:i] + "\n" + text.strip("\n") + "\n" + s[j:]


put("status", subprocess.run([sys.executable, os.path.join(V, "tools", "status_table.py")], capture_output=True, text=True).stdout)
rows, seen = [], {}
for l in open(os.path.join(V, "KNOWN_FINDINGS.jsonl")):
    l = l.strip()
    if not l or l.startswith("#"):
        continue
    d = json.loads(l)
    if d["status"] != "fixed":
        continue
    if d["commit"] in seen:
        if d["property"] not in seen[d["commit"]][1]:
            seen[d["commit"]][1].append(d["property"])
        continue
    msg = subprocess.run(["git", "-C", "/repo", "log", "-1", "--format=%s", d["commit"]], capture_output=True, text=True).stdout.strip()
    seen[d["commit"]] = [d["commit"], [d["property"]], d["site"], msg]
    rows.append(seen[d["commit"]])
t = ["%d repairs (one `fix:` commit each, in commit order):\n" % len(rows), "| commit | property | site | what the fix does |", "|---|---|---|---|"]
for c, ps, site, msg in rows:
    t.append("| %s | %s | `%s` | %s |" % (c, ",".join(ps), site, msg[5:].strip()[:170]))
put("fixes", "\n".join(t))
rp = os.path.join(V, "seeded", "RESULTS.json")
if os.path.exists(rp):
    r = json.load(open(rp))
    by = {}
    for n, v in r.items():
        by.setdefault(v["property"], []).append((n, v))
    t = ["| property | changes | caught | missed (site) |", "|---|---|---|---|"]
    for pid in sorted(by):
        xs = sorted(by[pid])
        miss = ["%s (%s)" % (n, (v.get("site") or "").split(":")[-1][:60]) for n, v in xs if not v["caught"]]
        t.append("| %s | %d | %d | %s |" % (pid, len(xs), sum(1 for _, v in xs if v["caught"]), "; ".join(miss) or "-"))
    t.append("\ncaught %d of %d" % (sum(1 for v in r.values() if v["caught"]), len(r)))
    put("seeded", "\n".join(t))
open(p, "w").write(s)
print("DESIGN.md updated")
