#!/bin/bash
# Full (or incremental) build of the static Coq development under /verif/coq/theories.
# _CoqProject and Makefile are regenerated from the file tree (never committed).
set -e
cd "$(dirname "$0")/../coq"
exec 9>.build.lock
flock 9
{ echo "-Q theories QV"; echo "-arg -w -arg -notation-overridden,-deprecated-hint-without-locality,-deprecated-instance-without-locality,-ambiguous-paths"; find theories -name '*.v' | sort; } > _CoqProject.new
if ! cmp -s _CoqProject.new _CoqProject 2>/dev/null; then mv _CoqProject.new _CoqProject; coq_makefile -f _CoqProject -o Makefile >/dev/null; else rm _CoqProject.new; fi
timeout ${COQ_BUILD_TIMEOUT:-3000} make -j${COQ_JOBS:-16} "$@"
