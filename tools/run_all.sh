#!/bin/bash
# run every claimed check (quick by default) and summarise; usage: tools/run_all.sh [quick|thorough] [jobs]
cd /verif
TIER=${1:-quick}; JOBS=${2:-4}
mkdir -p build/runall
IDS=$(python3 -c "import json;print(' '.join(c['property_id'] for c in json.load(open('MANIFEST.json'))['checks']))")
tools/build_coq.sh >/dev/null 2>&1; tools/build_driver.sh >/dev/null 2>&1
echo $IDS | tr ' ' '\n' | xargs -P $JOBS -I{} bash -c "( /usr/bin/time -f '%e s' ./check {} --tier $TIER > build/runall/{}.log 2>&1; echo \"{} exit=\$? \$(tail -1 build/runall/{}.log)\" )"
grep -l "^VIOLATION" build/runall/*.log 2>/dev/null | sed 's/^/VIOLATIONS in /'
