"""Talk to the extracted Coq models (OCaml driver) and, for cross-checks, to coqc/vm_compute."""
import subprocess, os, re
from fractions import Fraction

V = os.path.dirname(os.path.dirname(os.path.dirname(os.path.abspath(__file__))))
DRIVER = os.path.join(V, "build", "ocaml", "driver")


def enc_q(x):
    """exact rational -> protocol token. floats are converted exactly (dyadic)."""
    if isinstance(x, float):
        x = Fraction(*x.as_integer_ratio())
    elif isinstance(x, int):
        return ("-%x" % -x if x < 0 else "%x" % x) + "/1"
    elif not isinstance(x, Fraction):
        x = Fraction(x)
    n, d = x.numerator, x.denominator
    return ("-%x" % -n if n < 0 else "%x" % n) + "/%x" % d


def dec_q(tok):
    n, d = tok.split("/")
    return Fraction(int(n, 16), int(d, 16))


class ModelError(Exception):
    def __init__(self, code):
        super().__init__("model error %s" % code)
        self.code = code


class Model:
    """One driver process; call(op, ints, rationals) -> list[Fraction] or raises ModelError(code)."""

    def __init__(self):
        if not os.path.exists(DRIVER):
            raise RuntimeError("model driver not built: " + DRIVER)
        self.p = subprocess.Popen([DRIVER], stdin=subprocess.PIPE, stdout=subprocess.PIPE, text=True, bufsize=1)
        self.calls = 0
        self.reservoir = []          # sampled (line, reply) pairs for the vm_compute cross-check of the extraction
        self._rs = __import__("random").Random(12345)

    def call(self, op, zs=(), qs=()):
        zs = list(zs); qs = list(qs)
        line = "%s %d %s %d %s\n" % (op, len(zs), " ".join(str(int(z)) for z in zs), len(qs), " ".join(enc_q(q) for q in qs))
        self.p.stdin.write(line)
        self.p.stdin.flush()
        out = self.p.stdout.readline()
        self.calls += 1
        if len(line) < 1500 and len(out) < 1500 and out.split()[0] in ("OK", "ERR"):
            if len(self.reservoir) < 40:
                self.reservoir.append((op, zs, [enc_q(q) for q in qs], out.strip()))
            else:
                k = self._rs.randrange(self.calls)
                if k < 40:
                    self.reservoir[k] = (op, zs, [enc_q(q) for q in qs], out.strip())
        if not out:
            raise RuntimeError("model driver died on: " + line[:200])
        t = out.split()
        if t[0] == "OK":
            return [dec_q(x) for x in t[1:]]
        if t[0] == "ERR":
            raise ModelError(int(t[1], 16))
        raise RuntimeError("driver failure %r on %s" % (out, line[:200]))

    def try_call(self, op, zs=(), qs=()):
        """returns ('ok', values) or ('err', code)"""
        try:
            return ("ok", self.call(op, zs, qs))
        except ModelError as e:
            return ("err", e.code)

    def close(self):
        try:
            self.p.stdin.close(); self.p.wait(timeout=5)
        except Exception:
            self.p.kill()


def fl(x):
    return float(x)


def cflat(arr):
    """complex numpy array -> interleaved list of python floats (re, im), row-major"""
    import numpy as np
    a = np.asarray(arr, dtype=complex).ravel()
    out = []
    for z in a:
        out.append(float(z.real)); out.append(float(z.imag))
    return out


def rflat(arr):
    import numpy as np
    return [float(x) for x in np.asarray(arr, dtype=float).ravel()]


def to_c(vals):
    """list of Fractions interleaved -> list of complex"""
    return [complex(float(vals[2 * i]), float(vals[2 * i + 1])) for i in range(len(vals) // 2)]


def coq_q(tok):
    n, d = tok.split("/")
    return "(rat_make (%d)%%Z %d%%positive)" % (int(n, 16), int(d, 16))


def crosscheck_vm(model, mods, scratch, limit=12):
    """re-evaluate sampled driver requests inside Coq with vm_compute (no extraction involved).
    returns (checked, mismatches:list)"""
    import random
    samp = list(model.reservoir)
    random.Random(7).shuffle(samp)
    samp = samp[:limit]
    if not samp:
        return 0, []
    os.makedirs(scratch, exist_ok=True)
    lines = ["From Coq Require Import List ZArith QArith Qcanon.", "From QV.Exec Require Import Base.", "Import ListNotations."]
    for m in mods:
        lines.append("From QV.Exec Require %s_ops." % m)
    lines.append("Definition ops : optable := nil" + "".join(" ++ %s_ops.%s_ops" % (m, m) for m in mods) + ".")
    for i, (op, zs, qs, reply) in enumerate(samp):
        t = reply.split()
        if t[0] == "OK":
            exp = "Ok [%s]" % "; ".join(coq_q(x) for x in t[1:])
        else:
            exp = "Err (%d)%%Z" % int(t[1], 16)
        lines.append('Definition chk%d : bool := res_eqb (run_table ops "%s"%%string [%s] [%s]) (%s).' % (
            i, op, "; ".join("(%d)%%Z" % int(z) for z in zs), "; ".join(coq_q(x) for x in qs), exp))
        lines.append("Eval vm_compute in chk%d." % i)
    path = os.path.join(scratch, "XCheck.v")
    open(path, "w").write("\n".join(lines) + "\n")
    r = subprocess.run(["timeout", "600", "coqc", "-Q", os.path.join(V, "coq", "theories"), "QV", path], capture_output=True, text=True)
    outs = re.findall(r"=\s*(true|false)", r.stdout)
    bad = []
    if r.returncode != 0 or len(outs) != len(samp):
        bad.append({"error": (r.stdout + r.stderr)[-800:]})
    else:
        for (op, zs, qs, reply), o in zip(samp, outs):
            if o != "true":
                bad.append({"op": op, "zs": zs, "qs": qs, "driver_reply": reply})
    return len(samp), bad
