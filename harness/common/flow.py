"""Standard shape of a property check: theorems first, then correspondences."""
import runner


def standard_run(ctx, subchecks):
    """subchecks: list of (name, fn(ctx)). If a theorem no longer checks, the correspondences still run
    (they are the search for a failing input); if they find nothing the violation is reported with
    no-failing-input-found, naming the theorem."""
    ok, info = runner.check_props(ctx)
    for name, fn in subchecks:
        if ctx.only is None or name in ctx.only:
            fn(ctx)
    if not ok and not ctx.violations:
        ctx.violation("theorems", "Props/%s.v" % ctx.prop_id, "theorem-broken:%s" % info.get("theorem"),
                      "theorem %s no longer checks: %s" % (info.get("theorem"), info.get("error", "")[-400:]),
                      {"theorem": info.get("theorem"), "error": info.get("error")}, no_input=True)
    elif not ok:
        ctx.note("theorem obligations not discharged: %s" % info)


def standard_replay(ctx, doc, fns):
    """fns: {sub: fn(ctx, case)}"""
    runner.check_props(ctx)
    sub = doc["sub"]
    case = doc["case"]
    if isinstance(case, dict) and "traceback" in case and "case" in case:
        case = case["case"]
    if sub in fns:
        ctx.run_cases(sub, fns[sub], [case])
    else:
        ctx.note("no replay function for sub-check %s" % sub)


def close(a, b, tol=1e-9):
    return abs(a - b) <= tol * (1.0 + max(abs(a), abs(b)))


def allclose(xs, ys, tol=1e-9):
    if len(xs) != len(ys):
        return False
    return all(close(complex(a), complex(b), tol) for a, b in zip(xs, ys))


def maxdiff(xs, ys):
    if len(xs) != len(ys):
        return float("inf")
    return max([abs(complex(a) - complex(b)) for a, b in zip(xs, ys)] + [0.0])
