"""Standard shape of a property check: theorems first, then correspondences."""
import runner


def regen_check(ctx, group, equiv_name):
    """regenerate the Gallina model of `group` (gen/signatures.json) from /repo's CURRENT source with the
    translator, compile it, and re-check the equivalence / transported property theorems in coq/gen/<equiv_name>.v.
    returns (ok, info)"""
    import os, re, shutil, subprocess, sys
    V = runner.V
    scratch = os.path.join(ctx.scratch, "gen")
    os.makedirs(scratch, exist_ok=True)
    gen_v = os.path.join(scratch, "Gen_%s.v" % group)
    for ext in (".vo", ".vos", ".vok", ".glob"):
        try:
            os.remove(gen_v[:-2] + ext)
        except OSError:
            pass
    r = subprocess.run([sys.executable, os.path.join(V, "gen", "py2coq.py"), os.environ.get("VERIF_REPO", "/repo"), os.path.join(V, "gen", "signatures.json"), group, gen_v],
                       capture_output=True, text=True, timeout=120)
    src = open(os.path.join(V, "coq", "gen", equiv_name + ".v")).read()
    src_nc = re.sub(r"\(\*.*?\*\)", " ", src, flags=re.S)
    thms = re.findall(r"^\s*Theorem\s+([\w']+)", src_nc, flags=re.M)
    ctx.theorems = list(getattr(ctx, "theorems", [])) + thms
    ctx.regen_obligations = getattr(ctx, "regen_obligations", 0) + len(thms)
    if r.returncode != 0:
        return False, {"theorem": thms[0] if thms else None, "error": "translator rejected the source: " + (r.stdout + r.stderr)[-600:]}
    q = ["-Q", os.path.join(V, "coq", "theories"), "QV", "-Q", scratch, "QVGen"]
    r = subprocess.run(["timeout", "300", "coqc"] + q + [gen_v], capture_output=True, text=True)
    if r.returncode != 0:
        return False, {"theorem": thms[0] if thms else None, "error": "regenerated model does not compile: " + (r.stdout + r.stderr)[-600:]}
    dst = os.path.join(scratch, equiv_name + ".v")
    shutil.copy(os.path.join(V, "coq", "gen", equiv_name + ".v"), dst)
    r = subprocess.run(["timeout", "600", "coqc"] + q + [dst], capture_output=True, text=True)
    out = r.stdout + r.stderr
    if r.returncode != 0:
        m = re.search(r"line (\d+), characters", out)
        thm = None
        if m:
            upto = "\n".join(src.splitlines()[:int(m.group(1))])
            names = re.findall(r"^\s*(?:Theorem|Lemma)\s+([\w']+)", upto, flags=re.M)
            thm = names[-1] if names else None
        return False, {"theorem": thm, "error": out[-800:]}
    blocks = runner.parse_assumptions(out)
    bad = [a for closed, axs in blocks for a in axs if a not in runner.ALLOWED_AXIOMS and a.split(".")[-1] not in runner.ALLOWED_AXIOMS]
    if len(blocks) != len(thms) or bad:
        return False, {"theorem": thms[0] if thms else None, "error": "assumption gate on regenerated proofs: %d blocks / %d theorems, disallowed %s" % (len(blocks), len(thms), bad)}
    for t, (closed, axs) in zip(thms, blocks):
        ctx.axioms[t] = "closed" if closed else sorted(set(axs))
    ctx.regen_discharged = getattr(ctx, "regen_discharged", 0) + len(thms)
    return True, {}


def standard_run(ctx, subchecks, regens=()):
    """subchecks: list of (name, fn(ctx)). If a theorem no longer checks, the correspondences still run
    (they are the search for a failing input); if they find nothing the violation is reported with
    no-failing-input-found, naming the theorem."""
    ok, info = runner.check_props(ctx)
    for group, equiv in regens:
        thms_before = list(ctx.theorems)
        ok2, info2 = regen_check(ctx, group, equiv)
        ctx.theorems = thms_before + [t for t in ctx.theorems if t not in thms_before]
        if not ok2:
            ok, info = False, info2
            ctx.note("regenerated-model obligations (%s) not discharged: %s" % (group, str(info2)[:300]))
    ctx.obligations += getattr(ctx, "regen_obligations", 0)
    ctx.discharged += getattr(ctx, "regen_discharged", 0)
    if not ok:
        ctx.discharged = min(ctx.discharged, ctx.obligations - 1)
    for name, fn in subchecks:
        if ctx.only is None or name in ctx.only:
            fn(ctx)
    if not ok and not ctx.violations:
        ctx.violation("theorems", "Props/%s.v" % ctx.prop_id, "theorem-broken:%s" % info.get("theorem"),
                      "theorem %s no longer checks: %s" % (info.get("theorem"), info.get("error", "")[-400:]),
                      {"theorem": info.get("theorem"), "error": info.get("error")}, no_input=True)
    elif not ok:
        ctx.note("theorem obligations not discharged: %s" % info)


def standard_replay(ctx, doc, fns):
    """fns: {sub: fn(ctx, case)}"""
    runner.check_props(ctx)
    sub = doc["sub"]
    case = doc["case"]
    if isinstance(case, dict) and "traceback" in case and "case" in case:
        case = case["case"]
    if sub in fns:
        ctx.run_cases(sub, fns[sub], [case])
    else:
        ctx.note("no replay function for sub-check %s" % sub)


def close(a, b, tol=1e-9):
    return abs(a - b) <= tol * (1.0 + max(abs(a), abs(b)))


def allclose(xs, ys, tol=1e-9):
    if len(xs) != len(ys):
        return False
    return all(close(complex(a), complex(b), tol) for a, b in zip(xs, ys))


def maxdiff(xs, ys):
    if len(xs) != len(ys):
        return float("inf")
    return max([abs(complex(a) - complex(b)) for a, b in zip(xs, ys)] + [0.0])
