"""Shared exact checks on implementation outputs (through the extracted Coq decision procedures)."""
import numpy as np
from common.model import cflat


def herm_part(H):
    H = np.asarray(H, dtype=complex)
    return (H + H.conj().T) / 2


def herm_psd(ctx, H, shift=0.0):
    """exact decision: is (Hermitian part of H) + shift*I positive semidefinite?  (Coq psd_dec on the real embedding).
    The float matrix is symmetrised in floating point first and made EXACTLY Hermitian entry by entry."""
    H = np.array(herm_part(H))
    n = H.shape[0]
    for i in range(n):
        H[i, i] = H[i, i].real
        for j in range(i + 1, n):
            H[j, i] = np.conj(H[i, j])
    v = ctx.get_model().call("core.psd_herm", [n], [float(shift)] + cflat(H))
    return bool(int(v[0]))


def antiherm_norm(H):
    H = np.asarray(H, dtype=complex)
    return float(np.abs(H - H.conj().T).max()) if H.size else 0.0
