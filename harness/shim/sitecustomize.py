import numpy as _np, scipy.linalg as _sl
if not hasattr(_sl, 'kron'):
    _sl.kron = _np.kron
