"""/verif/check entry point: builds what is stale, re-checks the property's theorems, runs the
property's correspondence / certificate checks against /repo's working tree, writes evidence."""
import sys, os, json, time, random, argparse, subprocess, re, hashlib, importlib, traceback, glob

V = os.path.dirname(os.path.dirname(os.path.abspath(__file__)))
sys.path.insert(0, os.path.join(V, "harness"))
from common import model as modelmod

COQ = os.path.join(V, "coq")
ALLOWED_AXIOMS = {
    # standard-library axioms only (see DESIGN 2.9); nothing declared by this development
    "ClassicalDedekindReals.sig_forall_dec", "ClassicalDedekindReals.sig_not_dec",
    "Classical_Prop.classic", "FunctionalExtensionality.functional_extensionality_dep",
    "functional_extensionality_dep", "classic", "sig_forall_dec", "sig_not_dec",
    "Eqdep.Eq_rect_eq.eq_rect_eq", "ProofIrrelevance.proof_irrelevance", "JMeq.JMeq_eq",
    "PropExtensionality.propositional_extensionality", "ClassicalEpsilon.constructive_indefinite_description",
    "Description.constructive_definite_description", "constructive_indefinite_description",
    "constructive_definite_description", "Epsilon.epsilon_statement", "Raxioms.completeness",
}
FORBIDDEN = re.compile(r"\b(Admitted|admit|Axiom|Axioms|Parameter|Parameters|Conjecture|Conjectures|Unset\s+Guard|bypass_check|type-in-type|impredicative-set|Admit\s+Obligations)\b")
TRUSTED_BASE = [
    "Coq 8.16.1 kernel (coqc); vm_compute used in finite-table proofs; no native_compute",
    "Print Assumptions output of every theorem in Props/<id>.v must be 'Closed under the global context' or a subset of the stdlib axioms named in DESIGN 2.9",
    "extraction with the stdlib modules ExtrOcamlBasic and ExtrOcamlZBigInt (Z/positive/N -> zarith 1.12 big integers) plus ONE Extract Constant of our own (Pos.ggcd -> zarith gcd; tools/build_driver.sh), OCaml 4.13 ocamlopt, /verif/ocaml/driver.ml line protocol; every run re-evaluates a sample of its own driver requests inside Coq with vm_compute and compares (extraction_crosscheck in coverage)",
    "translators (where the property's check regenerates models from /repo): gen/py2coq.py + gen/signatures.json and the per-property gen/cXX_py2coq.py with the Python/numpy semantics they target (Model/CXX_PySem.v, C07_PySym.v, C08_NpSem.v) - fail-closed, their typing/abstraction tables are trusted; everything not translated is MODELLED by hand and tied by running model and implementation on the same inputs each run",
    "thorough tier: coqchk -o over Props/<id> (independent re-check; axioms of the whole dependency cone recorded in coverage.coqchk)",
    "harness: case generators, exact float->rational conversion, comparators and tolerances in /verif/harness",
    "quara is MODELLED (hand-written Gallina, tied by running model and implementation on the same inputs each run); NumPy/SciPy/LAPACK are oracles",
    "import shim harness/shim/sitecustomize.py (scipy.linalg.kron := numpy.kron when missing)",
]


def sh(cmd, timeout=3000, **kw):
    return subprocess.run(cmd, shell=isinstance(cmd, str), capture_output=True, text=True, timeout=timeout, **kw)


class Violation(Exception):
    pass


class Ctx:
    def __init__(self, prop_id, tier, seed):
        self.prop_id, self.tier, self.seed = prop_id, tier, seed
        self.rng = random.Random(seed)
        self.t0 = time.time()
        self.evaluations = 0
        self.nontrivial_keys = set()
        self.samples = []
        self.dist = {}
        self.violations = []      # (sub, site, signature, what, replay_path, no_input)
        self.known_hits = []
        self.notes = []
        self.sub_counts = {}
        self.obligations = 0
        self.discharged = 0
        self.axioms = {}
        self.theorems = []
        self.model = None
        self.known = []
        kf = os.path.join(V, "KNOWN_FINDINGS.jsonl")
        if os.path.exists(kf):
            for line in open(kf):
                line = line.strip()
                if line and not line.startswith("#"):
                    self.known.append(json.loads(line))
        # per-process scratch: two runs of the same check must never share generated .v files
        self.scratch = os.path.join(V, "build", prop_id, "run-%d" % os.getpid())
        os.makedirs(self.scratch, exist_ok=True)
        # registered runs (against /repo) write /verif/replays and /verif/evidence; a run pointed at a scratch worktree
        # (VERIF_REPO, seeded-change testing) writes under build/ so that it never replaces the evidence of record
        self.scratch_run = os.path.realpath(os.environ.get("VERIF_REPO", "/repo")) != "/repo"
        self.replay_dir = os.path.join(V, "build", prop_id, "replays-scratch") if self.scratch_run else os.path.join(V, "replays", prop_id)
        os.makedirs(self.replay_dir, exist_ok=True)
        self.max_violations_per_site = 3
        self._site_counts = {}

    quick = property(lambda self: self.tier == "quick")

    def n(self, quick, thorough):
        return quick if self.tier == "quick" else thorough

    def get_model(self):
        if self.model is None:
            self.model = modelmod.Model()
        return self.model

    # ---- bookkeeping
    def count(self, sub, key=None, nontrivial=True, label=None):
        """one evaluated case; key identifies distinct cases; label feeds the distribution table"""
        self.evaluations += 1
        self.sub_counts[sub] = self.sub_counts.get(sub, 0) + 1
        if nontrivial:
            if key is None:
                key = (sub, self.evaluations)
            self.nontrivial_keys.add(hashlib.sha1(repr((sub, key)).encode()).hexdigest()[:16])
        if label is not None:
            k = "%s:%s" % (sub, label)
            self.dist[k] = self.dist.get(k, 0) + 1

    def sample(self, sub, case, every=1, limit=3):
        cnt = sum(1 for s in self.samples if s.get("sub") == sub)
        if cnt < limit:
            self.samples.append({"sub": sub, "case": _short(case)})

    def note(self, s):
        self.notes.append(s)

    # ---- violations
    def violation(self, sub, site, signature, what, replay, no_input=False):
        """report a property violation. replay: JSON-serialisable dict describing the failing case."""
        for k in self.known:
            if k.get("status") == "open" and k.get("property") == self.prop_id and k.get("site") == site and k.get("signature") == signature:
                if (site, signature) not in [(a, b) for a, b, _ in self.known_hits]:
                    self.known_hits.append((site, signature, k.get("what", what)))
                return
        c = self._site_counts.get((site, signature), 0)
        self._site_counts[(site, signature)] = c + 1
        if c >= self.max_violations_per_site:
            return
        idx = len(self.violations)
        path = os.path.join(self.replay_dir, "%s-%s-%d.json" % (self.prop_id, re.sub(r"[^A-Za-z0-9_.-]", "_", sub), idx))
        doc = {"property": self.prop_id, "sub": sub, "site": site, "signature": signature, "what": what,
               "tier": self.tier, "seed": self.seed, "no_failing_input_found": bool(no_input), "case": replay,
               "replay_cmd": "./check %s --replay %s" % (self.prop_id, path)}
        with open(path, "w") as f:
            json.dump(doc, f, indent=1, default=_jd)
        self.violations.append((sub, site, signature, what, path, no_input))

    # ---- run a list of cases through a sub-check
    def run_cases(self, sub, fn, cases):
        for case in cases:
            try:
                fn(self, case)
            except modelmod.ModelError as e:
                self.violation(sub, sub, "model-error", "model returned error %s where the check expected a value" % e.code, case)
            except (AssertionError, RuntimeError):
                raise
            except Exception as e:  # unexpected exception from the implementation under test
                self.violation(sub, sub, "exception:" + type(e).__name__,
                               "unexpected %s: %s" % (type(e).__name__, str(e)[:300]),
                               {"case": case, "traceback": traceback.format_exc()[-1500:]})


def _jd(o):
    from fractions import Fraction
    try:
        import numpy as np
        if isinstance(o, np.ndarray):
            if np.iscomplexobj(o):
                return {"re": o.real.tolist(), "im": o.imag.tolist()}
            return o.tolist()
        if isinstance(o, (np.integer,)):
            return int(o)
        if isinstance(o, (np.floating,)):
            return float(o)
        if isinstance(o, (np.complexfloating, complex)):
            return [float(o.real), float(o.imag)]
        if isinstance(o, np.bool_):
            return bool(o)
    except ImportError:
        pass
    if isinstance(o, Fraction):
        return "%d/%d" % (o.numerator, o.denominator)
    if isinstance(o, complex):
        return [o.real, o.imag]
    if isinstance(o, (set, tuple)):
        return list(o)
    return repr(o)


def _short(case):
    s = json.dumps(case, default=_jd)
    if len(s) > 600:
        return s[:600] + "...(truncated)"
    return json.loads(s)


# ---------------------------------------------------------------------------- Coq side
def build_static():
    dev = os.environ.get("VERIF_DEV")
    if dev:
        # development mode: only the named ops modules are extracted; the caller compiles its own .v files
        r = sh([os.path.join(V, "tools", "build_driver.sh")] + dev.split(","), timeout=1300)
        if r.returncode != 0:
            return False, (r.stdout + r.stderr)[-3000:]
        modelmod.DRIVER = os.path.join(V, "build", "ocaml-" + "-".join(dev.split(",")), "driver")
        return True, ""
    r = sh([os.path.join(V, "tools", "build_coq.sh")], timeout=3400)
    if r.returncode != 0:
        return False, (r.stdout + r.stderr)[-3000:]
    r = sh([os.path.join(V, "tools", "build_driver.sh")], timeout=1300)
    if r.returncode != 0:
        return False, (r.stdout + r.stderr)[-3000:]
    return True, ""


def hygiene():
    bad = []
    for root in (os.path.join(COQ, "theories"), os.path.join(COQ, "gen")):
        for p in glob.glob(os.path.join(root, "**", "*.v"), recursive=True):
            txt = open(p).read()
            txt = re.sub(r"\(\*.*?\*\)", " ", txt, flags=re.S)
            for m in FORBIDDEN.finditer(txt):
                bad.append("%s: %s" % (os.path.relpath(p, V), m.group(0)))
    cp = os.path.join(COQ, "_CoqProject")
    if os.path.exists(cp) and re.search(r"type-in-type|impredicative-set|-vos|-vok", open(cp).read()):
        bad.append("_CoqProject flags")
    return bad


def parse_assumptions(out):
    """returns list of (closed: bool, axioms: [names]) per Print Assumptions block, in order"""
    blocks = []
    cur = None
    for line in out.splitlines():
        if line.startswith("Closed under the global context"):
            blocks.append((True, [])); cur = None
        elif line.startswith("Axioms:"):
            cur = []; blocks.append((False, cur))
        elif cur is not None:
            m = re.match(r"^([A-Za-z_][\w.']*)\s*:", line)
            if m:
                cur.append(m.group(1))
            elif line and not line.startswith(" "):
                cur = None
    return blocks


def check_props(ctx, extra_Q=(), props_file=None, workdir=None):
    """recompile Props/<id>.v into scratch, parse Print Assumptions. returns ok(bool), message"""
    pid = ctx.prop_id
    src = props_file or os.path.join(COQ, "theories", "Props", pid + ".v")
    scratch = workdir or ctx.scratch
    os.makedirs(scratch, exist_ok=True)
    txt = open(src).read()
    txt_nc = re.sub(r"\(\*.*?\*\)", " ", txt, flags=re.S)
    theorems = re.findall(r"^\s*Theorem\s+([\w']+)", txt_nc, flags=re.M)
    prints = [x.rstrip(".") for x in re.findall(r"^\s*Print\s+Assumptions\s+([\w'.]+)", txt_nc, flags=re.M)]
    ctx.theorems = theorems
    ctx.obligations = len(theorems)
    missing = [t for t in theorems if t not in prints]
    qargs = ["-Q", os.path.join(COQ, "theories"), "QV"]
    for d, n in extra_Q:
        qargs += ["-Q", d, n]
    dst = os.path.join(scratch, "Props_" + pid + ".v")
    open(dst, "w").write(txt)
    r = sh(["timeout", "900", "coqc"] + qargs + [dst], timeout=1000)
    out = r.stdout + r.stderr
    if r.returncode != 0:
        m = re.search(r'line (\d+), characters', out)
        thm = None
        if m:
            ln = int(m.group(1))
            upto = "\n".join(txt.splitlines()[:ln])
            names = re.findall(r"^\s*(?:Theorem|Example|Lemma)\s+([\w']+)", upto, flags=re.M)
            thm = names[-1] if names else None
        ctx.discharged = 0
        return False, {"theorem": thm, "error": out[-1500:]}
    blocks = parse_assumptions(out)
    bad_ax = []
    for (closed, axs), name in zip(blocks, prints):
        ctx.axioms[name] = "closed" if closed else sorted(set(axs))
        for a in axs:
            if a not in ALLOWED_AXIOMS and a.split(".")[-1] not in ALLOWED_AXIOMS:
                bad_ax.append((name, a))
    if len(blocks) != len(prints) or missing or bad_ax:
        ctx.discharged = 0
        return False, {"theorem": (bad_ax[0][0] if bad_ax else (missing[0] if missing else None)),
                       "error": "assumption gate: blocks=%d prints=%d missing=%s disallowed=%s" % (len(blocks), len(prints), missing, bad_ax)}
    ctx.discharged = len(theorems)
    return True, {}


def run_coqchk(ctx):
    """thorough tier: re-check Props/<id>.vo and everything it depends on with the independent checker coqchk and
    collect the axioms it reports (the whole dependency cone, stdlib included)."""
    r = sh(["timeout", "2400", "coqchk", "-silent", "-o", "-Q", os.path.join(COQ, "theories"), "QV", "QV.Props." + ctx.prop_id], timeout=2500)
    out = r.stdout + r.stderr
    axioms, grab = [], False
    for line in out.splitlines():
        t = line.strip()
        if t.startswith("* Axioms:"):
            grab = True
            rest = t[len("* Axioms:"):].strip()
            if rest and rest != "<none>":
                axioms.append(rest)
            continue
        if grab:
            if t.startswith("* "):
                grab = False
            elif t and t != "<none>":
                axioms.append(t.split()[0])
    bad = [a for a in axioms if a not in ALLOWED_AXIOMS and a.split(".")[-1] not in ALLOWED_AXIOMS]
    unsafe = [l.strip() for l in out.splitlines() if ("type-in-type" in l or "unsafe (co)fixpoints" in l or "positivity is assumed" in l) and "<none>" not in l]
    ctx.coqchk = {"exit": r.returncode, "axioms": axioms, "unsafe_flags": unsafe}
    if r.returncode != 0 or bad or unsafe:
        ctx.violation("coqchk", "coqchk", "coqchk-rejects", "coqchk exit %d, disallowed axioms %s, unsafe %s: %s" % (r.returncode, bad, unsafe, out[-400:]),
                      {"output": out[-3000:]}, no_input=True)


def write_evidence(ctx, level="proof", extra_assumptions=()):
    cov = {
        "obligations": ctx.obligations, "discharged": ctx.discharged,
        "checker_cmd": "tools/build_coq.sh && coqc -Q coq/theories QV coq/theories/Props/%s.v  (run by ./check %s)" % (ctx.prop_id, ctx.prop_id),
        "trusted_base": TRUSTED_BASE,
        "theorems": ctx.theorems, "assumptions_per_theorem": ctx.axioms,
        "evaluations": ctx.evaluations, "distinct_nontrivial": len(ctx.nontrivial_keys),
        "rule": getattr(ctx, "rule", "see DESIGN.md section for this property"),
        "samples": ctx.samples if ctx.samples else [{"note": "no correspondence cases in this run"}],
        "per_subcheck": ctx.sub_counts, "distribution": ctx.dist,
        "known_findings_hit": [{"site": a, "signature": b, "what": c} for a, b, c in ctx.known_hits],
        "notes": ctx.notes,
        "extraction_crosscheck": getattr(ctx, "extraction_crosscheck", None),
        "coqchk": getattr(ctx, "coqchk", "not run in this tier (thorough tier only)"),
    }
    ev = {"property_id": ctx.prop_id, "tier": ctx.tier, "seed": ctx.seed, "level": level, "coverage": cov,
          "assumptions": list(TRUSTED_BASE) + list(extra_assumptions) + list(getattr(ctx, "assumptions", [])),
          "wall_s": round(time.time() - ctx.t0, 2), "violations": len(ctx.violations)}
    evdir = os.path.join(V, "build", ctx.prop_id, "evidence-scratch") if getattr(ctx, "scratch_run", False) else os.path.join(V, "evidence")
    os.makedirs(evdir, exist_ok=True)
    with open(os.path.join(evdir, ctx.prop_id + ".json"), "w") as f:
        json.dump(ev, f, indent=1, default=_jd)


def main():
    ap = argparse.ArgumentParser()
    ap.add_argument("prop")
    ap.add_argument("--tier", default=os.environ.get("VERIF_TIER", "quick"))
    ap.add_argument("--replay", default=None)
    ap.add_argument("--only", default=None, help="comma-separated sub-check names (debugging)")
    a = ap.parse_args()
    tier = a.tier if a.tier in ("quick", "thorough") else "quick"
    seed = int(os.environ.get("VERIF_SEED", "20260926") or 0)
    ctx = Ctx(a.prop, tier, seed)
    ctx.only = set(a.only.split(",")) if a.only else None
    mod = importlib.import_module("props." + a.prop.lower())

    ok, msg = build_static()
    if not ok:
        # the framework itself does not build: proof obligations are not discharged
        ctx.violation("build", "coq-build", "build-failed", "static Coq development / driver failed to build: " + msg[-800:], {"log": msg}, no_input=True)
    else:
        bad = hygiene()
        if bad:
            ctx.violation("hygiene", "coq-hygiene", "forbidden-construct", "forbidden constructs: %s" % bad[:5], {"hits": bad}, no_input=True)
        if a.replay:
            doc = json.load(open(a.replay))
            mod.replay(ctx, doc)
        else:
            mod.run(ctx)

    if ok and tier == "thorough" and not a.replay and not os.environ.get("VERIF_DEV") and not os.environ.get("VERIF_NO_COQCHK"):
        run_coqchk(ctx)

    # cross-check the extracted driver against vm_compute on a sample of this run's own requests
    if ctx.model is not None and ok:
        dev = os.environ.get("VERIF_DEV")
        mods = dev.split(",") if dev else sorted(os.path.basename(p)[:-len("_ops.v")] for p in glob.glob(os.path.join(COQ, "theories", "Exec", "*_ops.v")))
        n, bad = modelmod.crosscheck_vm(ctx.model, mods, ctx.scratch, limit=ctx.n(10, 40))
        ctx.extraction_crosscheck = {"requests_recomputed_with_vm_compute": n, "mismatches": len(bad)}
        if bad:
            ctx.violation("extraction-crosscheck", "ocaml-driver", "extraction-mismatch", "extracted driver and vm_compute disagree: %s" % str(bad[0])[:300], {"mismatches": bad}, no_input=True)

    write_evidence(ctx, level=getattr(mod, "LEVEL", "proof"))
    for site, sig, what in ctx.known_hits:
        print("KNOWN-FINDING: property=%s %s [%s/%s]" % (ctx.prop_id, what, site, sig))
    for sub, site, sig, what, path, no_input in ctx.violations:
        print("  detail: %s | %s | %s | %s" % (sub, site, sig, what[:400]))
        print("VIOLATION property=%s replay=%s%s" % (ctx.prop_id, path, " no-failing-input-found" if no_input else ""))
    if ctx.model:
        ctx.model.close()
    import shutil
    shutil.rmtree(ctx.scratch, ignore_errors=True)
    print("%s tier=%s seed=%d evaluations=%d distinct_nontrivial=%d obligations=%d discharged=%d violations=%d known=%d wall=%.1fs" % (
        ctx.prop_id, tier, seed, ctx.evaluations, len(ctx.nontrivial_keys), ctx.obligations, ctx.discharged,
        len(ctx.violations), len(ctx.known_hits), time.time() - ctx.t0))
    sys.exit(1 if ctx.violations else 0)


if __name__ == "__main__":
    main()
