"""C19 — analytical error formulas equal exact expectations.

The model (coq/theories/Model/C19_ErrFormulas.v) is the model of the REPAIRED code: fixes calc-direct-sum-nonsquare-check,
calc-fisher-matrix-total-size, qmpt-mse-linear-analytical-qoperation (owner C19) and calc-prob-dists-mixed-outcome-counts,
calc-fisher-matrix-mixed-outcome-counts (owner C08).  On a tree without one of them the defect is reported again.

Translator tie (regen_model): gen/c19_py2coq.py regenerates the loop / index / guard / dispatch skeletons of the anchored functions from
the current source on every run; coq/gen/C19_Equiv.v proves them equal to the hand-written model (30 theorems, counted as obligations).

Sub-checks
  helpers      matrix_util / data_analysis helper functions vs the extracted model (+ error branches)
  expect       exact expectation by complete enumeration of outcome sequences (model functional) vs the
               implementation's covariance / MSE formulas on concrete rational distributions
  tomo         the four tomography classes, schedules with equal AND unequal outcome counts: prob dists, covariances,
               linear-estimate covariance, MSE (both modes), MSE of empirical distributions, Fisher matrices, Cramer-Rao bound
               vs the model; the property predicate "analytical MSE of the object = exact expectation" (model theorem) on
               the implementation's value
  object_err   ties the specification side (which entries of the object are implied by the variables) to the real
               LinearEstimator / convert_var_to_qoperation: the estimator is probed, its exact MSE computed from the
               (proved exact) covariance and compared with calc_mse_linear_analytical
  mixed        testers with unequal outcome counts: total covariance vs an independent numpy reference
  big          float only (setups too large for exact rationals: qutrit POVMT / QMPT, two-qubit QST / POVMT, 4-outcome QMPT): analytical
               values vs tr(L Sigma L^T) and tr(J L Sigma L^T J^T) from numpy's pinv and the probed Jacobian of convert_var_to_qoperation
  history      no hidden state: ONE tomography object is asked for sequences of true objects (A, neighbours at distance 1e-6..1e-9
               in both orders, exact copies, a far object) interleaved with two sample-size lists, both modes, QOperation /
               variable-array arguments and two call orders; every value must equal a fresh tomography object's value, the
               model's value at that object, and consecutive differences must equal the exactly computed model differences
               (helpers has the same neighbour-pair test for the module-level functions)
"""
import itertools, warnings, math
from fractions import Fraction
import numpy as np
from common import flow
from common.model import rflat, cflat
from props import c19_setup as S

LEVEL = "proof"
EPS_ATOL = 1e-13          # quara.settings.Settings.get_atol() (read again at run time)
EPS8 = 1e-8
TOL = 1e-9


def fr(x):
    return Fraction(x) if not isinstance(x, str) else Fraction(x)


def frs(p):
    return "%d/%d" % (p.numerator, p.denominator)


def fl(vals):
    return [float(v) for v in vals]


def quiet():
    cm = warnings.catch_warnings()
    return cm


def impl_call(fn, *a, **k):
    try:
        with warnings.catch_warnings():
            warnings.simplefilter("ignore")
            return ("ok", fn(*a, **k))
    except Exception as e:
        return ("err", type(e).__name__)


def close_arr(a, b, tol=TOL):
    a = np.asarray(a, dtype=float).ravel(); b = np.asarray(b, dtype=float).ravel()
    if a.shape != b.shape:
        return False
    if a.size == 0:
        return True
    if not (np.all(np.isfinite(a)) and np.all(np.isfinite(b))):
        return False
    scale = 1.0 + max(np.max(np.abs(a)), np.max(np.abs(b)))
    return bool(np.max(np.abs(a - b)) <= tol * scale)


# ====================================================================== helpers
def rand_dist(rng, m, den=60, zeros=False):
    while True:
        w = [rng.randint(0 if zeros else 1, 12) for _ in range(m)]
        if sum(w) > 0 and (zeros or min(w) > 0):
            s = sum(w)
            return [Fraction(x, s) for x in w]


def lay(a, layout):
    """the same numbers in another memory layout: "c" C-contiguous, "f" Fortran order, "view" a strided view into a larger buffer,
    "neg" a view with negative strides, "ro" a read-only array, "list" (1-d only) a plain Python list where the API documents a list / accepts sequences"""
    a = np.asarray(a)
    if layout in (None, "c"):
        return np.ascontiguousarray(a)
    if layout == "f":
        return np.asfortranarray(a)
    if layout == "view":
        big = np.full(tuple(2 * n + 1 for n in a.shape), 7.25, dtype=a.dtype)
        sl = tuple(slice(1, None, 2) for _ in a.shape)
        big[sl] = a
        return big[sl]
    if layout == "neg":
        rev = tuple(slice(None, None, -1) for _ in a.shape)
        return a[rev].copy()[rev]
    if layout == "ro":
        b = np.array(a, copy=True); b.setflags(write=False)
        return b
    raise ValueError(layout)


def chk_helpers(ctx, case):
    from quara.utils import matrix_util as mu
    from quara.data_analysis import data_analysis as da
    m = ctx.get_model()
    kind = case["kind"]
    site = {"cov_mat": "matrix_util.calc_covariance_mat", "cov_total": "matrix_util.calc_covariance_mat_total",
            "direct_sum": "matrix_util.calc_direct_sum", "conjugate": "matrix_util.calc_conjugate",
            "replace": "matrix_util.replace_prob_dist", "fisher": "matrix_util.calc_fisher_matrix",
            "fisher_total": "matrix_util.calc_fisher_matrix_total", "se": "matrix_util.calc_se",
            "mse_prob_dists": "matrix_util.calc_mse_prob_dists", "general_norm": "data_analysis.calc_mse_general_norm",
            "da_cov": "data_analysis.calc_covariance_matrix_of_prob_dists", "direct_sum_bad": "matrix_util.calc_direct_sum",
            "mse_qops": "data_analysis.calc_mse_qoperations", "near": "matrix_util", "se_c": "matrix_util.calc_se"}[kind]

    def bad(sig, what):
        ctx.violation("helpers", site, sig, what, case)

    if kind == "cov_mat":
        q = [fr(x) for x in case["q"]]; n = case["n"]
        mod = fl(m.call("c19.cov_mat", [len(q)], [n] + q))
        qa = lay(np.array(fl(q)), case.get("layout"))
        got = mu.calc_covariance_mat(qa, n)
        got2 = da.calc_covariance_matrix_of_prob_dist(qa, n)
        ctx.count("helpers", key=("cov", tuple(case["q"]), n), label="cov_mat", nontrivial=len(q) >= 2)
        if not close_arr(got, mod, 1e-12):
            bad("value", "calc_covariance_mat(%s,%s)=%s model %s" % (fl(q), n, got.tolist(), mod))
        if not close_arr(got2, mod, 1e-12):
            ctx.violation("helpers", "data_analysis.calc_covariance_matrix_of_prob_dist", "value", "differs from (diag p - pp^T)/n: %s vs %s" % (got2.tolist(), mod), case)
        # definition: (diag q - q q^T)/n, symmetric, rows sum to 0 when sum q = 1
        ref = (np.diag(qa) - np.outer(qa, qa)) / n
        if not close_arr(got, ref, 1e-12):
            bad("definition", "not (diag q - qq^T)/n")
    elif kind in ("cov_total", "da_cov"):
        ds = [([fr(x) for x in q], n) for q, n in case["dists"]]
        if kind == "da_cov":
            n0 = ds[0][1]; ds = [(q, n0) for q, _ in ds]
        zs = [len(ds)] + [len(q) for q, _ in ds]
        qs = []
        for q, n in ds:
            qs += [n] + q
        mod = fl(m.call("c19.cov_total", zs, qs))
        if kind == "cov_total":
            got = mu.calc_covariance_mat_total([(n, np.array(fl(q))) for q, n in ds])
        else:
            got = da.calc_covariance_matrix_of_prob_dists([np.array(fl(q)) for q, _ in ds], ds[0][1])
        sizes = sorted(set(len(q) for q, _ in ds))
        ctx.count("helpers", key=(kind, repr(case["dists"])), label=kind + ("-mixed" if len(sizes) > 1 else "-equal"), nontrivial=len(ds) >= 2)
        if not close_arr(got, mod, 1e-12):
            bad("value", "total covariance differs from model: %s vs %s" % (np.asarray(got).tolist(), mod))
    elif kind == "direct_sum":
        blocks = [lay(np.array([[float(fr(x)) for x in row] for row in b]), case.get("layout")) for b in case["blocks"]]
        zs = [len(blocks)] + [b.shape[0] for b in blocks]
        qs = [x for b in blocks for x in rflat(b)]
        mod = fl(m.call("c19.direct_sum", zs, qs))
        got = mu.calc_direct_sum(blocks)
        ctx.count("helpers", key=("ds", repr(case["blocks"])), label="direct_sum", nontrivial=len(blocks) >= 2)
        if not close_arr(got, mod, 0.0 + 1e-15):
            bad("value", "direct sum differs from model: %s vs %s" % (got.tolist(), mod))
    elif kind == "direct_sum_bad":
        # documented: ValueError unless every entry is a square 2-d matrix
        arrs = [np.array(a, dtype=float) for a in case["arrays"]]
        st, val = impl_call(mu.calc_direct_sum, arrs)
        ctx.count("helpers", key=("dsbad", repr(case["arrays"])), label="direct_sum-malformed-" + case["why"], nontrivial=True)
        if not (st == "err" and val == "ValueError"):
            ctx.violation("helpers", site, "accepts-" + case["why"], "calc_direct_sum accepted %s input (shapes %s) and returned %s; documented: ValueError" % (
                case["why"], [a.shape for a in arrs], np.asarray(val).tolist() if st == "ok" else val), case)
    elif kind == "conjugate":
        X = lay(np.array([[float(fr(x)) for x in row] for row in case["X"]]), case.get("layout")); V = lay(np.array([[float(fr(x)) for x in row] for row in case["V"]]), case.get("layout"))
        mod = fl(m.call("c19.conjugate", [X.shape[0], X.shape[1]], rflat(X) + rflat(V)))
        got = mu.calc_conjugate(X, V)
        ctx.count("helpers", key=("conj", repr(case["X"]), repr(case["V"])), label="conjugate", nontrivial=X.shape[0] != X.shape[1])
        if not close_arr(got, mod, 1e-12):
            bad("value", "x v x^T differs from model: %s vs %s" % (got.tolist(), mod))
    elif kind == "replace":
        p = [float(fr(x)) for x in case["p"]]; eps = float(fr(case["eps"]))
        band = any(abs(x - eps) < 1e-6 * eps for x in p) and not case.get("exact")
        # "exact": eps and every entry are dyadic rationals that ARE floats, so `prob < eps` is decided identically on both sides
        # even exactly AT the threshold (entries equal to eps are NOT replaced, entries one ulp-scale step below are)
        assert not case.get("exact") or all(Fraction(x) == fr(y) for x, y in zip(p, case["p"]))
        mod = fl(m.call("c19.replace", [len(p)], [eps] + p))
        got = mu.replace_prob_dist(np.array(p), eps)
        nrep = sum(1 for x in p if x < eps)
        ctx.count("helpers", key=("rep", tuple(case["p"]), case["eps"]), label="replace-%d-of-%d%s" % (nrep, len(p), "-at-threshold" if case.get("exact") else ""), nontrivial=not band and 0 < nrep < len(p))
        if not band and not close_arr(got, mod, 1e-12):
            bad("value", "replace_prob_dist(%s,%s)=%s model %s" % (p, eps, got.tolist(), mod))
        # by design: replaced distribution still sums to the same total, all entries >= eps when originally >= 2 eps
        if not band and nrep < len(p) and abs(sum(got) - sum(p)) > 1e-9 + nrep * eps * 1.0001:
            bad("mass", "sum changed by more than count*eps")
    elif kind in ("fisher", "fisher_total"):
        eps = None if case["eps"] is None else float(fr(case["eps"]))
        eps_m = EPS8 if eps is None else eps
        items = []
        for it in case["items"]:
            p = lay(np.array([float(fr(x)) for x in it["p"]]), case.get("layout"))
            Gm = lay(np.array([[float(fr(x)) for x in row] for row in it["G"]]), case.get("layout")) if it["G"] and len(set(len(r) for r in it["G"])) == 1 else None
            G = [Gm[i_] for i_ in range(Gm.shape[0])] if Gm is not None else [np.array([float(fr(x)) for x in row]) for row in it["G"]]   # rows = views into the laid-out matrix
            items.append((float(fr(it.get("w", "1"))), p, G))
        nv = len(items[0][2][0])
        band = (any(abs(x - eps_m) < 1e-6 * abs(eps_m) for _, p, _ in items for x in p) or any(
            abs(abs(sum(p) - 1) - eps_m) < 1e-12 for _, p, _ in items)) and not case.get("exact")
        # the regularised distribution may contain an entry that is exactly 0 (an entry equal to eps next to replaced ones): the code
        # then divides by zero (numpy: inf / nan with a RuntimeWarning) while the field model has no infinity - not comparable
        if eps_m > 0 and any(x == 0 for _, p, _ in items if abs(sum(p) - 1) < 1e-6 and min(p) > -1e-9
                             for x in m.call("c19.replace", [len(p)], [eps_m] + list(p))):
            ctx.count("helpers", key=(kind, repr(case["items"]), case["eps"]), label="%s-regularised-entry-exactly-zero" % kind, nontrivial=False)
            return
        if kind == "fisher":
            w, p, G = items[0]
            st, val = impl_call(mu.calc_fisher_matrix, p, G, eps)
            ms, mval = m.try_call("c19.mu_fisher", [len(p), len(G), nv], [eps_m] + list(p) + [x for g in G for x in g])
        else:
            st, val = impl_call(mu.calc_fisher_matrix_total, [p for _, p, _ in items], [G for _, _, G in items], [w for w, _, _ in items], eps)
            mlen = len(items[0][1])
            qs = [eps_m] + [w for w, _, _ in items]
            for _, p, G in items:
                qs += list(p) + [x for g in G for x in g]
            ms, mval = m.try_call("c19.mu_fisher_total", [len(items), mlen, nv], qs)
        ctx.count("helpers", key=(kind, repr(case["items"]), case["eps"]), label="%s-%s%s" % (kind, ms if ms == "ok" else "err%s" % mval, "-band" if band else ""),
                  nontrivial=not band)
        if band:
            return
        if kind == "fisher_total":
            # model of the (repaired) code = the definition sum_j w_j F_j, an nv x nv matrix (theorem C19_mu_fisher_total_ok);
            # the model's error branches (negative weight, invalid distribution, eps <= 0) must raise ValueError
            if ms == "ok":
                sz = int(mval[0]); mval = mval[1:]
                ref = fl(m.call("c19.fisher_total_def", [len(items), mlen, nv], qs))
                if sz != nv or not close_arr(fl(mval), ref, 1e-12):
                    bad("model-self-check", "model of the code %s differs from the definition sum_j w_j F_j %s" % (fl(mval), ref))
                    return
                if st == "err" or np.asarray(val).shape != (nv, nv) or not close_arr(val, ref, TOL):
                    # failure class: the result matrix is sized by the number of outcomes instead of the number of variables
                    sized_by_dist = mlen != nv and (st == "err" or np.asarray(val).shape == (mlen, mlen))
                    ctx.violation("helpers", site, "matrix-size-from-prob-dist" if sized_by_dist else "value",
                                  "valid input with %d outcomes and %d variables: %s; definition sum_j w_j F_j is the %dx%d matrix %s" % (
                                      mlen, nv, ("raises " + val) if st == "err" else ("returns " + str(np.asarray(val).tolist())), nv, nv, ref), case)
                return
            if not (st == "err" and val == "ValueError"):
                bad("error-kind", "model rejects (code %s), implementation %s %s" % (mval, st, val if st == "err" else np.asarray(val).tolist()))
            return
        if ms == "err":
            if not (st == "err" and val == "ValueError"):
                bad("error-kind", "model rejects (code %s), implementation %s %s" % (mval, st, val if st == "err" else ""))
            return
        if st == "err":
            bad("unexpected-raise", "implementation raised %s, model accepts" % val)
            return
        if not close_arr(val, fl(mval), TOL):
            bad("value", "Fisher matrix differs from model: %s vs %s" % (np.asarray(val).tolist(), fl(mval)))
        # textbook definition when every p_x >= eps (replace_prob_dist is then the identity): sum_x p_x s_x s_x^T, s_x = grad p_x / p_x
        if kind == "fisher" and min(items[0][1]) >= 2 * eps_m:
            p = items[0][1]; G = np.array(items[0][2])
            ref = sum(p[x] * np.outer(G[x] / p[x], G[x] / p[x]) for x in range(len(p)))
            if not close_arr(val, ref, TOL):
                bad("definition", "Fisher matrix is not sum_x p_x s_x s_x^T")
    elif kind == "se":
        xs = [np.array([float(fr(x)) for x in v]) for v in case["xs"]]; ys = [np.array([float(fr(x)) for x in v]) for v in case["ys"]]
        mod = float(m.call("c19.se", [len(xs), len(xs[0])], [x for v in xs for x in v] + [x for v in ys for x in v])[0])
        got = float(mu.calc_se(xs, ys))
        ctx.count("helpers", key=("se", repr(case["xs"]), repr(case["ys"])), label="se", nontrivial=len(xs) >= 2)
        if not flow.close(got, mod, 1e-12):
            bad("value", "calc_se=%s model %s" % (got, mod))
    elif kind == "se_c":
        # complex-valued and/or matrix-shaped arrays (density matrices, Choi matrices): squared error = sum of squared MODULI
        def arr(v):
            a = np.array([complex(float(fr(re_)), float(fr(im_))) for re_, im_ in v])
            if case["real_dtype"]:
                a = a.real.copy()
            return lay(a.reshape(case["shape"]), case.get("layout"))
        reps_x = [[arr(v) for v in xs] for xs in case["xs_list"]]; reps_y = [[arr(v) for v in ys] for ys in case["ys_list"]]
        ln = int(np.prod(case["shape"]))
        ses = []
        for xs, ys in zip(reps_x, reps_y):
            ses.append(m.call("c19.cse", [len(xs), ln], [x for a in xs for x in cflat(a)] + [x for a in ys for x in cflat(a)])[0])
        ctx.count("helpers", key=("sec", repr(case["xs_list"]), repr(case["ys_list"]), repr(case["shape"])),
                  label="se-%s-%s" % ("real" if case["real_dtype"] else "complex", "matrix" if len(case["shape"]) == 2 else "vector"), nontrivial=True)
        with warnings.catch_warnings():
            warnings.simplefilter("ignore")
            got = [float(np.real(mu.calc_se(xs, ys))) for xs, ys in zip(reps_x, reps_y)]
            mse, std = mu.calc_mse_prob_dists(reps_x, reps_y)
        for g, e in zip(got, ses):
            if not flow.close(g, float(e), 1e-12):
                bad("value", "calc_se on %s %s arrays = %s, sum of squared moduli of the differences %s" % (
                    "real" if case["real_dtype"] else "complex", "x".join(str(d) for d in case["shape"]), g, float(e)))
                break
        if len(ses) >= 2:
            mean_m, var_m = fl(m.call("c19.mean_var", [], ses))
            if not flow.close(float(np.real(mse)), mean_m, 1e-12) or not flow.close(float(np.real(std)) ** 2, var_m, 1e-10):
                ctx.violation("helpers", "matrix_util.calc_mse_prob_dists", "value", "on complex / matrix arrays: (%s,%s), model mean %s variance %s" % (mse, std, mean_m, var_m), case)
    elif kind == "mse_prob_dists":
        xs_list = [[np.array([float(fr(x)) for x in v]) for v in xs] for xs in case["xs_list"]]
        ys_list = [[np.array([float(fr(x)) for x in v]) for v in ys] for ys in case["ys_list"]]
        ses = []
        for xs, ys in zip(xs_list, ys_list):
            ses.append(m.call("c19.se", [len(xs), len(xs[0])], [x for v in xs for x in v] + [x for v in ys for x in v])[0])
        mean_m, var_m = fl(m.call("c19.mean_var", [], ses))
        mse, std = mu.calc_mse_prob_dists(xs_list, ys_list)
        ctx.count("helpers", key=("mpd", repr(case["xs_list"]), repr(case["ys_list"])), label="mse_prob_dists", nontrivial=len(xs_list) >= 3)
        if not flow.close(float(mse), mean_m, 1e-12) or not flow.close(float(std) ** 2, var_m, 1e-10):
            bad("value", "calc_mse_prob_dists=(%s,%s) model mean %s variance %s" % (mse, std, mean_m, var_m))
    elif kind == "near":
        # module-level memoisation / rounding of the arguments: evaluate a helper at p, at p + delta*d (sum preserved), at p again;
        # the implementation's differences must equal the exactly computed differences of the model values
        p0 = np.array([float(fr(x)) for x in case["p"]]); d = np.array(case["dir"], dtype=float); d = d - d.mean()
        G = [np.array([float(fr(x)) for x in row]) for row in case["G"]]
        n = case["n"]; fn = case["fn"]
        pts = [p0, p0 + case["delta"] * d, p0.copy(), p0 - case["delta"] * d]

        def both(q):
            if fn == "cov_mat":
                return np.asarray(mu.calc_covariance_mat(q, n), dtype=float).ravel(), m.call("c19.cov_mat", [len(q)], [n] + list(q))
            if fn == "da_cov":
                return np.asarray(da.calc_covariance_matrix_of_prob_dist(q, n), dtype=float).ravel(), m.call("c19.cov_mat", [len(q)], [n] + list(q))
            if fn == "cov_total":
                return (np.asarray(mu.calc_covariance_mat_total([(n, q), (n + 1, p0)]), dtype=float).ravel(),
                        m.call("c19.cov_total", [2, len(q), len(p0)], [n] + list(q) + [n + 1] + list(p0)))
            return (np.asarray(mu.calc_fisher_matrix(q, G), dtype=float).ravel(),
                    m.call("c19.mu_fisher", [len(q), len(G), len(G[0])], [EPS8] + list(q) + [x for g in G for x in g]))

        vals = [both(q) for q in pts]
        fsite = {"cov_mat": "matrix_util.calc_covariance_mat", "da_cov": "data_analysis.calc_covariance_matrix_of_prob_dist",
                 "cov_total": "matrix_util.calc_covariance_mat_total", "fisher": "matrix_util.calc_fisher_matrix"}[fn]
        for k in range(1, len(vals)):
            (gi, gm), (hi, hm) = vals[k - 1], vals[k]
            dm = np.array([float(x - y) for x, y in zip(hm, gm)]); di = hi - gi
            scale = 1.0 + float(np.max(np.abs(hi))); rounding = 1e-13 * scale; big = float(np.max(np.abs(dm)))
            resolved = big > 1e3 * rounding
            ctx.count("helpers", key=("near", fn, repr(case["p"]), case["delta"], k), label="near-%s-%s" % (fn, "resolved" if resolved else "below-rounding"), nontrivial=resolved)
            if not close_arr(hi, fl(hm), TOL):
                ctx.violation("helpers", fsite, "value", "differs from the model at the perturbed argument", case)
            elif resolved and float(np.max(np.abs(di - dm))) > 1e-3 * big + rounding:
                ctx.violation("helpers", fsite, "sensitivity", "arguments at distance %g: implementation changes by %.6g, exact difference of the model values %.6g (mismatch %.3g)" % (
                    case["delta"], float(np.max(np.abs(di))), big, float(np.max(np.abs(di - dm)))), case)
    elif kind == "mse_qops":
        # the sample MSE the analytical qoperation-mode value is compared with in quara's simulation checks:
        # mean / std(ddof=1) over repetitions of |stacked(estimate) - stacked(truth)|^2
        import random as _r
        c = S.c_sys_of("qubit")
        rnd = _r.Random(case["seed"])
        mk = (lambda: S.make_state(c, S.rand_density(rnd, c.dim), True)) if case["obj"] == "state" else (
            lambda: S.make_povm(c, S.rand_povm_ops(rnd, c.dim, 3), True))
        xs = [mk() for _ in range(case["R"])]
        # ys: "same" = one true object repeated (how quara's simulation calls it), "distinct" = pairwise DIFFERENT references
        # (then a shared reference vector is wrong), "distinct-copies" = different objects, other list length than xs (zip semantics)
        if case["ys"] == "same":
            ys = [mk()] * case["R"]
        else:
            ys = [mk() for _ in range(case["Ry"])]
            vecs = [tuple(np.asarray(y.to_stacked_vector(), dtype=float).round(9)) for y in ys] + [tuple(np.asarray(x.to_stacked_vector(), dtype=float).round(9)) for x in xs]
            assert len(set(vecs)) == len(vecs), "generator must produce pairwise different objects"
        ses = []
        for x, y in zip(xs, ys):
            xv = list(np.asarray(x.to_stacked_vector(), dtype=float)); yv = list(np.asarray(y.to_stacked_vector(), dtype=float))
            ses.append(m.call("c19.se", [1, len(xv)], xv + yv)[0])
        mean_m, var_m = fl(m.call("c19.mean_var", [], ses)) if len(ses) >= 2 else (float(ses[0]), 0.0)
        mse2 = da.calc_mse_qoperations(xs, ys, mode="qoperation", with_std=False)
        if len(ses) >= 2:
            mse, std = da.calc_mse_qoperations(xs, ys, mode="qoperation", with_std=True)
            mse_d, std_d = da.calc_mse_qoperations(xs, ys)                 # defaults: mode="qoperation", with_std=True
        else:
            mse, std, mse_d, std_d = mse2, 0.0, mse2, 0.0                  # std(ddof=1) of one value is nan by definition
        ctx.count("helpers", key=("mq", case["seed"], case["obj"], case["R"], case["ys"], case.get("Ry")),
                  label="mse_qoperations-%s-ys-%s-len%d%s" % (case["obj"], case["ys"], len(ses), "" if case.get("Ry", case["R"]) == case["R"] else "-unequal-lists"),
                  nontrivial=case["ys"] != "same" and len(ses) >= 2)
        if (not flow.close(float(mse), mean_m, 1e-12) or not flow.close(float(std) ** 2, var_m, 1e-10) or not flow.close(float(mse2), mean_m, 1e-12)
                or not flow.close(float(mse_d), mean_m, 1e-12) or not flow.close(float(std_d) ** 2, var_m, 1e-10)):
            bad("value", "calc_mse_qoperations=(%s,%s) / %s, model mean %s variance %s of the squared distances of the stacked vectors" % (mse, std, mse2, mean_m, var_m))
        st, val = impl_call(da.calc_mse_qoperations, xs, ys, mode="nonsense")
        if not (st == "err" and val == "ValueError"):
            bad("error-kind", "unknown mode: %s %s, documented ValueError" % (st, val))
    elif kind == "general_norm":
        xs = [np.array([float(fr(x)) for x in v]) for v in case["xs"]]; y = np.array([float(fr(x)) for x in case["y"]])
        l1 = lambda a, b: np.sum(np.abs(a - b))
        norms = [sum(abs(Fraction(float(a)) - Fraction(float(b))) for a, b in zip(x, y)) for x in xs]
        mod = float(m.call("c19.mse_norm", [], norms)[0])
        got = float(da.calc_mse_general_norm(xs, y, l1))
        l2 = lambda a, b: np.sqrt(np.sum((a - b) ** 2))
        got2 = float(da.calc_mse_general_norm(xs, y, l2))
        se = float(m.call("c19.se", [len(xs), len(y)], [x for v in xs for x in v] + list(y) * len(xs))[0]) / len(xs)
        ctx.count("helpers", key=("gn", repr(case["xs"]), repr(case["y"])), label="general_norm", nontrivial=len(xs) >= 2)
        if not flow.close(got, mod, 1e-12):
            bad("value", "calc_mse_general_norm (L1)=%s model %s" % (got, mod))
        if not flow.close(got2, se, 1e-12):
            bad("value", "calc_mse_general_norm (L2)=%s, mean squared distance %s" % (got2, se))


def rq(rng, lo=-9, hi=9, den=(1, 2, 3, 4, 5, 8)):
    return frs(Fraction(rng.randint(lo, hi), rng.choice(den)))


def gen_helpers(ctx):
    rng = ctx.rng
    cases = []
    k = ctx.n(12, 80)
    for _ in range(k):
        mm_ = rng.randint(2, 5)
        cases.append({"kind": "cov_mat", "q": [frs(x) for x in rand_dist(rng, mm_, zeros=rng.random() < 0.3)], "n": rng.choice([1, 2, 3, 7, 10, 100, 1000])})
    for i in range(k):
        J = 1 + i % 4
        dists = [([frs(x) for x in rand_dist(rng, 2 + (i + jj) % 3, zeros=rng.random() < 0.2)], rng.choice([1, 2, 5, 10, 33, 100])) for jj in range(J)]
        cases.append({"kind": "da_cov" if i % 3 == 2 else "cov_total", "dists": dists})
    for _ in range(k):
        J = rng.randint(1, 4)
        blocks = []
        for _ in range(J):
            s = rng.randint(1, 3)
            blocks.append([[rq(rng) for _ in range(s)] for _ in range(s)])
        cases.append({"kind": "direct_sum", "blocks": blocks})
    # malformed direct-sum inputs (documented ValueError)
    cases.append({"kind": "direct_sum_bad", "why": "1d-entry", "arrays": [[[1.0, 2.0], [3.0, 4.0]], [1.0, 2.0]]})
    cases.append({"kind": "direct_sum_bad", "why": "3d-entry", "arrays": [[[[1.0]]]]})
    cases.append({"kind": "direct_sum_bad", "why": "wide-entry", "arrays": [[[1.0, 2.0, 3.0], [4.0, 5.0, 6.0]]]})
    cases.append({"kind": "direct_sum_bad", "why": "nonsquare-column", "arrays": [[[1.0, 0.0], [0.0, 1.0]], [[1.0], [2.0]]]})
    cases.append({"kind": "direct_sum_bad", "why": "nonsquare-tall", "arrays": [[[1.0, 2.0], [3.0, 4.0], [5.0, 6.0]]]})
    for _ in range(k):
        r, c = rng.randint(1, 4), rng.randint(1, 4)
        cases.append({"kind": "conjugate", "X": [[rq(rng) for _ in range(c)] for _ in range(r)], "V": [[rq(rng) for _ in range(c)] for _ in range(c)]})
    for _ in range(k):
        mm_ = rng.randint(2, 5)
        eps = rng.choice(["1/100000000", "1/100000000", "1/1000", "1/20"])
        p = rand_dist(rng, mm_, zeros=True)
        if rng.random() < 0.4:
            i = rng.randrange(mm_); p[i] = p[i] + Fraction(1, 10 ** 10)   # a sub-threshold non-zero entry elsewhere
            j = rng.randrange(mm_)
            if p[j] == 0:
                p[j] = Fraction(3, 10 ** 9)
        cases.append({"kind": "replace", "p": [frs(x) for x in p], "eps": eps})
    # exactly AT the threshold, with exactly representable numbers (no band): entries equal to eps, just below, just above, zero,
    # in every position
    for kexp in (10, 20):
        epsq = Fraction(1, 2 ** kexp); step = Fraction(1, 2 ** (kexp + 25))
        for _ in range(ctx.n(3, 10)):
            mm_ = rng.randint(3, 5)
            small = [rng.choice([epsq, epsq - step, epsq + step, Fraction(0), epsq]) for _ in range(mm_ - 1)]
            pos = rng.randrange(mm_)
            pq = small[:pos] + [1 - sum(small)] + small[pos:]
            cases.append({"kind": "replace", "p": [frs(x) for x in pq], "eps": frs(epsq), "exact": True})
            Gq = [[rq(rng, -5, 5, (1, 2, 4)) for _ in range(2)] for _ in range(mm_)]
            cases.append({"kind": "fisher", "items": [{"p": [frs(x) for x in pq], "G": Gq}], "eps": frs(epsq), "exact": True})
    for i in range(k):
        J = (1, 2, 1, 3)[i % 4]
        mm_ = 2 + i % 3; nv = 1 + (i // 3) % 4
        items = []
        for jj in range(J):
            p = rand_dist(rng, mm_, zeros=False)
            if (i + jj) % 3 == 0:            # deterministically: every third distribution has an exact zero (eps-replacement branch)
                z = rng.randrange(mm_); rest = sum(p) - p[z]
                p = [Fraction(0) if x_ == z else p[x_] / rest for x_ in range(mm_)]
            G = [[rq(rng, -5, 5) for _ in range(nv)] for _ in range(mm_)]
            items.append({"p": [frs(x) for x in p], "G": G, "w": frs(Fraction(rng.randint(0, 8), rng.choice([1, 2, 4])))})
        cases.append({"kind": "fisher" if J == 1 else "fisher_total", "items": items, "eps": rng.choice([None, None, "1/1000", "1/50"])})
    # malformed Fisher inputs
    base_G = [["1", "0"], ["-1/2", "1/3"], ["-1/2", "-1/3"]]
    cases.append({"kind": "fisher", "items": [{"p": ["-1/10", "6/10", "1/2"], "G": base_G}], "eps": None})             # negative probability
    cases.append({"kind": "fisher", "items": [{"p": ["1/4", "1/4", "1/4"], "G": base_G}], "eps": None})               # sum != 1
    cases.append({"kind": "fisher", "items": [{"p": ["1/2", "1/4", "1/4"], "G": base_G[:2]}], "eps": None})           # size mismatch
    cases.append({"kind": "fisher", "items": [{"p": ["1/2", "1/4", "1/4"], "G": base_G}], "eps": "0"})                # eps = 0
    cases.append({"kind": "fisher", "items": [{"p": ["1/2", "1/4", "1/4"], "G": base_G}], "eps": "-1/100"})           # eps < 0
    cases.append({"kind": "fisher", "items": [{"p": ["-1/1000000000", "1/2", "1/2"], "G": base_G}], "eps": None})     # tiny negative: accepted
    cases.append({"kind": "fisher_total", "items": [{"p": ["1/2", "1/4", "1/4"], "G": base_G, "w": "1"}, {"p": ["1/3", "1/3", "1/3"], "G": base_G, "w": "-1/2"}], "eps": None})
    cases.append({"kind": "fisher_total", "items": [{"p": ["1/2", "1/4", "1/4"], "G": base_G, "w": "1"}, {"p": ["1/3", "1/3", "2/3"], "G": base_G, "w": "1/2"}], "eps": None})
    for _ in range(k):
        K = rng.randint(1, 4); ln = rng.randint(1, 4)
        cases.append({"kind": "se", "xs": [[rq(rng) for _ in range(ln)] for _ in range(K)], "ys": [[rq(rng) for _ in range(ln)] for _ in range(K)]})
    for i in range(max(10, k // 2)):
        shape = [[2, 2], [3], [2, 3], [2], [3, 3]][i % 5]; ln = shape[0] * (shape[1] if len(shape) == 2 else 1)
        R = 1 + i % 4; K = 1 + (i // 2) % 3
        cz = lambda: [[rq(rng, -6, 6, (1, 2, 4)), rq(rng, -6, 6, (1, 2, 4))] for _ in range(ln)]
        cases.append({"kind": "se_c", "shape": shape, "real_dtype": i % 4 == 3,
                      "xs_list": [[cz() for _ in range(K)] for _ in range(R)], "ys_list": [[cz() for _ in range(K)] for _ in range(R)]})
    for _ in range(max(4, k // 2)):
        R = rng.randint(2, 5); K = rng.randint(1, 3); ln = rng.randint(2, 3)
        cases.append({"kind": "mse_prob_dists",
                      "xs_list": [[[rq(rng, 0, 9) for _ in range(ln)] for _ in range(K)] for _ in range(R)],
                      "ys_list": [[[rq(rng, 0, 9) for _ in range(ln)] for _ in range(K)] for _ in range(R)]})
    for fn in ("cov_mat", "da_cov", "cov_total", "fisher"):
        for dl in ([1e-6, 1e-8] if ctx.quick else [1e-6, 1e-7, 1e-8, 1e-9]):
            mm_ = rng.randint(2, 4); nvv = rng.randint(1, 3)
            cases.append({"kind": "near", "fn": fn, "p": [frs(x) for x in rand_dist(rng, mm_)], "dir": [rng.randint(-4, 4) for _ in range(mm_ - 1)] + [5],
                          "G": [[rq(rng, -5, 5) for _ in range(nvv)] for _ in range(mm_)], "n": rng.choice([1, 3, 10, 100]), "delta": dl})
    # calc_mse_qoperations: a FIXED grid (no categorical feature is left to chance): both object types x list lengths 1, 2, 3, 5 x
    # pairwise different references; plus one repeated reference and lists of unequal length per object type
    for obj in ("state", "povm"):
        for R in (1, 2, 3, 5) if ctx.quick else (1, 2, 3, 4, 5, 8):
            cases.append({"kind": "mse_qops", "obj": obj, "R": R, "Ry": R, "ys": "distinct", "seed": rng.randrange(1 << 30)})
        cases.append({"kind": "mse_qops", "obj": obj, "R": 4, "Ry": 4, "ys": "same", "seed": rng.randrange(1 << 30)})
        cases.append({"kind": "mse_qops", "obj": obj, "R": 5, "Ry": 3, "ys": "distinct", "seed": rng.randrange(1 << 30)})
        cases.append({"kind": "mse_qops", "obj": obj, "R": 2, "Ry": 4, "ys": "distinct", "seed": rng.randrange(1 << 30)})
    for _ in range(max(4, k // 2)):
        K = rng.randint(1, 5); ln = rng.randint(1, 4)
        cases.append({"kind": "general_norm", "xs": [[rq(rng) for _ in range(ln)] for _ in range(K)], "y": [rq(rng) for _ in range(ln)]})
    # memory layout of the array arguments (C / Fortran order, strided view, negative strides): cycled deterministically
    lays = ["c", "f", "view", "neg", "ro"]
    cnt = {}
    for c_ in cases:
        if c_["kind"] in ("cov_mat", "direct_sum", "conjugate", "fisher", "fisher_total", "se_c"):
            i_ = cnt.get(c_["kind"], 0); cnt[c_["kind"]] = i_ + 1
            c_["layout"] = lays[i_ % 5]
    return cases


def sub_helpers(ctx):
    cases = gen_helpers(ctx)
    ctx.sample("helpers", cases[0])
    ctx.run_cases("helpers", chk_helpers, cases)


# ====================================================================== exact expectation
def chk_expect(ctx, case):
    from quara.utils import matrix_util as mu
    m = ctx.get_model()
    if case["kind"] == "moments":
        p = [fr(x) for x in case["p"]]; n = case["n"]; mm_ = len(p)
        vals = m.call("c19.expect_moments", [mm_, n], p)
        mean = vals[:mm_]; cov = vals[mm_:]
        formula = m.call("c19.cov_mat", [mm_], [n] + p)
        got = mu.calc_covariance_mat(np.array(fl(p)), n)
        ctx.count("expect", key=("mom", tuple(case["p"]), n), label="moments-m%d-n%d" % (mm_, n), nontrivial=mm_ ** n > mm_)
        # statement of the theorem on this instance, exactly (model vs model; would expose a wrong statement, not the code)
        if mean != p or cov != formula:
            ctx.violation("expect", "model:C19_covariance_exact", "theorem-instance", "enumeration %s / %s differs from p / (diag p - pp^T)/n %s" % (mean, cov, formula), case)
        # the implementation's formula equals the exact expectation
        if not close_arr(got, fl(cov), 1e-12):
            ctx.violation("expect", "matrix_util.calc_covariance_mat", "not-exact-covariance", "calc_covariance_mat=%s, exact covariance over all %d^%d sequences %s" % (
                got.tolist(), mm_, n, fl(cov)), case)
    else:
        ss = case["scheds"]          # [[p..], n]
        k = case["k"]
        M = [[fr(x) for x in row] for row in case["M"]]
        zs = [k, len(ss)]
        qs = [x for row in M for x in row]
        for p, n in ss:
            zs += [len(p), n]
            qs += [fr(x) for x in p]
        exact, formula = m.call("c19.expect_mse", zs, qs)
        Mf = np.array([[float(x) for x in row] for row in M])
        tot = mu.calc_covariance_mat_total([(n, np.array([float(fr(x)) for x in p])) for p, n in ss])
        got = float(np.trace(mu.calc_conjugate(Mf, tot)))
        nseq = 1
        for p, n in ss:
            nseq *= len(p) ** n
        ctx.count("expect", key=("mse", repr(case["scheds"]), repr(case["M"])), label="mse-J%d-seq%d" % (len(ss), 10 ** int(math.log10(max(nseq, 1)))), nontrivial=len(ss) >= 2)
        if exact != formula:
            ctx.violation("expect", "model:C19_mse_linear_exact", "theorem-instance", "enumeration %s differs from tr(M Sigma M^T) %s" % (exact, formula), case)
        if not flow.close(got, float(exact), 1e-11):
            ctx.violation("expect", "matrix_util.calc_conjugate/calc_covariance_mat_total", "not-exact-mse", "tr(M Sigma M^T)=%s, exact E|M(f-p)|^2 over all %d outcome sequences %s" % (got, nseq, float(exact)), case)


def gen_expect(ctx):
    rng = ctx.rng
    cases = []
    limit = ctx.n(1500, 70000)
    for mm_ in (2, 3, 4):
        for n in range(1, 9):
            if mm_ ** n > limit:
                continue
            for _ in range(ctx.n(1, 3)):
                cases.append({"kind": "moments", "p": [frs(x) for x in rand_dist(rng, mm_, zeros=rng.random() < 0.15)], "n": n})
    lim2 = ctx.n(3000, 150000)
    for _ in range(ctx.n(10, 60)):
        while True:
            J = rng.randint(1, 3)
            ss = [([frs(x) for x in rand_dist(rng, rng.randint(2, 4))], rng.randint(1, 4)) for _ in range(J)]
            nseq = 1
            for p, n in ss:
                nseq *= len(p) ** n
            if nseq <= lim2:
                break
        nr = sum(len(p) for p, _ in ss); k = rng.randint(1, 3)
        cases.append({"kind": "mse", "scheds": ss, "k": k, "M": [[rq(rng, -4, 4, (1, 2, 3)) for _ in range(nr)] for _ in range(k)]})
    return cases


def sub_expect(ctx):
    cases = gen_expect(ctx)
    ctx.sample("expect", cases[-1])
    ctx.run_cases("expect", chk_expect, cases)


# ====================================================================== tomography classes
def setup_of(case):
    kind = case["type"]
    t = S.build_tomo(kind, case["sys"], case["eq"], case.get("tst_states"), case.get("tst_povms"), case.get("mo", 0), sched=case.get("sched"))
    c = S.c_sys_of(case["sys"])
    d2 = c.dim ** 2
    return t, d2


def unpack(setup):
    """(type, system, outcomes of the estimated object, tester states, tester POVMs[, user-defined schedules])"""
    return tuple(setup) + (None,) if len(setup) == 5 else tuple(setup)


def sizes_of(t):
    """numbers of outcomes of the schedules (they may differ), computed INDEPENDENTLY of tomography.num_outcomes(): from the schedule
    list of the experiment and the tester POVMs the harness itself put there (x the outcome count of the estimated POVM / MProcess)"""
    exp = t._experiment
    est = int(getattr(t, "_num_outcomes", 1) or 1)
    out = []
    for sch in exp.schedules:
        n = 1
        for item_kind, idx in sch:
            if item_kind == "povm":
                pv = exp.povms[idx]
                n *= est if pv is None else len(pv.vecs)
            elif item_kind == "mprocess":
                n *= est
        out.append(int(n))
    return out


def header(case, t, d2, A, b, v, extra=()):
    nr, nv = A.shape
    zs = [S.TYPES[case["type"]], 1 if case["eq"] else 0, nv, nr, t.num_schedules, d2, case.get("mo", 0)] + sizes_of(t) + list(extra)
    qs = rflat(A) + rflat(b) + rflat(v)
    return zs, qs


def chk_tomo(ctx, case):
    from quara.utils import matrix_util as mu
    from quara.settings import Settings
    m = ctx.get_model()
    t, d2 = setup_of(case)
    kind = case["type"]; eq = case["eq"]
    cls = type(t).__name__
    truth = S.build_truth(kind, case["sys"], eq, case.get("mo", 0), case["truth"])
    A = t.calc_matA(); b = t.calc_vecB()
    nr, nv = A.shape; J = t.num_schedules
    v = truth.to_var() if eq else truth.to_stacked_vector()
    v = np.asarray(v, dtype=np.float64)
    ns = case["ns"]
    eps = Settings.get_atol()
    label = "%s-%s-%s-%s" % (kind, case["sys"], "eq" if eq else "free", case["truth"][0])

    def bad(site, sig, what):
        ctx.violation("tomo", site, sig, what, case)

    # ---- probability distributions (split by the schedules' outcome counts / truncate / normalise)
    ms = sizes_of(t); offs = [0]
    for x in ms:
        offs.append(offs[-1] + x)
    mixed = len(set(ms)) > 1
    custom = case.get("sched") is not None
    r_no = impl_call(lambda: [int(t.num_outcomes(j)) for j in range(J)])
    if r_no[0] == "err":
        bad(cls + ".num_outcomes", "schedule-lookup", "num_outcomes(j) raises %s for the schedules %s (POVMs named there have %s outcomes)" % (r_no[1], [list(x) for x in t._experiment.schedules], ms))
        return
    no = r_no[1]
    if no != ms:
        bad(cls + ".num_outcomes", "schedule-lookup", "num_outcomes(j) = %s, but the POVMs named in the schedules %s have %s outcomes" % (no, [list(x) for x in t._experiment.schedules], ms))
    if offs[-1] != nr:
        bad(cls + ".num_outcomes", "sizes", "sum of num_outcomes(j) = %d, matA has %d rows" % (offs[-1], nr))
        return
    raw = A @ v + b
    band = bool(np.any(np.abs(raw - eps) < 1e-3 * eps))
    zs, qs = header(case, t, d2, A, b, v)
    pd_m = fl(m.call("c19.prob_dists", zs, qs + [eps]))
    pi = impl_call(t.calc_prob_dists, truth)
    rows_i = None
    if pi[0] == "ok":
        try:
            rows_i = [np.asarray(r, dtype=float).ravel() for r in pi[1]]
        except Exception:
            rows_i = None
    if rows_i is None or [len(r) for r in rows_i] != ms:
        ctx.count("tomo", key=("pd", repr(case)), label=label + "-prob-dists-shape", nontrivial=True)
        what = "schedules with %s outcomes: calc_prob_dists %s; expected one distribution per schedule with these lengths" % (
            ms, ("raises " + pi[1]) if pi[0] == "err" else "returns rows of lengths %s" % ([len(r) for r in rows_i] if rows_i is not None else "?"))
        if custom:
            bad("StandardQTomography.calc_prob_dists", "schedule-lookup", "user-defined " + what)
        elif mixed:
            bad("StandardQTomography.calc_prob_dists", "mixed-outcome-counts", what)
        else:
            bad(cls + ".calc_prob_dists", "shape", what)
        return
    pd_i = np.concatenate(rows_i)
    ctx.count("tomo", key=("case", repr(case)), label=label + ("-mixed" if mixed else "") + ("-userschedules" if custom else "") + ("-band" if band else ""), nontrivial=not band)
    if kind == "qst":
        # independent reference (Born rule with the POVM NAMED in schedule j): row j of calc_prob_dists
        exp_ = t._experiment
        ref_rows = [np.array([float(np.vdot(e_, truth.vec).real) for e_ in exp_.povms[sch[1][1]].vecs]) for sch in exp_.schedules]
        if not band and not close_arr(pd_i, np.concatenate(ref_rows), 1e-10):
            bad(cls + ".calc_prob_dists", "not-born-rule-of-scheduled-povm", "row j is not Tr[E_x rho] of the POVM named in schedule j (%s)" % [list(x) for x in exp_.schedules])
            return
    if band:
        return
    if not close_arr(pd_i, pd_m, 1e-11):
        bad(cls + ".calc_prob_dists", "value", "prob dists differ from model: %s vs %s" % (pd_i.tolist(), pd_m))
        return
    # ---- covariance of the empirical distributions
    covt_m = np.array(fl(m.call("c19.tomo_cov_total", header(case, t, d2, A, b, v, [len(ns)])[0], qs + [eps] + ns))).reshape(nr, nr)
    covt_i = t.calc_covariance_mat_total(truth, ns)
    if not close_arr(covt_i, covt_m, 1e-11):
        bad(cls + ".calc_covariance_mat_total", "value", "total covariance differs from model (max diff %g)" % np.max(np.abs(np.asarray(covt_i) - covt_m)))
    for j in sorted(set([0, J - 1, J // 2])):
        cs = t.calc_covariance_mat_single(truth, j, ns[j])
        if not close_arr(cs, covt_m[offs[j]:offs[j + 1], offs[j]:offs[j + 1]], 1e-11):
            bad(cls + ".calc_covariance_mat_single", "value", "schedule %d: %s vs model block" % (j, np.asarray(cs).tolist()))
    # property predicate on the implementation's output: block j is (diag p_j - p_j p_j^T)/n_j of the Born probabilities,
    # off-diagonal blocks vanish (independent schedules)
    ref = np.zeros((nr, nr))
    for j in range(J):
        pj = rows_i[j]
        ref[offs[j]:offs[j + 1], offs[j]:offs[j + 1]] = (np.diag(pj) - np.outer(pj, pj)) / ns[j]
    if not close_arr(covt_i, ref, 1e-11):
        bad(cls + ".calc_covariance_mat_total", "not-block-diagonal-multinomial", "total covariance is not the direct sum of (diag p - pp^T)/n")
    # ---- left inverse (numerical kernel: certificate L A = I checked exactly in the model, then used as input)
    L = mu.calc_left_inv(A)
    out = m.call("c19.tomo_mse", zs, qs + [eps] + ns + rflat(L))
    resid, msev, ana_var, ana_qop, exact, empi_tr, empi_cl = [float(x) for x in out[:7]]
    V_m = np.array(fl(out[7:])).reshape(nv, nv)
    if resid > 1e-9:
        bad("matrix_util.calc_left_inv", "certificate", "max|L A - I| = %g" % resid)
        return
    for mode in ("var", "qoperation"):
        ana = ana_var if mode == "var" else ana_qop
        got = float(t.calc_mse_linear_analytical(truth, ns, mode=mode))
        # the property: the analytical value is the exact expectation of the squared error
        #   var mode        : E|L(f-p)|^2 = tr(L Sigma L^T)                         (theorem C19_mse_var_exact)
        #   qoperation mode : E|stack(v^) - stack(v)|^2 = tr V + tr(S V S^T)         (theorem C19_mse_object_exact)
        # the model of the (repaired) code [ana] equals it for all types (theorems C19_tomo_mse_var/qoperation_exact)
        target = msev if mode == "var" else exact
        if not flow.close(ana, target, 1e-12):
            bad("model:C19_tomo_mse_%s_exact" % mode, "theorem-instance", "model of the code %s differs from the exact expectation %s" % (ana, target))
        if not flow.close(got, target, TOL):
            bad(cls + ".calc_mse_linear_analytical", "not-exact-expectation-" + mode,
                "mode=%s on_para_eq_constraint=%s: analytical %.12g, exact expectation of the squared error of the %s %.12g (ratio %.6f)" % (
                    mode, eq, got, "variables" if mode == "var" else "object (stacked vector)", target, got / target if target else float("nan")))
        elif not flow.close(got, ana, TOL):
            bad(cls + ".calc_mse_linear_analytical", "value-" + mode, "mode=%s: %s, model of the code %s" % (mode, got, ana))
    Vi = t.calc_covariance_linear_mat_total(truth, ns)
    if not close_arr(Vi, V_m, TOL):
        bad(cls + ".calc_covariance_linear_mat_total", "value", "L Sigma L^T differs from model (max diff %g)" % np.max(np.abs(Vi - V_m)))
    # ---- MSE of the empirical distributions
    got = float(t.calc_mse_empi_dists_analytical(truth, ns))
    if not flow.close(got, empi_tr, 1e-11):
        bad(cls + ".calc_mse_empi_dists_analytical", "value", "%s, model %s" % (got, empi_tr))
    if not flow.close(got, empi_cl, 1e-11):
        bad(cls + ".calc_mse_empi_dists_analytical", "not-closed-form", "%s, sum_j (1-|p_j|^2)/n_j = %s" % (got, empi_cl))
    # data_num_list of another length: IndexError iff longer than the number of schedules (as coded)
    for ns2 in (ns[:-1], ns + [7]):
        zs2, _ = header(case, t, d2, A, b, v, [len(ns2)])
        ms_, mv_ = m.try_call("c19.tomo_mse_empi", zs2, qs + [eps] + ns2)
        ir = impl_call(t.calc_mse_empi_dists_analytical, truth, ns2)
        if (ms_ == "err") != (ir[0] == "err") or (ms_ == "ok" and not flow.close(float(ir[1]), float(mv_[0]), 1e-11)):
            bad(cls + ".calc_mse_empi_dists_analytical", "list-length", "data_num_list of length %d: impl %s model %s %s" % (len(ns2), ir, ms_, mv_))
    # ---- Fisher matrices
    fband = bool(np.any(np.abs(raw - EPS8) < 1e-4 * EPS8))
    if fband:
        return
    js = sorted(set([0, J - 1, (2 * J) // 3]))
    for j in js:
        zsj, _ = header(case, t, d2, A, b, v, [j])
        ms_, Fm = m.try_call("c19.tomo_fisher", zsj, qs + [EPS8])
        ir = impl_call(t.calc_fisher_matrix, j, truth if eq == truth.on_para_eq_constraint else v)
        if ms_ == "err" or ir[0] == "err":
            if not (ms_ == "err" and ir[0] == "err" and ir[1] == "ValueError"):
                if mixed:
                    bad("StandardQTomography.calc_fisher_matrix", "mixed-outcome-counts", "schedules with %s outcomes, schedule %d: model %s, implementation %s" % (ms, j, ms_, ir))
                else:
                    bad(cls + ".calc_fisher_matrix", "error-branch", "schedule %d: model %s %s impl %s" % (j, ms_, Fm, ir))
            return
        if not close_arr(ir[1], fl(Fm), TOL):
            if mixed:
                bad("StandardQTomography.calc_fisher_matrix", "mixed-outcome-counts", "schedules with %s outcomes, schedule %d: Fisher matrix is not the one of rows [%d,%d) of matA" % (ms, j, offs[j], offs[j + 1]))
            else:
                bad(cls + ".calc_fisher_matrix", "value", "schedule %d: Fisher matrix differs from model" % j)
        # textbook definition away from the eps-replacement: sum_x p_x s_x s_x^T with s_x = grad p_x / p_x
        pj = raw[offs[j]:offs[j + 1]]
        if np.min(pj) >= 2 * EPS8:
            Gj = A[offs[j]:offs[j + 1]]
            refF = sum(pj[x] * np.outer(Gj[x] / pj[x], Gj[x] / pj[x]) for x in range(ms[j]))
            if not close_arr(ir[1], refF, TOL):
                bad(cls + ".calc_fisher_matrix", "definition", "schedule %d: not sum_x p_x s_x s_x^T" % j)
    N = case["N"]
    w = [n_ / N for n_ in ns]
    ms_, Ft = m.try_call("c19.tomo_fisher_total", zs, qs + [EPS8] + w)
    ir = impl_call(t.calc_fisher_matrix_total, truth, w)
    if ms_ == "err" or ir[0] == "err":
        if not (ms_ == "err" and ir[0] == "err" and ir[1] == "ValueError"):
            bad(cls + ".calc_fisher_matrix_total", "error-branch", "model %s impl %s" % (ms_, ir))
        return
    Ftm = np.array(fl(Ft)).reshape(nv, nv)
    if not close_arr(ir[1], Ftm, TOL):
        bad(cls + ".calc_fisher_matrix_total", "value", "total Fisher matrix differs from model")
    # ---- Cramer-Rao bound: inverse from the harness' own LAPACK call, certificate F Minv = I evaluated exactly
    cond = np.linalg.cond(Ftm)
    if not np.isfinite(cond) or cond > 1e10:
        ctx.count("tomo", key=("cr-illcond", repr(case)), label=label + "-cr-illconditioned", nontrivial=False)
        return
    Minv = np.linalg.inv(Ftm)
    out = fl(m.call("c19.tomo_cr", zs, qs + [EPS8, N] + ns + rflat(Minv)))
    resid, crv, cra, cro = out
    ctol = max(TOL, 1e-13 * cond)
    if resid > max(1e-9, 1e-14 * cond):
        ctx.count("tomo", key=("cr-resid", repr(case)), label=label + "-cr-certificate-too-loose", nontrivial=False)
        return
    got = float(t.calc_cramer_rao_bound(truth, N, ns))
    ctx.count("tomo", key=("cr", repr(case)), label=label + "-cr", nontrivial=True)
    if not flow.close(got, cra, ctol):
        bad(cls + ".calc_cramer_rao_bound", "value", "%s, model of the code %s (tr F^-1/N = %s)" % (got, cra, crv))


SETUPS_QUICK = [
    # type, sys, mo, tester states, tester povms, weight
    ("qst", "qubit", 0, None, ["typical"]),
    ("qst", "qubit", 0, None, ["random", 11, 2, 3]),
    ("qst", "qubit", 0, None, ["random", 12, 2, 4]),
    ("qst", "qutrit", 0, None, ["typical"]),
    ("povmt", "qubit", 2, ["typical"], None),
    ("povmt", "qubit", 3, ["random", 21, 5], None),
    ("povmt", "qubit", 4, ["typical"], None),
    ("povmt", "qutrit", 2, ["typical"], None),
    ("qpt", "qubit", 0, ["typical"], ["typical"]),
    ("qpt", "qubit", 0, ["random", 31, 4], ["random", 32, 2, 3]),
    ("qst", "2qubit", 0, None, ["random", 18, 6, 4]),   # two qubits (d^2 = 16, 15 variables), six random 4-outcome testers
    ("qmpt", "qubit", 2, ["typical"], ["typical"]),
    ("qmpt", "qubit", 3, ["typical"], ["typical"]),      # 3 outcomes: two full HS blocks contribute to the implied first row
    # USER-DEFINED schedules (permuted, repeated testers) over testers with different outcome counts: schedule j is NOT tester j
    ("qst", "qubit", 0, None, ["mixed", 15, [3, 2, 4]], [2, 0, 1, 0]),
    ("qst", "qubit", 0, None, ["mixed", 16, [2, 4, 3]], [1, 2, 0]),          # pure permutation: as many schedules as testers
    ("povmt", "qubit", 3, ["typical"], None, [3, 1, 0, 2, 1]),
    ("qpt", "qubit", 0, ["typical"], ["mixed", 35, [2, 3]], [[0, 1], [1, 0], [2, 1], [3, 0], [0, 0], [1, 1], [2, 0], [3, 1]]),
    ("qmpt", "qubit", 2, ["typical"], ["mixed", 45, [2, 3]], [[3, 1], [0, 0], [1, 1], [2, 0], [0, 1], [1, 0], [2, 1], [3, 0]]),
    # tester POVMs with DIFFERENT numbers of outcomes (schedules of unequal length)
    ("qst", "qubit", 0, None, ["mixed", 15, [3, 2]]),
    ("qst", "qubit", 0, None, ["mixed", 16, [2, 4, 3]]),
    ("qpt", "qubit", 0, ["typical"], ["mixed", 35, [2, 3]]),
]
SETUPS_MORE = [
    ("povmt", "2qubit", 2, ["random", 23, 18], None),    # two qubits, 2-outcome POVM, 18 random tester states
    ("qst", "qutrit", 0, None, ["mixed", 17, [4, 3, 5, 3]]),
    ("qpt", "qubit", 0, ["random", 36, 4], ["mixed", 37, [4, 2]]),
    ("qmpt", "qubit", 2, ["typical"], ["mixed", 45, [2, 3]]),
    ("qst", "qutrit", 0, None, ["random", 13, 3, 4]),
    ("qst", "qutrit", 0, None, ["random", 14, 5, 3]),
    ("povmt", "qutrit", 3, ["typical"], None),
    ("povmt", "qutrit", 4, ["random", 22, 10], None),
    ("qpt", "qubit", 0, ["random", 33, 5], ["random", 34, 1, 4]),
    ("qmpt", "qubit", 2, ["random", 41, 4], ["random", 42, 2, 3]),
    ("qmpt", "qubit", 3, ["random", 46, 4], ["random", 47, 3, 2]),
]
HEAVY = {"qmpt": 4, "qpt": 2}      # relative cost: fewer cases


def rand_ns(rng, J):
    style = rng.choice(["equal", "mixed", "mixed", "small"])
    if style == "equal":
        n = rng.choice([1, 10, 100, 1000])
        return [n] * J
    if style == "small":
        return [rng.randint(1, 8) for _ in range(J)]
    return [rng.choice([1, 2, 5, 10, 37, 100, 1000, 4096]) for _ in range(J)]


def gen_tomo(ctx, per_setup, setups):
    rng = ctx.rng
    cases = []
    for setup in setups:
        kind, sysn, mo, ts, tp, sched = unpack(setup)
        for eq in (True, False):
            t = S.build_tomo(kind, sysn, eq, ts, tp, mo, sched=sched)
            J = t.num_schedules
            k = max(1, per_setup // HEAVY.get(kind, 1))
            truths = [["random", rng.randrange(1 << 30)] for _ in range(k)]
            for nm in S.NAMED_TRUTHS.get(kind, {}).get(sysn, [])[:ctx.n(1, 3)]:
                if kind in ("povmt", "qmpt"):
                    # named objects have their own outcome count
                    try:
                        obj = S.build_truth(kind, sysn, eq, mo, ["named", nm])
                        cnt = len(obj.vecs) if kind == "povmt" else len(obj.hss)
                    except Exception:
                        continue
                    if cnt != mo:
                        continue
                truths.append(["named", nm])
            for tr in truths:
                ns = rand_ns(rng, J)
                cases.append({"type": kind, "sys": sysn, "eq": eq, "mo": mo, "tst_states": ts, "tst_povms": tp, "sched": sched,
                              "truth": tr, "ns": ns, "N": rng.choice([ns[0], max(ns), 10])})
    return cases


def sub_tomo(ctx):
    setups = SETUPS_QUICK if ctx.quick else SETUPS_QUICK + SETUPS_MORE
    cases = gen_tomo(ctx, ctx.n(2, 14), setups)
    ctx.sample("tomo", cases[0])
    ctx.run_cases("tomo", chk_tomo, cases)


# ====================================================================== object error: specification side vs the real estimator
def chk_object_err(ctx, case):
    from quara.protocol.qtomography.standard.linear_estimator import LinearEstimator
    from quara.settings import Settings
    m = ctx.get_model()
    t, d2 = setup_of(case)
    kind = case["type"]; eq = case["eq"]; mo = case.get("mo", 0)
    cls = type(t).__name__
    truth = S.build_truth(kind, case["sys"], eq, mo, case["truth"])
    A = t.calc_matA(); b = t.calc_vecB()
    nr, nv = A.shape; J = t.num_schedules
    v = np.asarray(truth.to_var() if eq else truth.to_stacked_vector(), dtype=np.float64)
    ns = case["ns"]
    eps = Settings.get_atol()
    p = A @ v + b
    ms = sizes_of(t); offs = [0]
    for x in ms:
        offs.append(offs[-1] + x)
    est = LinearEstimator()

    def run(f):
        empi = [(ns[j], f[offs[j]:offs[j + 1]]) for j in range(J)]
        with warnings.catch_warnings():
            warnings.simplefilter("ignore")
            r = est.calc_estimate(t, empi, is_computation_time_required=False)
        return np.asarray(r.estimated_var, dtype=float), np.asarray(r.estimated_qoperation.to_stacked_vector(), dtype=float)

    label = "%s-%s-%s" % (kind, case["sys"], "eq" if eq else "free")
    ctx.count("object_err", key=repr(case), label=label, nontrivial=True)
    v0, s0 = run(p)
    s_true = np.asarray(truth.to_stacked_vector(), dtype=float)
    if not close_arr(v0, v, 1e-8) or not close_arr(s0, s_true, 1e-8):
        ctx.violation("object_err", "LinearEstimator.calc_estimate", "biased-at-truth", "estimate from the exact probabilities is not the true object (max dev %g)" % np.max(np.abs(s0 - s_true)), case)
        return
    # (1) which entries of the object are implied: |stack(v^) - stack(v)|^2 = |x|^2 + |S x|^2 with the model's S
    rnd = np.random.default_rng(case["probe_seed"])
    for _ in range(3):
        f = p + rnd.integers(-4, 5, size=nr) / 16.0
        vv, ss = run(f)
        x = vv - v
        spec = float(m.call("c19.object_sqerr", [S.TYPES[kind], 1 if eq else 0, d2, mo, nv], rflat(x))[0])
        got = float(np.dot(ss - s_true, ss - s_true))
        if not flow.close(got, spec, 1e-8):
            ctx.violation("object_err", "model:implied_S", "spec-tie", "squared object error %s, specification |x|^2+|Sx|^2 = %s" % (got, spec), case)
            return
    # (2) the estimator is affine: extract its linear part on the object level, exact MSE = tr(M Sigma M^T) (theorem C19_mse_linear_exact)
    cols = []
    for i in range(nr):
        e = np.zeros(nr); e[i] = 1.0
        _, si = run(p + e)
        cols.append(si - s0)
    M = np.array(cols).T
    f = p + rnd.integers(-4, 5, size=nr) / 16.0
    _, sf = run(f)
    if not close_arr(sf - s0, M @ (f - p), 1e-8):
        ctx.violation("object_err", "LinearEstimator.calc_estimate", "not-affine", "estimator is not affine in the empirical distributions", case)
        return
    zs, qs = header(case, t, d2, A, b, v, [len(ns)])
    Sigma = np.array(fl(m.call("c19.tomo_cov_total", zs, qs + [eps] + ns))).reshape(nr, nr)
    exact = float(np.trace(M @ Sigma @ M.T))
    got = float(t.calc_mse_linear_analytical(truth, ns, mode="qoperation"))
    if not flow.close(got, exact, 1e-8):
        ctx.violation("object_err", cls + ".calc_mse_linear_analytical", "not-exact-expectation-qoperation",
                      "on_para_eq_constraint=%s: analytical MSE (mode=qoperation) %.12g; exact expectation of |stacked(estimate) - stacked(truth)|^2 for quara's LinearEstimator %.12g (ratio %.6f)" % (
                          eq, got, exact, got / exact if exact else float("nan")), case)


def sub_object_err(ctx):
    rng = ctx.rng
    setups = SETUPS_QUICK if ctx.quick else SETUPS_QUICK + SETUPS_MORE
    cases = []
    for setup in setups:
        kind, sysn, mo, ts, tp, sched = unpack(setup)
        for eq in (True, False):
            if ctx.quick and not eq and kind in ("qst", "qpt"):
                continue
            t = S.build_tomo(kind, sysn, eq, ts, tp, mo, sched=sched)
            for _ in range(ctx.n(1, 3)):
                cases.append({"type": kind, "sys": sysn, "eq": eq, "mo": mo, "tst_states": ts, "tst_povms": tp, "sched": sched,
                              "truth": ["random", rng.randrange(1 << 30)], "ns": rand_ns(rng, t.num_schedules), "probe_seed": rng.randrange(1 << 30)})
    ctx.sample("object_err", cases[0])
    ctx.run_cases("object_err", chk_object_err, cases)


# ====================================================================== testers with unequal outcome counts
def chk_mixed(ctx, case):
    """QST whose tester POVMs have different numbers of outcomes: the covariance of the empirical distributions is still
    the direct sum of the per-schedule multinomial covariances (theorem C19_covariance_total_exact)."""
    from quara.protocol.qtomography.standard.standard_qst import StandardQst
    import random as _r
    c = S.c_sys_of(case["sys"])
    rnd = _r.Random(case["seed"])
    povms = [S.make_povm(c, S.rand_povm_ops(rnd, c.dim, mo), True) for mo in case["outcomes"]]
    truth = S.make_state(c, S.rand_density(rnd, c.dim), case["eq"])
    order = case.get("order") or list(range(len(povms)))
    t = StandardQst(povms, on_para_eq_constraint=case["eq"], schedules=S.make_schedules("qst", case.get("order")))
    ns = case["ns"]
    A = t.calc_matA(); b = t.calc_vecB()
    v = np.asarray(truth.to_var() if case["eq"] else truth.to_stacked_vector(), dtype=float)
    raw = A @ v + b
    blocks = []
    off = 0
    for mo, n in zip([case["outcomes"][j] for j in order], ns):
        pj = raw[off:off + mo]; off += mo
        blocks.append((np.diag(pj) - np.outer(pj, pj)) / n)
    m = ctx.get_model()
    ref = np.array(fl(m.call("c19.direct_sum", [len(blocks)] + [bk.shape[0] for bk in blocks], [x for bk in blocks for x in rflat(bk)]))).reshape(len(raw), len(raw))
    ctx.count("mixed", key=repr(case), label="outcomes-" + "-".join(str(x) for x in case["outcomes"]) + ("-order-" + "".join(str(x) for x in order) if case.get("order") else ""), nontrivial=True)
    sig = "schedule-lookup" if case.get("order") else "mixed-outcome-counts"
    r = impl_call(t.calc_covariance_mat_total, truth, ns)
    if r[0] == "err":
        ctx.violation("mixed", "StandardQTomography.calc_prob_dists", sig, "tester POVMs with %s outcomes, schedule order %s: calc_covariance_mat_total raises %s" % (case["outcomes"], order, r[1]), case)
        return
    got = np.asarray(r[1], dtype=float)
    if got.shape != ref.shape or not close_arr(got, ref, 1e-10):
        ctx.violation("mixed", "StandardQTomography.calc_prob_dists", sig, "tester POVMs with %s outcomes, schedule order %s: total covariance is not the direct sum of the per-schedule multinomial covariances of the POVMs named in the schedules" % (case["outcomes"], order), case)


def sub_mixed(ctx):
    rng = ctx.rng
    cases = []
    for i, outcomes in enumerate(([3, 2], [2, 4], [2, 3, 2], [4, 2, 3])):
        cases.append({"sys": "qubit", "eq": i % 2 == 0, "outcomes": outcomes, "seed": rng.randrange(1 << 30), "ns": [rng.choice([5, 10, 100]) for _ in outcomes]})
    for i, (outcomes, order) in enumerate((([3, 2, 4], [2, 0, 1]), ([2, 4, 3], [1, 2, 0, 1]), ([4, 2, 3], [2, 1, 0, 2]))):   # user-defined schedules
        cases.append({"sys": "qubit", "eq": i % 2 == 1, "outcomes": outcomes, "order": order, "seed": rng.randrange(1 << 30), "ns": [rng.choice([5, 10, 100]) for _ in order]})
    ctx.sample("mixed", cases[0])
    ctx.run_cases("mixed", chk_mixed, cases)


# ====================================================================== no hidden state: sequences of true objects on ONE tomography object
def _take(r):
    """float copy of a returned value; afterwards the RETURNED object itself is overwritten in place (a caller may do that):
    if the implementation handed out internal state, later calls are corrupted and the history sub-check sees it"""
    if isinstance(r, np.ndarray):
        val = np.array(r, dtype=float, copy=True)
        try:
            r.fill(7.5)
        except (ValueError, TypeError):
            pass
        return val
    if isinstance(r, (list, tuple)):
        return [_take(x) for x in r]
    return np.array([float(r)])


def _cat(parts):
    return np.concatenate([np.asarray(p_, dtype=float).ravel() for p_ in parts]) if isinstance(parts, list) else np.asarray(parts, dtype=float)


def _eval_all(t, X, ns, N, reverse, use_var):
    """every analytical entry point of the tomography object t at the true object X; the call order is varied by `reverse`"""
    from quara.settings import Settings
    J = t.num_schedules
    out = {}
    w = [n_ / N for n_ in ns]
    arg = np.asarray(X.to_var(), dtype=np.float64) if use_var else X
    steps = [
        ("calc_prob_dists", lambda: _cat(_take(t.calc_prob_dists(X))).ravel()),
        ("calc_prob_dist", lambda: _cat([_take(t.calc_prob_dist(X, j)) for j in range(J)])),
        ("calc_covariance_mat_single", lambda: _cat([_take(t.calc_covariance_mat_single(X, j, ns[j])) for j in range(J)])),
        ("calc_covariance_mat_total", lambda: _take(t.calc_covariance_mat_total(X, ns))),
        ("calc_covariance_linear_mat_total", lambda: _take(t.calc_covariance_linear_mat_total(X, ns))),
        ("calc_mse_linear_analytical[var]", lambda: np.array([float(t.calc_mse_linear_analytical(X, ns, mode="var"))])),
        ("calc_mse_linear_analytical[qoperation]", lambda: np.array([float(t.calc_mse_linear_analytical(X, ns, mode="qoperation"))])),
        ("calc_mse_empi_dists_analytical", lambda: np.array([float(t.calc_mse_empi_dists_analytical(X, ns))])),
        ("calc_fisher_matrix", lambda: _cat([_take(t.calc_fisher_matrix(j, arg)) for j in sorted(set([0, J - 1]))])),
        ("calc_fisher_matrix_total", lambda: _take(t.calc_fisher_matrix_total(arg, w))),
        ("calc_cramer_rao_bound", lambda: np.array([float(t.calc_cramer_rao_bound(arg, N, ns))])),
    ]
    if reverse:
        steps = steps[::-1]
    # per-schedule entry points additionally as the FIRST and the LAST calls of the step with one fixed schedule j0, so that across
    # consecutive steps the same method is called with the same j and neighbouring objects back to back (a one-entry memo would hit)
    j0 = J // 2
    single = lambda tag: [
        ("calc_fisher_matrix@j0[%s]" % tag, lambda: _take(t.calc_fisher_matrix(j0, arg)).ravel()),
        ("calc_prob_dist@j0[%s]" % tag, lambda: _take(t.calc_prob_dist(X, j0)).ravel()),
        ("calc_covariance_mat_single@j0[%s]" % tag, lambda: _take(t.calc_covariance_mat_single(X, j0, ns[j0])).ravel()),
    ]
    steps = single("first") + steps + single("last")
    with warnings.catch_warnings():
        warnings.simplefilter("ignore")
        for name, f in steps:
            out[name] = f()
    return out


def chk_history(ctx, case):
    """ONE tomography object is asked for the analytical quantities of a sequence of true objects: A, objects at distance
    1e-6 .. 1e-9 from A (both orders), exact copies of A, a far object, interleaved with two sample-size lists, both modes,
    QOperation / variable-array arguments and two call orders.  Every value must be (1) what a FRESH tomography object returns
    for that object (no dependence on the call history), (2) the model's value at THAT object, and (3) for consecutive steps
    with the same sample sizes the implementation's difference must equal the exactly computed difference of the two model
    values (the yardstick that resolves pairs far closer than the 1e-9 comparison tolerance)."""
    from quara.utils import matrix_util as mu
    from quara.settings import Settings
    m = ctx.get_model()
    kind = case["type"]; eq = case["eq"]; mo = case.get("mo", 0)
    mk = lambda fresh: S.build_tomo(kind, case["sys"], eq, case.get("tst_states"), case.get("tst_povms"), mo, fresh=fresh, sched=case.get("sched"))
    t = mk(True)                      # the ONE object of this history
    cls = type(t).__name__
    d2 = S.c_sys_of(case["sys"]).dim ** 2
    A_obj = S.build_truth(kind, case["sys"], eq, mo, case["truth"])
    C_obj = S.build_truth(kind, case["sys"], eq, mo, case["far"])
    A = t.calc_matA(); b = t.calc_vecB()
    nr, nv = A.shape; J = t.num_schedules
    eps = Settings.get_atol()
    L = mu.calc_left_inv(A)
    label = "%s-%s-%s" % (kind, case["sys"], "eq" if eq else "free")
    v0 = np.asarray(A_obj.to_var() if eq else A_obj.to_stacked_vector(), dtype=np.float64)
    if float(np.min(A @ v0 + b)) < 1e-4:
        ctx.count("history", key=repr(case), label=label + "-near-zero-probability-skipped", nontrivial=False)
        return
    objs = {}

    def obj_of(key):
        if key not in objs:
            if key == "A":
                objs[key] = A_obj
            elif key == "C":
                objs[key] = C_obj
            elif key == "A2":
                objs[key] = S.perturbed(kind, A_obj, eq, case["dir_seed"], 0.0)         # exact copy, another instance
            else:
                objs[key] = S.perturbed(kind, A_obj, eq, case["dir_seed"], float(key.split(":")[1]))
        return objs[key]

    def model_at(X, ns, N):
        v = np.asarray(X.to_var() if eq else X.to_stacked_vector(), dtype=np.float64)
        zs, qs = header(case, t, d2, A, b, v)
        out = m.call("c19.tomo_mse", zs, qs + [eps] + ns + rflat(L))
        res = {
            "calc_prob_dists": m.call("c19.prob_dists", zs, qs + [eps]),
            "calc_covariance_mat_total": m.call("c19.tomo_cov_total", header(case, t, d2, A, b, v, [len(ns)])[0], qs + [eps] + ns),
            "calc_covariance_linear_mat_total": out[7:],
            "calc_mse_linear_analytical[var]": [out[2]],
            "calc_mse_linear_analytical[qoperation]": [out[3]],
            "calc_mse_empi_dists_analytical": [out[5]],
        }
        res["calc_prob_dist"] = res["calc_prob_dists"]
        st, Ft = m.try_call("c19.tomo_fisher_total", zs, qs + [EPS8] + [n_ / N for n_ in ns])
        if st == "ok":
            res["calc_fisher_matrix_total"] = Ft
        st, Fj = m.try_call("c19.tomo_fisher", header(case, t, d2, A, b, v, [J // 2])[0], qs + [EPS8])
        if st == "ok":
            res["calc_fisher_matrix@j0[first]"] = Fj; res["calc_fisher_matrix@j0[last]"] = Fj
        j0 = J // 2; offs = [0]
        for x in sizes_of(t):
            offs.append(offs[-1] + x)
        res["calc_prob_dist@j0[first]"] = res["calc_prob_dist@j0[last]"] = res["calc_prob_dists"][offs[j0]:offs[j0 + 1]]
        return res

    prev = None
    for k, (okey, nsi, use_var) in enumerate(case["steps"]):
        X = obj_of(okey); ns = case["ns_lists"][nsi]; N = case["N"]
        use_var = bool(use_var) and eq == X.on_para_eq_constraint
        step_case = dict(case, failing_step=k)
        got = _eval_all(t, X, ns, N, reverse=(k % 2 == 1), use_var=use_var)
        fresh = _eval_all(mk(True), X, ns, N, reverse=False, use_var=False)
        mod = model_at(X, ns, N)
        ctx.count("history", key=(repr(case), k), label="%s-step-%s" % (label, okey.split(":")[0]), nontrivial=True)
        for name, val in got.items():
            site = cls + "." + name.split("[")[0].split("@")[0]
            scale = 1.0 + float(np.max(np.abs(fresh[name]))) if fresh[name].size else 1.0
            # (1) history independence: same value as a tomography object that has never been called
            if val.shape != fresh[name].shape or float(np.max(np.abs(val - fresh[name]))) > 1e-12 * scale:
                ctx.violation("history", site, "history-dependent",
                              "step %d (%s, sample sizes #%d) after %s: %s on the re-used tomography object differs from a fresh tomography object's value by %.3g (scale %.3g) - the analytical value is not a function of (true object, sample sizes) alone" % (
                                  k, okey, nsi, [s_[0] for s_ in case["steps"][:k]], name, float(np.max(np.abs(val - fresh[name]))) if val.shape == fresh[name].shape else float("nan"), scale), step_case)
                continue
            if name not in mod:
                continue
            mf = np.array(fl(mod[name]))
            # (2) the model's value at THIS object
            if not close_arr(val, mf, TOL):
                ctx.violation("history", site, "value", "step %d (%s): %s differs from the model at this object" % (k, okey, name), step_case)
                continue
            # (3) yardstick: difference to the previous step vs the exact difference of the model values
            if prev is not None and prev["nsi"] == nsi and name in prev["mod"] and len(prev["mod"][name]) == len(mod[name]):
                dm = np.array([float(x - y) for x, y in zip(mod[name], prev["mod"][name])])
                di = (val - prev["got"][name]).ravel()
                rounding = 1e-13 * scale
                big = float(np.max(np.abs(dm))) if dm.size else 0.0
                resolved = big > 1e3 * rounding
                ctx.count("history", key=(repr(case), k, name), label="pair-%s" % ("resolved" if resolved else "below-rounding"), nontrivial=resolved)
                if resolved and float(np.max(np.abs(di - dm))) > 1e-3 * big + rounding:
                    ctx.violation("history", site, "sensitivity",
                                  "steps %d -> %d (%s -> %s, same sample sizes): %s changes by %.6g (max entry) in the implementation, the exact difference of the model values is %.6g; mismatch %.3g" % (
                                      k - 1, k, prev["okey"], okey, name, float(np.max(np.abs(di))), big, float(np.max(np.abs(di - dm)))), step_case)
        prev = {"nsi": nsi, "mod": mod, "got": got, "okey": okey}


HISTORY_SETUPS = [
    ("qst", "qubit", 0, None, ["mixed", 15, [3, 2, 4]], [2, 0, 1, 0]),      # user-defined schedules
    ("qst", "qubit", 0, None, ["typical"]),
    ("qst", "qubit", 0, None, ["mixed", 15, [3, 2]]),
    ("povmt", "qubit", 3, ["typical"], None),
    ("qpt", "qubit", 0, ["typical"], ["typical"]),
    ("qmpt", "qubit", 2, ["typical"], ["typical"]),
]
HISTORY_MORE = [
    ("qst", "qutrit", 0, None, ["typical"]),
    ("povmt", "qutrit", 2, ["typical"], None),
    ("qpt", "qubit", 0, ["random", 31, 4], ["mixed", 35, [2, 3]]),
]


def sub_history(ctx):
    rng = ctx.rng
    deltas = [1e-6, 1e-8] if ctx.quick else [1e-6, 1e-7, 1e-8, 1e-9]
    cases = []
    for setup in (HISTORY_SETUPS if ctx.quick else HISTORY_SETUPS + HISTORY_MORE):
        kind, sysn, mo, ts, tp, sched = unpack(setup)
        for eq in (True, False):
            if ctx.quick and kind == "qmpt" and not eq:
                continue
            for _ in range(ctx.n(1, 2)):
                t = S.build_tomo(kind, sysn, eq, ts, tp, mo, sched=sched)
                J = t.num_schedules
                ns1 = rand_ns(rng, J); ns2 = [n_ + rng.choice([1, 3, 50]) for n_ in ns1]
                steps = [["A", 0, 0]]
                for i, dl in enumerate(deltas):
                    sgn = "" if i % 2 == 0 else "-"
                    nsi = i % 2
                    if steps[-1][1] != nsi:
                        steps.append(["A2", nsi, 1])           # same object, other sample sizes
                    steps.append(["B:%s%g" % (sgn, dl), nsi, i % 2])      # A -> close neighbour
                    steps.append(["A2" if i % 2 == 0 else "A", nsi, 1 - i % 2])   # close neighbour -> (copy of) A
                steps += [["C", steps[-1][1], 0], ["C", 1 - steps[-1][1], 1], ["B:%g" % deltas[-1], 1 - steps[-1][1], 0], ["A", 1 - steps[-1][1], 1]]
                cases.append({"type": kind, "sys": sysn, "eq": eq, "mo": mo, "tst_states": ts, "tst_povms": tp, "sched": sched,
                              "truth": ["random", rng.randrange(1 << 30)], "far": ["random", rng.randrange(1 << 30)],
                              "dir_seed": rng.randrange(1 << 30), "ns_lists": [ns1, ns2], "N": rng.choice([ns1[0], 10]), "steps": steps})
    ctx.sample("history", cases[0])
    ctx.run_cases("history", chk_history, cases)


# ====================================================================== large setups, float only (no exact model): qutrit QMPT, two qubits
def chk_big(ctx, case):
    """setups too large for exact rational evaluation: the analytical values are compared, in floating point, with quantities built
    from INDEPENDENT ingredients: Sigma = direct sum of (diag p - pp^T)/n from p = A v + b, L = numpy pinv(A), V = L Sigma L^T, and the
    Jacobian J of quara's own var -> stacked object map (convert_var_to_qoperation, probed column by column): var mode = tr V,
    qoperation mode = tr(J V J^T) (theorem C19_mse_linear_exact with M = J L)."""
    t, d2 = setup_of(case)
    kind = case["type"]; eq = case["eq"]; mo = case.get("mo", 0)
    cls = type(t).__name__
    truth = S.build_truth(kind, case["sys"], eq, mo, case["truth"])
    A = np.asarray(t.calc_matA(), dtype=float); b = np.asarray(t.calc_vecB(), dtype=float)
    nr, nv = A.shape
    v = np.asarray(truth.to_var() if eq else truth.to_stacked_vector(), dtype=float)
    ns = case["ns"]; ms = sizes_of(t)
    p = A @ v + b
    if float(np.min(p)) < -1e-9:       # (exact zeros are fine here: no threshold decision enters a float comparison at 1e-8)
        ctx.count("big", key=repr(case), label="%s-%s-negative-probability-skipped" % (kind, case["sys"]), nontrivial=False)
        return
    p = np.where(p < 1e-13, 0.0, p)
    Sigma = np.zeros((nr, nr)); off = 0
    for j, mj in enumerate(ms):
        pj = p[off:off + mj]
        Sigma[off:off + mj, off:off + mj] = (np.diag(pj) - np.outer(pj, pj)) / ns[j]; off += mj
    L = np.linalg.pinv(A)
    V = L @ Sigma @ L.T
    with warnings.catch_warnings():
        warnings.simplefilter("ignore")
        s0 = np.asarray(t.convert_var_to_qoperation(v).to_stacked_vector(), dtype=float)
        cols = []
        for i in range(nv):
            e = v.copy(); e[i] += 1.0
            cols.append(np.asarray(t.convert_var_to_qoperation(e).to_stacked_vector(), dtype=float) - s0)
        Jm = np.array(cols).T
        got_var = float(t.calc_mse_linear_analytical(truth, ns, mode="var"))
        got_qop = float(t.calc_mse_linear_analytical(truth, ns, mode="qoperation"))
        got_cov = np.asarray(t.calc_covariance_mat_total(truth, ns), dtype=float)
    ctx.count("big", key=repr(case), label="%s-%s-%s-nv%d-nr%d" % (kind, case["sys"], "eq" if eq else "free", nv, nr), nontrivial=True)
    if not close_arr(s0, np.asarray(truth.to_stacked_vector(), dtype=float), 1e-9):
        ctx.violation("big", cls + ".convert_var_to_qoperation", "round-trip", "convert_var_to_qoperation(var of the truth) is not the truth", case)
        return
    if not close_arr(got_cov, Sigma, 1e-10):
        ctx.violation("big", cls + ".calc_covariance_mat_total", "not-block-diagonal-multinomial", "total covariance is not the direct sum of (diag p - pp^T)/n", case)
    ev = float(np.trace(V)); eo = float(np.trace(Jm @ V @ Jm.T))
    if not flow.close(got_var, ev, 1e-8):
        ctx.violation("big", cls + ".calc_mse_linear_analytical", "not-exact-expectation-var", "mode=var: %.12g, tr(L Sigma L^T) = %.12g" % (got_var, ev), case)
    if not flow.close(got_qop, eo, 1e-8):
        ctx.violation("big", cls + ".calc_mse_linear_analytical", "not-exact-expectation-qoperation",
                      "mode=qoperation on_para_eq_constraint=%s: analytical %.12g, tr(J L Sigma L^T J^T) with J the Jacobian of var -> stacked object %.12g (ratio %.6f)" % (eq, got_qop, eo, got_qop / eo if eo else float("nan")), case)


BIG_QUICK = [("povmt", "qutrit", 3, ["typical"], None), ("qpt", "qubit", 0, ["typical"], ["typical"]),
             ("qst", "qutrit", 0, None, ["mixed", 17, [4, 3, 5, 3]], [3, 1, 0, 2, 1])]
BIG_MORE = [("qmpt", "qutrit", 2, ["typical"], ["typical"]), ("qst", "2qubit", 0, None, ["random", 19, 8, 3]), ("povmt", "2qubit", 3, ["random", 24, 20], None),
            ("qmpt", "qubit", 4, ["typical"], ["typical"])]


def sub_big(ctx):
    rng = ctx.rng
    cases = []
    for setup in (BIG_QUICK if ctx.quick else BIG_QUICK + BIG_MORE):
        kind, sysn, mo, ts, tp, sched = unpack(setup)
        for eq in (True, False):
            if kind == "qmpt" and sysn == "qutrit" and not eq:
                continue
            t = S.build_tomo(kind, sysn, eq, ts, tp, mo, sched=sched)
            cases.append({"type": kind, "sys": sysn, "eq": eq, "mo": mo, "tst_states": ts, "tst_povms": tp, "sched": sched,
                          "truth": ["random", rng.randrange(1 << 30)], "ns": rand_ns(rng, t.num_schedules)})
    ctx.sample("big", cases[0])
    ctx.run_cases("big", chk_big, cases)


SUBS = [("helpers", sub_helpers), ("expect", sub_expect), ("tomo", sub_tomo), ("object_err", sub_object_err), ("mixed", sub_mixed), ("history", sub_history), ("big", sub_big)]
FNS = {"helpers": chk_helpers, "expect": chk_expect, "tomo": chk_tomo, "object_err": chk_object_err, "mixed": chk_mixed, "history": chk_history, "big": chk_big}


# ====================================================================== translator tie
def regen_model(ctx):
    """translator tie (protocol of flow.regen_check with this property's own translator gen/c19_py2coq.py): regenerate the Gallina
    text of replace_prob_dist, calc_direct_sum, the loop / index skeletons of calc_covariance_mat_total (both), calc_mse_empi_dists_analytical,
    calc_fisher_matrix_total (both), _calc_cramer_rao_bound and the two _generate_matS from the CURRENT source, compile it, and re-check
    coq/gen/C19_Equiv.v (regenerated = hand-written model, all sizes / lists / inputs).  returns (ok, info)"""
    import os, re, shutil, subprocess, sys
    import runner
    V = runner.V
    scratch = os.path.join(getattr(ctx, "scratch", os.path.join(V, "build", ctx.prop_id)), "gen")
    os.makedirs(scratch, exist_ok=True)
    gen_v = os.path.join(scratch, "Gen_c19.v")
    for stem in (gen_v[:-2], os.path.join(scratch, "C19_Equiv")):
        for ext in (".vo", ".vos", ".vok", ".glob"):
            try:
                os.remove(stem + ext)
            except OSError:
                pass
    equiv = os.path.join(V, "coq", "gen", "C19_Equiv.v")
    src = open(equiv).read()
    src_nc = re.sub(r"\(\*.*?\*\)", " ", src, flags=re.S)
    thms = re.findall(r"^\s*Theorem\s+([\w']+)", src_nc, flags=re.M)
    ctx.theorems = list(ctx.theorems) + [t for t in thms if t not in ctx.theorems]
    ctx.obligations += len(thms)
    r = subprocess.run([sys.executable, os.path.join(V, "gen", "c19_py2coq.py"), os.environ.get("VERIF_REPO", "/repo"), gen_v],
                       capture_output=True, text=True, timeout=120)
    if r.returncode != 0:
        return False, {"theorem": "translator-rejected-source", "error": "translator rejected the source (outside its subset): " + (r.stdout + r.stderr)[-600:]}
    q = ["-Q", os.path.join(V, "coq", "theories"), "QV", "-Q", scratch, "QVGen"]
    r = subprocess.run(["timeout", "300", "coqc"] + q + [gen_v], capture_output=True, text=True)
    if r.returncode != 0:
        return False, {"theorem": thms[0], "error": "regenerated model does not compile: " + (r.stdout + r.stderr)[-600:]}
    dst = os.path.join(scratch, "C19_Equiv.v")
    shutil.copy(equiv, dst)
    r = subprocess.run(["timeout", "600", "coqc"] + q + [dst], capture_output=True, text=True)
    out = r.stdout + r.stderr
    if r.returncode != 0:
        m_ = re.search(r"line (\d+), characters", out)
        thm = None
        if m_:
            upto = "\n".join(src.splitlines()[:int(m_.group(1))])
            names = re.findall(r"^\s*(?:Theorem|Lemma)\s+([\w']+)", upto, flags=re.M)
            thm = names[-1] if names else None
        return False, {"theorem": thm, "error": out[-800:]}
    blocks = runner.parse_assumptions(out)
    bad = [a for closed, axs in blocks for a in axs if a not in runner.ALLOWED_AXIOMS and a.split(".")[-1] not in runner.ALLOWED_AXIOMS]
    if len(blocks) != len(thms) or bad:
        return False, {"theorem": thms[0], "error": "assumption gate on regenerated proofs: %d blocks / %d theorems, disallowed %s" % (len(blocks), len(thms), bad)}
    for t, (closed, axs) in zip(thms, blocks):
        ctx.axioms[t] = "closed" if closed else sorted(set(axs))
    ctx.discharged += len(thms)
    return True, {}


def run(ctx):
    ctx.rule = ("helpers: seeded small rationals (impl gets float(r), model the same float exactly) incl. zeros / sub-threshold entries and a malformed stream; "
                "expect: rational distributions with 2..4 outcomes, n <= 8 shots, complete enumeration of all outcome sequences in the model; "
                "tomo / object_err: QST, POVMT, QPT, QMPT on 1 qubit / 1 qutrit with quara's typical testers and with seeded random (asymmetric, full-rank) testers of 2..4 outcomes, "
                "and tester POVM sets with unequal outcome counts ([3,2], [2,4,3], ...), "
                "seeded random physical truths (mixed and rank-deficient states, generic POVMs, CPTP maps from random isometries, instruments) plus named pure truths "
                "(zero probabilities -> truncation / eps-replacement branches), equal / unequal / tiny sample-size lists, both parametrisations, both modes; "
                "history: per setup a seeded truth A, neighbours A + delta*d (delta 1e-6, 1e-8; thorough also 1e-7, 1e-9; d seeded, inside the equality constraint), exact copies and a far truth, "
                "evaluated on one re-used tomography object; a neighbour pair is non-trivial when the exact model difference exceeds 1e3 x rounding (1e-13 x scale); "
                "non-trivial = outside the threshold bands (|p - eps| relative 1e-3) and, where a count applies, at least 2 schedules/blocks; distinct = distinct case record")
    # flow.standard_run with this property's own translator tie (flow.regen_check is bound to gen/py2coq.py)
    import runner
    ok, info = runner.check_props(ctx)
    ok2, info2 = regen_model(ctx)
    tie_broken = not ok2
    if not ok2:
        ok, info = False, info2
        ctx.note("regenerated model (coq/gen/C19_Equiv.v) not discharged: %s" % str(info2)[:400])
        # the tie is broken: widen the differential sweep (towards the thorough-size generators) to find a concrete failing input
        ctx.n = lambda quick, thorough: max(quick, (4 * quick + thorough) // 5)
    if not ok:
        ctx.discharged = min(ctx.discharged, ctx.obligations - 1)
    for name, fn in SUBS:
        if ctx.only is None or name in ctx.only:
            fn(ctx)
    if not ok and not ctx.violations:
        if tie_broken:
            ctx.violation("theorems", "coq/gen/C19_Equiv.v", "translator-tie-broken:%s" % info.get("theorem"),
                          "the model regenerated from the current source is no longer proved equal to the hand-written model (%s) and the widened "
                          "differential sweep found no input on which the behaviour differs: %s" % (info.get("theorem"), info.get("error", "")[-400:]),
                          {"theorem": info.get("theorem"), "error": info.get("error")}, no_input=True)
        else:
            ctx.violation("theorems", "Props/%s.v" % ctx.prop_id, "theorem-broken:%s" % info.get("theorem"),
                          "theorem %s no longer checks: %s" % (info.get("theorem"), info.get("error", "")[-400:]),
                          {"theorem": info.get("theorem"), "error": info.get("error")}, no_input=True)
    elif not ok:
        ctx.note("theorem obligations not discharged: %s" % info)
    ctx.assumptions = [
        "np.linalg.pinv / matrix_rank inside calc_left_inv and np.linalg.inv inside calc_cramer_rao_bound are oracles: the left inverse is taken from the implementation and its certificate L A = I is evaluated exactly in the model (max residual <= 1e-9); the inverse Fisher matrix is recomputed by the harness, its certificate F M = I evaluated exactly (residual bound scaled with cond F), ill-conditioned cases (cond > 1e10) are counted and skipped",
        "matA / vecB are read from the implementation (their correctness is property C08); the true object enters through to_var()/to_stacked_vector() (property C03)",
        "Cramer-Rao: only the formula tr(F^-1)/N (+ the POVM correction) is checked, the Cramer-Rao inequality itself is textbook and not proved",
    ]


def replay(ctx, doc):
    flow.standard_replay(ctx, doc, FNS)
