"""C19 helpers: small tomography setups (all four types) with quara's typical testers or seeded random testers,
and seeded random physical true objects.  Everything here only PRODUCES inputs; nothing is trusted for a verdict."""
import random
import numpy as np

TYPES = {"qst": 0, "povmt": 1, "qpt": 2, "qmpt": 3}
_cache = {}


def c_sys_of(sysname):
    from quara.objects.composite_system_typical import generate_composite_system
    key = ("csys", sysname)
    if key not in _cache:
        _cache[key] = generate_composite_system("qubit", 2) if sysname == "2qubit" else generate_composite_system(sysname, 1)
    return _cache[key]


def basis_mats(c_sys):
    return [np.array(b.toarray() if hasattr(b, "toarray") else b, dtype=complex) for b in c_sys.basis()]


def op_to_vec(c_sys, X):
    """real coefficient vector of a Hermitian operator in the (orthonormal, Hermitian) basis of c_sys"""
    return np.array([np.trace(b.conj().T @ X).real for b in basis_mats(c_sys)], dtype=np.float64)


def rand_cmat(rnd, r, c, lo=-3, hi=3):
    return np.array([[complex(rnd.randint(lo, hi), rnd.randint(lo, hi)) for _ in range(c)] for _ in range(r)])


def rand_density(rnd, d, rank=None):
    rank = rank or d
    while True:
        L = rand_cmat(rnd, d, rank)
        rho = L @ L.conj().T
        if abs(np.trace(rho)) > 0.5:
            return rho / np.trace(rho).real


def rand_povm_ops(rnd, d, m):
    """m PSD operators summing to the identity (generic, full rank, asymmetric)"""
    Gs = []
    for _ in range(m):
        L = rand_cmat(rnd, d, d)
        Gs.append(L @ L.conj().T + 0.5 * np.eye(d))
    S = sum(Gs)
    w, U = np.linalg.eigh(S)
    Sm = U @ np.diag(w ** -0.5) @ U.conj().T
    Es = [Sm @ G @ Sm for G in Gs]
    return [(E + E.conj().T) / 2 for E in Es]


def rand_kraus(rnd, d, k):
    """k Kraus operators of a CPTP map (blocks of a random isometry)"""
    while True:
        Z = rand_cmat(rnd, k * d, d) + 0.25 * rand_cmat(rnd, k * d, d)
        if np.linalg.matrix_rank(Z) == d:
            break
    Q, _ = np.linalg.qr(Z)
    return [Q[i * d:(i + 1) * d, :] for i in range(k)]


def hs_of_kraus(c_sys, Ks):
    B = basis_mats(c_sys)
    n = len(B)
    hs = np.zeros((n, n))
    for a in range(n):
        for b in range(n):
            img = sum(K @ B[b] @ K.conj().T for K in Ks)
            hs[a, b] = np.trace(B[a].conj().T @ img).real
    return hs


def make_state(c_sys, rho, eq):
    from quara.objects.state import State
    return State(c_sys, op_to_vec(c_sys, rho), is_physicality_required=False, on_para_eq_constraint=eq)


def make_povm(c_sys, Es, eq):
    from quara.objects.povm import Povm
    return Povm(c_sys, [op_to_vec(c_sys, E) for E in Es], is_physicality_required=False, on_para_eq_constraint=eq)


def make_gate(c_sys, Ks, eq):
    from quara.objects.gate import Gate
    return Gate(c_sys, hs_of_kraus(c_sys, Ks), is_physicality_required=False, on_para_eq_constraint=eq)


def make_mprocess(c_sys, Kss, eq):
    from quara.objects.mprocess import MProcess
    return MProcess(c_sys, [hs_of_kraus(c_sys, Ks) for Ks in Kss], is_physicality_required=False, on_para_eq_constraint=eq)


def recreate(obj, eq):
    from quara.data_analysis.data_analysis import _recreate_qoperation
    return _recreate_qoperation(obj, on_para_eq_constraint=eq)


TYPICAL = {
    "qubit": {"povms": ["x", "y", "z"], "states": ["x0", "y0", "z0", "z1"]},
    "qutrit": {"povms": ["01x3", "01y3", "z3", "12x3", "12y3", "02x3", "02y3"],
               "states": ["01z0", "12z0", "02z1", "01x0", "01y0", "12x0", "12y0", "02x0", "02y0"]},
}


def tester_povms(sysname, spec):
    """spec: ["typical"] or ["random", seed, count, outcomes] or ["mixed", seed, [outcomes, ...]] or ["names", [...]]"""
    from quara.objects.tester_typical import generate_tester_povms
    c = c_sys_of(sysname)
    if spec[0] == "typical":
        return generate_tester_povms(c, TYPICAL[sysname]["povms"])
    if spec[0] == "names":
        return generate_tester_povms(c, list(spec[1]))
    rnd = random.Random(spec[1])
    if spec[0] == "mixed":      # ["mixed", seed, [outcome counts]] : tester POVMs with DIFFERENT numbers of outcomes
        return [make_povm(c, rand_povm_ops(rnd, c.dim, mo), True) for mo in spec[2]]
    return [make_povm(c, rand_povm_ops(rnd, c.dim, spec[3]), True) for _ in range(spec[2])]


def tester_states(sysname, spec):
    from quara.objects.tester_typical import generate_tester_states
    c = c_sys_of(sysname)
    if spec[0] == "typical":
        return generate_tester_states(c, TYPICAL[sysname]["states"])
    if spec[0] == "names":
        return generate_tester_states(c, list(spec[1]))
    rnd = random.Random(spec[1])
    return [make_state(c, rand_density(rnd, c.dim), True) for _ in range(spec[2])]


def make_schedules(kind, sched):
    """sched: None (= "all") or a list - QST: tester POVM indices; POVMT: tester state indices; QPT / QMPT: [state index, POVM index] pairs.
    user-defined schedules may permute, repeat or leave out testers"""
    if sched is None:
        return "all"
    if kind == "qst":
        return [[("state", 0), ("povm", int(j))] for j in sched]
    if kind == "povmt":
        return [[("state", int(i)), ("povm", 0)] for i in sched]
    mid = "gate" if kind == "qpt" else "mprocess"
    return [[("state", int(i)), (mid, 0), ("povm", int(j))] for i, j in sched]


def build_tomo(kind, sysname, eq, tst_states, tst_povms, mo, fresh=False, sched=None):
    """returns the quara tomography object (cached unless fresh=True: then a NEW object nobody has called yet).
    mo = number of outcomes of the estimated POVM / MProcess."""
    key = ("tomo", kind, sysname, bool(eq), repr(tst_states), repr(tst_povms), mo, repr(sched))
    if key in _cache and not fresh:
        return _cache[key]
    from quara.protocol.qtomography.standard.standard_qst import StandardQst
    from quara.protocol.qtomography.standard.standard_povmt import StandardPovmt
    from quara.protocol.qtomography.standard.standard_qpt import StandardQpt
    from quara.protocol.qtomography.standard.standard_qmpt import StandardQmpt
    if kind == "qst":
        t = StandardQst(tester_povms(sysname, tst_povms), on_para_eq_constraint=eq, schedules=make_schedules(kind, sched))
    elif kind == "povmt":
        t = StandardPovmt(tester_states(sysname, tst_states), num_outcomes=mo, on_para_eq_constraint=eq, schedules=make_schedules(kind, sched))
    elif kind == "qpt":
        t = StandardQpt(tester_states(sysname, tst_states), tester_povms(sysname, tst_povms), on_para_eq_constraint=eq, schedules=make_schedules(kind, sched))
    else:
        t = StandardQmpt(tester_states(sysname, tst_states), tester_povms(sysname, tst_povms), num_outcomes=mo, on_para_eq_constraint=eq, schedules=make_schedules(kind, sched))
    if not fresh:
        _cache[key] = t
    return t


NAMED_TRUTHS = {
    "qst": {"qubit": ["z0", "a", "x1"], "qutrit": ["01z0", "02x0"]},
    "povmt": {"qubit": ["z", "x"], "qutrit": ["z3", "01x3"]},
    "qpt": {"qubit": ["hadamard", "identity", "x90"]},
    "qmpt": {"qubit": ["z-type1", "x-type2"]},
}
MODE = {"qst": "state", "povmt": "povm", "qpt": "gate", "qmpt": "mprocess"}


def build_truth(kind, sysname, eq, mo, truth):
    """truth: ["random", seed] or ["named", name]"""
    c = c_sys_of(sysname)
    d = c.dim
    if truth[0] == "named":
        from quara.objects.qoperation_typical import generate_qoperation
        return recreate(generate_qoperation(MODE[kind], truth[1], c), eq)
    rnd = random.Random(truth[1])
    if kind == "qst":
        return make_state(c, rand_density(rnd, d, rank=rnd.choice([d, d, max(1, d - 1)])), eq)
    if kind == "povmt":
        return make_povm(c, rand_povm_ops(rnd, d, mo), eq)
    if kind == "qpt":
        return make_gate(c, rand_kraus(rnd, d, rnd.choice([1, 2, 3])), eq)
    k = rnd.choice([mo, mo + 1, 2 * mo])
    Ks = rand_kraus(rnd, d, k)
    groups = [[] for _ in range(mo)]
    for i, K in enumerate(Ks):
        groups[i % mo].append(K)
    return make_mprocess(c, groups, eq)


def perturbed(kind, obj, eq, seed, delta):
    """a NEW object of the same type whose data differ from obj's by delta * (seeded direction with entries in [-1, 1]), inside
    the equality constraint (trace / identity sum / first HS row(s) unchanged); delta = 0 gives an exact copy.
    Built with the constructors (is_physicality_required=False), never with the code under test."""
    from quara.objects.state import State
    from quara.objects.povm import Povm
    from quara.objects.gate import Gate
    from quara.objects.mprocess import MProcess
    rnd = random.Random(seed)
    c = obj.composite_system

    def direction(shape):
        return np.array([rnd.randint(-8, 8) / 8.0 for _ in range(int(np.prod(shape)))], dtype=np.float64).reshape(shape)

    if kind == "qst":
        d = direction(obj.vec.shape); d[0] = 0.0
        return State(c, np.array(obj.vec, dtype=np.float64) + delta * d, is_physicality_required=False, on_para_eq_constraint=eq)
    if kind == "povmt":
        vecs = [np.array(v, dtype=np.float64) for v in obj.vecs]
        d = direction(vecs[0].shape)
        vecs[0] = vecs[0] + delta * d; vecs[1] = vecs[1] - delta * d
        return Povm(c, vecs, is_physicality_required=False, on_para_eq_constraint=eq)
    if kind == "qpt":
        d = direction(obj.hs.shape); d[0, :] = 0.0
        return Gate(c, np.array(obj.hs, dtype=np.float64) + delta * d, is_physicality_required=False, on_para_eq_constraint=eq)
    hss = [np.array(h, dtype=np.float64) for h in obj.hss]
    d = direction(hss[0].shape); d[0, :] = 0.0
    hss[0] = hss[0] + delta * d
    return MProcess(c, hss, is_physicality_required=False, on_para_eq_constraint=eq)
