"""C16 — outcome-probability bookkeeping."""
import itertools
from fractions import Fraction
import numpy as np
from common import flow
from common.model import ModelError

LEVEL = "proof"


# ------------------------------------------------------------------ index maps (exhaustive sweep)
def shapes(max_vars, max_val):
    for r in range(0, max_vars + 1):
        for sh in itertools.product(range(1, max_val + 1), repeat=r):
            yield list(sh)


def chk_index_shape(ctx, case):
    from quara.utils import index_util as iu
    m = ctx.get_model()
    sh = case["shape"]
    total = int(np.prod(sh)) if sh else 1
    seen = set()
    for k in range(total):
        impl = list(iu.index_multi_dimensional_from_index_serial(sh, k))
        mod = [int(x) for x in m.call("idx.multi_from_serial", [k] + sh)]
        ok_range = len(impl) == len(sh) and all(0 <= a < n for a, n in zip(impl, sh))
        back = iu.index_serial_from_index_multi_dimensional(sh, tuple(impl))
        rowmajor = sum(x * int(np.prod(sh[i + 1:])) for i, x in enumerate(impl))
        back_m = int(m.call("idx.serial_from_multi", [len(sh)] + sh + impl)[0])
        seen.add(tuple(impl))
        ctx.count("index_maps", key=(tuple(sh), k), nontrivial=len(sh) >= 2 and total > 1)
        if impl != mod or back != back_m:
            ctx.violation("index_maps", "index_util", "model-mismatch", "index maps differ from model at shape %s k=%d: impl %s/%s model %s/%s" % (sh, k, impl, back, mod, back_m),
                          {"shape": sh, "k": k})
        elif not ok_range or back != k or rowmajor != k:
            ctx.violation("index_maps", "index_util", "not-inverse-rowmajor", "shape %s k=%d -> %s -> %s (row-major %s)" % (sh, k, impl, back, rowmajor), {"shape": sh, "k": k})
    if len(seen) != total:
        ctx.violation("index_maps", "index_util", "not-bijective", "shape %s: %d distinct multi-indices for %d serials" % (sh, len(seen), total), {"shape": sh})
    # error branch: length mismatch must raise ValueError
    for bad in ([0] * (len(sh) + 1), [0] * max(0, len(sh) - 1)):
        if len(bad) == len(sh):
            continue
        try:
            iu.index_serial_from_index_multi_dimensional(sh, tuple(bad)); impl_err = False
        except ValueError:
            impl_err = True
        st, _ = m.try_call("idx.serial_from_multi", [len(sh)] + sh + bad)
        ctx.count("index_maps", key=(tuple(sh), "mismatch", len(bad)), nontrivial=False)
        if impl_err != (st == "err"):
            ctx.violation("index_maps", "index_util", "error-branch", "length mismatch handling differs at shape %s idx %s" % (sh, bad), {"shape": sh, "bad": bad})


def sub_index_maps(ctx):
    mv, mx = (4, 4) if ctx.quick else (4, 5)
    cases = [{"shape": sh} for sh in shapes(mv, mx)]
    ctx.sample("index_maps", cases[len(cases) // 2])
    ctx.run_cases("index_maps", chk_index_shape, cases)
    ctx.note("index maps: all shapes with <= %d variables of 1..%d values enumerated exhaustively (%d shapes)" % (mv, mx, len(cases)))


# ------------------------------------------------------------------ distributions
def rand_tensor(rng, shape, zeros=True):
    n = int(np.prod(shape)) if shape else 1
    w = []
    for _ in range(n):
        r = rng.random()
        if zeros and r < 0.2:
            w.append(Fraction(0))
        elif zeros and r < 0.3:
            w.append(Fraction(rng.randint(1, 9), 10 ** 10))     # sub-threshold entry
        else:
            w.append(Fraction(rng.randint(1, 40)))
    s = sum(w)
    if s == 0:
        w[0] = Fraction(1); s = Fraction(1)
    big = sum(x for x in w if x >= 1)
    if big == 0:
        w[0] = Fraction(1); big = 1
    # normalise so that the >= 1 weights carry the mass; sub-threshold entries stay tiny
    return [x / big if x >= 1 else x for x in w]


def dist_to_model(shape, ps):
    return [len(shape)] + list(shape), [float(p) for p in ps]


def parse_dist(vals):
    n = int(vals[0]); sh = [int(v) for v in vals[1:1 + n]]
    return sh, bool(int(vals[1 + n])), [float(v) for v in vals[2 + n:]]


ERRMAP = {1: "ValueError", 2: "ValueError", 3: "ValueError", 4: "ValueError", 5: "KeyError", 6: "ValueError", 7: "ValueError", 8: "ValueError", 9: "IndexError", 10: "TypeError"}


def chk_dist(ctx, case):
    from quara.objects.multinomial_distribution import MultinomialDistribution as MD
    import warnings
    m = ctx.get_model()
    shape = case["shape"]; ps = [float(Fraction(p)) for p in case["ps"]]
    # --- constructor
    try:
        with warnings.catch_warnings():
            warnings.simplefilter("ignore")
            d = MD(np.array(ps, dtype=float), shape=tuple(shape))
        impl = ("ok", d)
    except Exception as e:
        impl = ("err", type(e).__name__)
    st, val = m.try_call("md.construct", [1, len(shape)] + shape, [1e-8] + ps)
    ctx.count("dist", key=("construct", tuple(shape), tuple(case["ps"])), label="construct-" + st)
    if st == "err":
        if impl[0] != "err" or impl[1] != ERRMAP.get(val):
            ctx.violation("dist", "MultinomialDistribution.__init__", "error-kind", "model rejects with %s, implementation %s" % (val, impl), case)
        return
    if impl[0] == "err":
        ctx.violation("dist", "MultinomialDistribution.__init__", "unexpected-raise", "implementation raised %s, model accepts" % impl[1], case)
        return
    sh_m, zero_m, ps_m = parse_dist(val)
    if list(d.shape) != sh_m or bool(d.is_zero_dist) != zero_m or not flow.allclose(list(d.ps), ps_m, 1e-12):
        ctx.violation("dist", "MultinomialDistribution.__init__", "value", "constructor output differs: impl %s model %s" % (list(d.ps), ps_m), case)
        return
    if not zero_m and (abs(sum(d.ps) - 1) > 1e-7 or min(d.ps) < 0):
        ctx.violation("dist", "MultinomialDistribution.__init__", "not-normalised", "ps=%s" % list(d.ps), case)
    base_ps = [float(x) for x in d.ps]
    # --- getitem on every multi-index
    for idx in itertools.product(*[range(n) for n in shape]):
        v = float(m.call("md.getitem", [len(shape)] + shape + [len(idx)] + list(idx), base_ps)[0])
        ctx.count("dist", key=("getitem", tuple(shape), tuple(case["ps"]), idx), nontrivial=False)
        if float(d[tuple(idx)]) != v:
            ctx.violation("dist", "MultinomialDistribution.__getitem__", "value", "d[%s]=%s model %s" % (idx, d[tuple(idx)], v), dict(case, idx=list(idx)))
    # --- marginals for the listed subsets / orders
    for rem in case["remains"]:
        try:
            with warnings.catch_warnings():
                warnings.simplefilter("ignore")
                md = d.marginalize(list(rem)); impl = ("ok", md)
        except Exception as e:
            impl = ("err", type(e).__name__)
        st, val = m.try_call("md.marginalize", [len(shape)] + shape + [len(rem)] + list(rem), base_ps)
        ctx.count("dist", key=("marg", tuple(shape), tuple(case["ps"]), tuple(rem)), label="marg-" + st, nontrivial=len(shape) >= 2)
        sub = dict(case, remains=[list(rem)])
        if st == "err":
            if impl[0] != "err" or impl[1] != ERRMAP.get(val):
                ctx.violation("dist", "MultinomialDistribution.marginalize", "error-kind", "remain=%s model err %s impl %s" % (rem, val, impl), sub)
            continue
        if impl[0] == "err":
            ctx.violation("dist", "MultinomialDistribution.marginalize", "unexpected-raise", "remain=%s impl raised %s" % (rem, impl[1]), sub)
            continue
        sh_m, zero_m, ps_m = parse_dist(val)
        if list(md.shape) != sh_m or not flow.allclose(list(md.ps), ps_m, 1e-12):
            ctx.violation("dist", "MultinomialDistribution.marginalize", "value", "remain=%s impl %s %s model %s %s" % (rem, md.shape, list(md.ps), sh_m, ps_m), sub)
            continue
        # property: marginal = sum over removed variables (independent of listing order), normalised
        full = np.array(base_ps).reshape(shape) if shape else np.array(base_ps)
        keep = sorted(set(rem))
        expect = np.zeros([shape[a] for a in keep])
        for idx in itertools.product(*[range(n) for n in shape]):
            expect[tuple(idx[a] for a in keep)] += full[idx]
        e = expect.ravel()
        e = np.where(e < 1e-8, 0.0, e)
        if e.sum() > 0:
            e = e / e.sum()
        if not flow.allclose(list(md.ps), list(e), 1e-9):
            ctx.violation("dist", "MultinomialDistribution.marginalize", "not-sum-over-removed", "remain=%s got %s expected %s" % (rem, list(md.ps), list(e)), sub)
    # --- conditionals
    for idxs, vals in case["conds"]:
        try:
            with warnings.catch_warnings():
                warnings.simplefilter("ignore")
                cd = d.conditionalize(list(idxs), list(vals)); impl = ("ok", cd)
        except Exception as e:
            impl = ("err", type(e).__name__)
        st, val = m.try_call("md.conditionalize", [len(shape)] + shape + [len(idxs)] + list(idxs) + [len(vals)] + list(vals), base_ps)
        ctx.count("dist", key=("cond", tuple(shape), tuple(case["ps"]), tuple(idxs), tuple(vals)), label="cond-" + st, nontrivial=len(shape) >= 2)
        sub = dict(case, conds=[[list(idxs), list(vals)]], remains=[])
        if st == "err":
            if impl[0] != "err" or impl[1] != ERRMAP.get(val):
                ctx.violation("dist", "MultinomialDistribution.conditionalize", "error-kind", "cond=%s|%s model err %s impl %s" % (idxs, vals, val, impl), sub)
            continue
        if impl[0] == "err":
            ctx.violation("dist", "MultinomialDistribution.conditionalize", "unexpected-raise", "cond=%s|%s impl raised %s" % (idxs, vals, impl[1]), sub)
            continue
        sh_m, zero_m, ps_m = parse_dist(val)
        if list(cd.shape) != sh_m or not flow.allclose(list(cd.ps), ps_m, 1e-10):
            ctx.violation("dist", "MultinomialDistribution.conditionalize", "value", "cond=%s|%s impl %s %s model %s %s" % (idxs, vals, cd.shape, list(cd.ps), sh_m, ps_m), sub)
            continue
        # property: joint = marginal x conditional (distinct axes, marginal non-zero, above threshold)
        if len(set(idxs)) == len(idxs) and len(idxs) < len(shape):
            try:
                with warnings.catch_warnings():
                    warnings.simplefilter("ignore")
                    mg = d.marginalize(list(idxs))
            except Exception:
                continue
            order = sorted(range(len(idxs)), key=lambda t: idxs[t])
            pm = float(mg[tuple(vals[t] for t in order)]) if len(idxs) > 1 else float(mg[int(vals[0])])
            free = [a for a in range(len(shape)) if a not in idxs]
            bad = False
            for fidx in itertools.product(*[range(shape[a]) for a in free]):
                fullidx = [0] * len(shape)
                for a, v in zip(idxs, vals):
                    fullidx[a] = v
                for a, v in zip(free, fidx):
                    fullidx[a] = v
                joint = float(d[tuple(fullidx)])
                c = float(cd[tuple(fidx)]) if len(fidx) > 1 else float(cd[int(fidx[0])])
                if joint >= 1e-7 and c * pm >= 1e-7 and abs(joint - pm * c) > 1e-7:
                    bad = True
            if bad:
                ctx.violation("dist", "MultinomialDistribution.conditionalize", "joint-neq-marginal-times-conditional", "cond=%s|%s" % (idxs, vals), sub)


def gen_dist_cases(ctx, n):
    rng = ctx.rng
    cases = []
    for i in range(n):
        r = rng.choice([1, 2, 2, 3, 3, 4])
        shape = [rng.randint(1, 4 if r < 4 else 3) for _ in range(r)]
        ps = rand_tensor(rng, shape, zeros=rng.random() < 0.7)
        axes = list(range(r))
        remains = []
        for k in range(0, r + 1):
            for comb in itertools.combinations(axes, k):
                remains.append(list(comb))
                if k >= 2 and rng.random() < 0.5:
                    p = list(comb); rng.shuffle(p); remains.append(p)
        rng.shuffle(remains); remains = remains[:6]
        if rng.random() < 0.15:
            remains.append([r])            # out of range
        if rng.random() < 0.1 and r >= 1:
            remains.append([0, 0])         # duplicate
        if rng.random() < 0.1:
            remains.append([-1])
        conds = []
        for _ in range(4):
            k = rng.randint(0, max(0, r - 1)) if r > 1 else rng.randint(0, 1)
            idxs = rng.sample(axes, k)
            vals = [rng.randrange(shape[a]) for a in idxs]
            conds.append([idxs, vals])
        if rng.random() < 0.1 and r >= 1:
            conds.append([[0], [shape[0]]])          # value out of range
        if rng.random() < 0.1:
            conds.append([[0, 1][:r], [0]])          # length mismatch (when r>=2)
        if rng.random() < 0.1:
            conds.append([[-1], [0]])
        cases.append({"shape": shape, "ps": ["%d/%d" % (p.numerator, p.denominator) for p in ps], "remains": remains, "conds": conds})
    # malformed stream for the constructor
    for _ in range(max(3, n // 20)):
        shape = [2, 2]
        ps = [Fraction(1, 4)] * 4
        kind = rng.choice(["neg", "sum", "size", "allzero"])
        if kind == "neg":
            ps = [Fraction(-1, 10), Fraction(6, 10), Fraction(1, 4), Fraction(1, 4)]
        elif kind == "sum":
            ps = [Fraction(1, 4), Fraction(1, 4), Fraction(1, 4), Fraction(1, 2)]
        elif kind == "size":
            shape = [2, 3]
        else:
            ps = [Fraction(0)] * 3 + [Fraction(1, 10 ** 10)]
        cases.append({"shape": shape, "ps": ["%d/%d" % (p.numerator, p.denominator) for p in ps], "remains": [[0]] if kind == "allzero" else [], "conds": []})
    return cases


def sub_dist(ctx):
    cases = gen_dist_cases(ctx, ctx.n(150, 1500))
    ctx.sample("dist", cases[0])
    ctx.run_cases("dist", chk_dist, cases)


# ------------------------------------------------------------------ ensembles
def chk_ensemble(ctx, case):
    """StateEnsemble.state(multi-index) addresses the same entry as prob_dist[multi-index]"""
    from quara.objects.state_ensemble import StateEnsemble
    from quara.objects.multinomial_distribution import MultinomialDistribution as MD
    m = ctx.get_model()
    shape = case["shape"]
    n = int(np.prod(shape))
    ps = np.full(n, 1.0 / n)

    class Tag:  # stands in for a State: only identity matters here
        def __init__(self, k): self.k = k
    states = [Tag(k) for k in range(n)]
    se = StateEnsemble(states, MD(ps, shape=tuple(shape)))
    for idx in itertools.product(*[range(s) for s in shape]):
        k_impl = se.state(tuple(idx)).k
        k_model = int(m.call("idx.serial_from_multi", [len(shape)] + shape + list(idx))[0])
        ctx.count("ensemble", key=(tuple(shape), idx), nontrivial=len(shape) >= 2)
        if k_impl != k_model:
            ctx.violation("ensemble", "StateEnsemble.state", "layout", "state(%s) is entry %d, distribution index is %d" % (idx, k_impl, k_model), dict(case, idx=list(idx)))


def sub_ensemble(ctx):
    cases = [{"shape": sh} for sh in shapes(3, 4) if len(sh) >= 1]
    ctx.sample("ensemble", cases[-1])
    ctx.run_cases("ensemble", chk_ensemble, cases)


# ------------------------------------------------------------------ ensembles produced by measurements
def _rand_unitary(rs, d):
    a = rs.normal(size=(d, d)) + 1j * rs.normal(size=(d, d))
    q, r = np.linalg.qr(a)
    return q * (np.diag(r) / np.abs(np.diag(r)))


def _instrument(rs, d, m):
    """m-outcome instrument with one Kraus operator per outcome: K_x = U_x sqrt(E_x), sum E_x = I, generic"""
    g = [(lambda a: a @ a.conj().T)(rs.normal(size=(d, d)) + 1j * rs.normal(size=(d, d))) for _ in range(m)]
    s = sum(g)
    w, v = np.linalg.eigh(s)
    sinv = v @ np.diag(w ** -0.5) @ v.conj().T
    ks = []
    for a in g:
        e = sinv @ a @ sinv
        w2, v2 = np.linalg.eigh(e)
        ks.append(_rand_unitary(rs, d) @ (v2 @ np.diag(np.sqrt(np.clip(w2, 0, None))) @ v2.conj().T))
    return ks


def chk_ensemble_mprocess(ctx, case):
    """a state measured once / twice by instruments with DIFFERENT outcome counts: the ensemble's distribution
    and states must be laid out by the same (row-major, earlier measurement first) multi-index"""
    from quara.objects.composite_system_typical import generate_composite_system
    from quara.objects.operators import compose_qoperations
    from quara.objects.mprocess import MProcess
    from quara.objects.state import State
    from quara.objects.gate import to_hs_from_kraus_matrices
    m = ctx.get_model()
    rs = np.random.RandomState(case["seed"])
    kind, d = case["sys"], (2 if case["sys"] == "qubit" else 3)
    c = generate_composite_system(kind, 1)
    a = rs.normal(size=(d, d)) + 1j * rs.normal(size=(d, d))
    rho = a @ a.conj().T; rho /= np.trace(rho).real
    from quara.objects.state import to_vec_from_density_matrix_with_sparsity
    st = State(c, to_vec_from_density_matrix_with_sparsity(c, rho).real.astype(float), is_physicality_required=False)
    chains = [_instrument(rs, d, n) for n in case["counts"]]
    mps = [MProcess(c, [to_hs_from_kraus_matrices(c, [k]) for k in ks], is_physicality_required=False) for ks in chains]
    ens = compose_qoperations(mps[0], st)
    for mp in mps[1:]:
        ens = compose_qoperations(mp, ens)
    shape = list(case["counts"])
    if list(ens.prob_dist.shape) != shape:
        ctx.violation("ensemble_mprocess", "compose MProcess on state/ensemble", "shape", "ensemble shape %s, expected %s" % (ens.prob_dist.shape, shape), case)
        return
    for idx in itertools.product(*[range(n) for n in shape]):
        x = rho
        for ks, i in zip(chains, idx):
            x = ks[i] @ x @ ks[i].conj().T
        p = np.trace(x).real
        k_model = int(m.call("idx.serial_from_multi", [len(shape)] + shape + list(idx))[0])
        ctx.count("ensemble_mprocess", key=(case["seed"], tuple(shape), idx), nontrivial=len(shape) >= 2 and len(set(shape)) > 1)
        got_p = float(ens.prob_dist[tuple(idx)]) if len(idx) > 1 else float(ens.prob_dist[int(idx[0])])
        if abs(got_p - p) > 1e-9 or abs(float(ens.prob_dist.ps[k_model]) - p) > 1e-9:
            ctx.violation("ensemble_mprocess", "compose MProcess on state/ensemble", "probability-layout", "outcome %s: probability %s (flat entry %s), Born rule gives %s" % (idx, got_p, ens.prob_dist.ps[k_model], p), dict(case, idx=list(idx)))
            continue
        if p > 1e-6:
            post = x / p
            got = ens.state(tuple(idx) if len(idx) > 1 else int(idx[0])).to_density_matrix()
            got2 = ens.states[k_model].to_density_matrix()
            if np.abs(got - post).max() > 1e-8 or np.abs(got2 - post).max() > 1e-8:
                ctx.violation("ensemble_mprocess", "compose MProcess on state/ensemble", "state-layout", "outcome %s: post-measurement state differs from K rho K^dag / p by %.3g" % (idx, np.abs(got - post).max()), dict(case, idx=list(idx)))


def sub_ensemble_mprocess(ctx):
    cases = []
    for i in range(ctx.n(24, 200)):
        counts = ctx.rng.choice([[2], [3], [2, 3], [3, 2], [2, 4], [4, 3], [3, 2, 2], [2, 3, 4]][: (5 if ctx.quick else 8)])
        cases.append({"seed": ctx.rng.randrange(10 ** 6), "sys": ctx.rng.choice(["qubit", "qubit", "qutrit"]), "counts": counts})
    ctx.sample("ensemble_mprocess", cases[0])
    ctx.run_cases("ensemble_mprocess", chk_ensemble_mprocess, cases)


SUBS = [("index_maps", sub_index_maps), ("dist", sub_dist), ("ensemble", sub_ensemble), ("ensemble_mprocess", sub_ensemble_mprocess)]
FNS = {"index_maps": chk_index_shape, "dist": chk_dist, "ensemble": chk_ensemble, "ensemble_mprocess": chk_ensemble_mprocess}


def run(ctx):
    ctx.rule = ("index maps: exhaustive enumeration of shapes x serial indices, implementation vs extracted Coq model and vs the "
                "row-major/inverse predicates; distributions: seeded random tensors with exact zeros and sub-threshold entries, "
                "all listed subsets/orders of retained axes and conditioning assignments, plus a malformed stream; "
                "non-trivial = at least two variables (rank >= 2), distinct = distinct (shape, data, query)")
    flow.standard_run(ctx, SUBS, regens=[("index_util", "C16_Equiv")])


def replay(ctx, doc):
    flow.standard_replay(ctx, doc, FNS)
