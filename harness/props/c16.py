"""C16 — outcome-probability bookkeeping."""
import itertools, re
from fractions import Fraction
import numpy as np
from common import flow
from common.model import ModelError

LEVEL = "proof"


# ------------------------------------------------------------------ index maps (exhaustive sweep)
def shapes(max_vars, max_val):
    for r in range(0, max_vars + 1):
        for sh in itertools.product(range(1, max_val + 1), repeat=r):
            yield list(sh)


def chk_index_shape(ctx, case):
    from quara.utils import index_util as iu
    m = ctx.get_model()
    sh = case["shape"]
    total = int(np.prod(sh)) if sh else 1
    seen = set()
    for k in range(total):
        impl = list(iu.index_multi_dimensional_from_index_serial(sh, k))
        mod = [int(x) for x in m.call("idx.multi_from_serial", [k] + sh)]
        ok_range = len(impl) == len(sh) and all(0 <= a < n for a, n in zip(impl, sh))
        back = iu.index_serial_from_index_multi_dimensional(sh, tuple(impl))
        rowmajor = sum(x * int(np.prod(sh[i + 1:])) for i, x in enumerate(impl))
        back_m = int(m.call("idx.serial_from_multi", [len(sh)] + sh + impl)[0])
        seen.add(tuple(impl))
        ctx.count("index_maps", key=(tuple(sh), k), nontrivial=len(sh) >= 2 and total > 1)
        if impl != mod or back != back_m:
            ctx.violation("index_maps", "index_util", "model-mismatch", "index maps differ from model at shape %s k=%d: impl %s/%s model %s/%s" % (sh, k, impl, back, mod, back_m),
                          {"shape": sh, "k": k})
        elif not ok_range or back != k or rowmajor != k:
            ctx.violation("index_maps", "index_util", "not-inverse-rowmajor", "shape %s k=%d -> %s -> %s (row-major %s)" % (sh, k, impl, back, rowmajor), {"shape": sh, "k": k})
    if len(seen) != total:
        ctx.violation("index_maps", "index_util", "not-bijective", "shape %s: %d distinct multi-indices for %d serials" % (sh, len(seen), total), {"shape": sh})
    # error branch: length mismatch must raise ValueError
    for bad in ([0] * (len(sh) + 1), [0] * max(0, len(sh) - 1)):
        if len(bad) == len(sh):
            continue
        try:
            iu.index_serial_from_index_multi_dimensional(sh, tuple(bad)); impl_err = False
        except ValueError:
            impl_err = True
        st, _ = m.try_call("idx.serial_from_multi", [len(sh)] + sh + bad)
        ctx.count("index_maps", key=(tuple(sh), "mismatch", len(bad)), nontrivial=False)
        if impl_err != (st == "err"):
            ctx.violation("index_maps", "index_util", "error-branch", "length mismatch handling differs at shape %s idx %s" % (sh, bad), {"shape": sh, "bad": bad})


def sub_index_maps(ctx):
    mv, mx = (4, 4) if ctx.quick else (4, 5)
    cases = [{"shape": sh} for sh in shapes(mv, mx)]
    ctx.sample("index_maps", cases[len(cases) // 2])
    ctx.run_cases("index_maps", chk_index_shape, cases)
    ctx.note("index maps: all shapes with <= %d variables of 1..%d values enumerated exhaustively (%d shapes)" % (mv, mx, len(cases)))


# ------------------------------------------------------------------ distributions
def rand_tensor(rng, shape, zeros=True):
    n = int(np.prod(shape)) if shape else 1
    w = []
    for _ in range(n):
        r = rng.random()
        if zeros and r < 0.2:
            w.append(Fraction(0))
        elif zeros and r < 0.3:
            w.append(Fraction(rng.randint(1, 9), 10 ** 10))     # sub-threshold entry
        else:
            w.append(Fraction(rng.randint(1, 40)))
    s = sum(w)
    if s == 0:
        w[0] = Fraction(1); s = Fraction(1)
    big = sum(x for x in w if x >= 1)
    if big == 0:
        w[0] = Fraction(1); big = 1
    # normalise so that the >= 1 weights carry the mass; sub-threshold entries stay tiny
    return [x / big if x >= 1 else x for x in w]


def dist_to_model(shape, ps):
    return [len(shape)] + list(shape), [float(p) for p in ps]


def parse_dist(vals):
    n = int(vals[0]); sh = [int(v) for v in vals[1:1 + n]]
    return sh, bool(int(vals[1 + n])), [float(v) for v in vals[2 + n:]]


ERRMAP = {1: "ValueError", 2: "ValueError", 3: "ValueError", 4: "ValueError", 5: "KeyError", 6: "ValueError", 7: "ValueError", 8: "ValueError", 9: "IndexError", 10: "TypeError"}


def ctx_routes_done(ctx, case):
    """two-route comparisons are run for the random tensors only (boundary cases sit ON thresholds by construction)"""
    return str(case.get("label", "")).startswith("boundary")


class _Opaque:
    """an index argument of an unrelated type"""


def index_probe(ctx, sub, site, get, shape, seq, case, rng_seed):
    """__getitem__ / state with EVERY kind of argument, as coded: ints (incl. negative = counted from the end, IndexError
    outside), tuples (in range: covered by the caller; here wrong rank -> ValueError, components outside their range -> NOT
    checked by the code: another entry or IndexError), other types (TypeError) — implementation vs the model's index_get"""
    import random
    m = ctx.get_model()
    rr = random.Random(rng_seed)
    n = len(seq)
    args = [("int", i) for i in range(-n - 2, n + 2)]
    rank = len(shape)
    args += [("tuple", tuple([0] * (rank + 1))), ("tuple", tuple([0] * max(0, rank - 1))), ("tuple", ())]
    for _ in range(6):
        t = [rr.randrange(k) for k in shape]
        if rank:
            a = rr.randrange(rank)
            t[a] = rr.choice([shape[a], shape[a] + 1, -1, -shape[a], -shape[a] - 1, 2 * shape[a]])
        args.append(("tuple", tuple(t)))
    args += [("other", None), ("other", 1.0), ("other", [0] * rank), ("other", "0"), ("other", True), ("other", np.int64(0)), ("other", _Opaque())]
    for kind, a in args:
        try:
            impl = ("ok", float(get(a)))
        except Exception as e:
            impl = ("err", type(e).__name__)
        if kind == "int":
            zs = [0, 1, a]
        elif kind == "tuple":
            zs = [1, len(a)] + list(a)
        else:
            zs = [2, 0]
        st, val = m.try_call("md.index_get", [len(shape)] + list(shape) + zs, seq)
        mod = ("ok", float(val[0])) if st == "ok" else ("err", ERRMAP.get(val))
        ctx.count(sub, key=("index", tuple(shape), n, kind, repr(a)), nontrivial=False, label="index-%s-%s" % (kind, mod[0]))
        if impl != mod:
            ctx.violation(sub, site, "index-argument", "argument %r on shape %s: implementation %s, model %s" % (a, shape, impl, mod), dict(case, index_arg=repr(a)))


def pd_probe(ctx, legacy, noshape, shape, seq, case):
    """legacy ProbDist.__getitem__ as translated (probdist_get): ints, full / partial / too long tuples, components out of range or
    negative (range-checked and wrapped PER AXIS here, unlike MultinomialDistribution), other types, and an object without a shape"""
    import random
    m = ctx.get_model()
    rr = random.Random(len(seq) * 11 + len(shape))
    n, rank = len(seq), len(shape)
    args = [("int", i) for i in (-n - 1, -n, -1, 0, n - 1, n)]
    full = tuple(rr.randrange(k) for k in shape)
    args += [("tuple", full[:r]) for r in range(rank + 1)] + [("tuple", full + (0,))]
    for _ in range(4):
        t = [rr.randrange(k) for k in shape]
        a = rr.randrange(rank)
        t[a] = rr.choice([shape[a], -1, -shape[a], -shape[a] - 1])
        args.append(("tuple", tuple(t)))
    args += [("other", None), ("other", 1.0), ("other", [0] * rank)]
    for obj, has_shape in ((legacy, 1), (noshape, 0)):
        for kind, a in (args if has_shape else args[:3] + [("tuple", full), ("other", None)]):
            try:
                r = obj[a]
                arr = np.asarray(r, dtype=float)
                impl = ("ok", list(arr.shape), [float(x) for x in arr.ravel()])
            except Exception as e:
                impl = ("err", type(e).__name__)
            zs = [0, 1, a] if kind == "int" else ([1, len(a)] + list(a) if kind == "tuple" else [2, 0])
            st, val = m.try_call("pd.getitem", [has_shape, len(shape)] + list(shape) + zs, seq)
            if st == "ok":
                r_ = int(val[0]); mod = ("ok", [int(v) for v in val[1:1 + r_]], [float(v) for v in val[1 + r_:]])
            else:
                mod = ("err", ERRMAP.get(val))
            ctx.count("dist", key=("pd", tuple(shape), n, has_shape, kind, repr(a)), nontrivial=False, label="probdist-%s-%s" % (kind, mod[0]))
            if impl != mod:
                ctx.violation("dist", "ProbDist.__getitem__", "index-argument", "argument %r on shape %s (shape given: %s): implementation %s, model %s" % (a, shape, bool(has_shape), impl, mod), dict(case, index_arg=repr(a)))


def case_ps(case):
    """entries are given either as exact fractions (converted to the nearest double) or as float.hex strings (exact doubles)"""
    if "ps_hex" in case:
        return [float.fromhex(h) for h in case["ps_hex"]]
    return [float(Fraction(p)) for p in case["ps"]]


def chk_dist(ctx, case):
    from quara.objects.multinomial_distribution import MultinomialDistribution as MD
    import warnings
    m = ctx.get_model()
    ps = case_ps(case)
    shape_arg = case["shape"]                      # None = the shape argument is omitted
    shape = [len(ps)] if shape_arg is None else shape_arg
    has_eps = "eps_zero" in case                   # the eps_zero ARGUMENT (None / 0.0 select the default 1e-8)
    eps_arg = (None if case["eps_zero"] is None else float.fromhex(case["eps_zero"])) if has_eps else None
    pkey = tuple(case.get("ps_hex") or case["ps"]) + (case.get("eps_zero", "-"),)
    # --- constructor
    try:
        with warnings.catch_warnings():
            warnings.simplefilter("ignore")
            kw = {"eps_zero": eps_arg} if has_eps else {}
            d = MD(np.array(ps, dtype=float), shape=None if shape_arg is None else tuple(shape_arg), **kw)
        impl = ("ok", d)
    except Exception as e:
        impl = ("err", type(e).__name__)
    st, val = m.try_call("md.construct_arg", [0 if shape_arg is None else 1, 0 if eps_arg is None else 1, len(shape)] + shape,
                         [0.0 if eps_arg is None else eps_arg] + ps)
    ctx.count("dist", key=("construct", tuple(shape), pkey), label=case.get("label", "construct") + "-" + st)
    if st == "err":
        if impl[0] != "err" or impl[1] != ERRMAP.get(val):
            ctx.violation("dist", "MultinomialDistribution.__init__", "error-kind", "model rejects with %s, implementation %s" % (val, impl if impl[0] == "err" else list(impl[1].ps)), case)
        return
    if impl[0] == "err":
        ctx.violation("dist", "MultinomialDistribution.__init__", "unexpected-raise", "implementation raised %s, model accepts" % impl[1], case)
        return
    sh_m, zero_m, ps_m = parse_dist(val)
    # the same numbers handed over as a python list, a strided view, a read-only-source copy, float32-exact / integer data: same object
    variants = [("list", lambda: list(ps)), ("strided-view", lambda: np.array([x for p_ in ps for x in (p_, -7.0)], dtype=float)[::2]),
                ("reversed-view", lambda: np.array(ps[::-1], dtype=float)[::-1])]
    if all(float(x).is_integer() for x in ps):
        variants.append(("int-dtype", lambda: np.array([int(x) for x in ps])))

    def _readonly():
        a = np.array(ps, dtype=float); a.setflags(write=False); return a
    variants.append(("read-only", _readonly))
    for vname, mk in variants:
        try:
            with warnings.catch_warnings():
                warnings.simplefilter("ignore")
                arg = mk()
                before = [float(x) for x in arg]
                d2 = MD(arg, shape=None if shape_arg is None else tuple(shape_arg), **kw)
            same = list(d2.shape) == list(d.shape) and bool(d2.is_zero_dist) == bool(d.is_zero_dist) and [float(x) for x in d2.ps] == [float(x) for x in d.ps]
            if same and isinstance(arg, np.ndarray):
                # the caller's array is an INPUT: it is not written to, and writing to it afterwards does not change the object
                if [float(x) for x in arg] != before and not (np.isnan(before).any()):
                    ctx.violation("dist", "MultinomialDistribution.__init__", "writes-into-argument", "ps given as %s: the caller's array %s was changed to %s" % (vname, before, [float(x) for x in arg]), case)
                if arg.flags.writeable:
                    keep = [float(x) for x in d2.ps]
                    arg[...] = 0.375
                    if [float(x) for x in d2.ps] != keep:
                        ctx.violation("dist", "MultinomialDistribution.__init__", "aliases-argument", "ps given as %s: writing to the caller's array afterwards changed the distribution %s -> %s" % (vname, keep, [float(x) for x in d2.ps]), case)
        except Exception as e:
            same = False
        ctx.count("dist", key=("variant", vname, tuple(shape), pkey), nontrivial=False, label="input-" + vname)
        if not same:
            ctx.violation("dist", "MultinomialDistribution.__init__", "input-container", "ps given as %s: result differs from the one for a contiguous float64 array" % vname, case)
    if [x == 0 for x in d.ps] != [x == 0 for x in ps_m]:
        # the DECISION which entries are zeroed is exact on both sides (same doubles, same threshold): no band
        ctx.violation("dist", "MultinomialDistribution.__init__", "zeroing-decision", "eps_zero=%s input %s: implementation zeroes %s, model (prob < eps_zero) zeroes %s" % (
            eps_arg, ps, [i for i, x in enumerate(d.ps) if x == 0], [i for i, x in enumerate(ps_m) if x == 0]), case)
        return
    if list(d.shape) != sh_m or bool(d.is_zero_dist) != zero_m or not flow.allclose(list(d.ps), ps_m, 1e-12):
        ctx.violation("dist", "MultinomialDistribution.__init__", "value", "constructor output differs: impl %s model %s" % (list(d.ps), ps_m), case)
        return
    if float(d.eps_zero) != (eps_arg if eps_arg else 1e-8):
        ctx.violation("dist", "MultinomialDistribution.__init__", "eps-zero-default", "eps_zero argument %s stored as %s" % (eps_arg, d.eps_zero), case)
    if not zero_m and (abs(sum(d.ps) - 1) > 1e-7 or min(d.ps) < 0):
        ctx.violation("dist", "MultinomialDistribution.__init__", "not-normalised", "ps=%s" % list(d.ps), case)
    base_ps = [float(x) for x in d.ps]
    # --- getitem on every multi-index
    from quara.objects.prob_dist import ProbDist
    legacy = ProbDist(np.array(base_ps), tuple(shape))
    for idx in itertools.product(*[range(n) for n in shape]):
        v = float(m.call("md.getitem", [len(shape)] + shape + [len(idx)] + list(idx), base_ps)[0])
        ctx.count("dist", key=("getitem", tuple(shape), pkey, idx), nontrivial=False)
        if float(d[tuple(idx)]) != v:
            ctx.violation("dist", "MultinomialDistribution.__getitem__", "value", "d[%s]=%s model %s" % (idx, d[tuple(idx)], v), dict(case, idx=list(idx)))
        if float(legacy[tuple(idx)]) != v:      # objects/prob_dist.py (reshape-based access): same row-major layout
            ctx.violation("dist", "ProbDist.__getitem__", "value", "ProbDist[%s]=%s model %s" % (idx, legacy[tuple(idx)], v), dict(case, idx=list(idx)))
    index_probe(ctx, "dist", "MultinomialDistribution.__getitem__", lambda a: d[a], shape, base_ps, case, len(base_ps) * 7 + len(shape))
    pd_probe(ctx, legacy, ProbDist(np.array(base_ps)), shape, base_ps, case)
    # --- marginals for the listed subsets / orders
    for rem in case["remains"]:
        try:
            with warnings.catch_warnings():
                warnings.simplefilter("ignore")
                md = d.marginalize(list(rem)); impl = ("ok", md)
        except Exception as e:
            impl = ("err", type(e).__name__)
        st, val = m.try_call("md.marginalize", [len(shape)] + shape + [len(rem)] + list(rem), base_ps)
        ctx.count("dist", key=("marg", tuple(shape), pkey, tuple(rem)), label="marg-" + st, nontrivial=len(shape) >= 2)
        sub = dict(case, remains=[list(rem)])
        if st == "err":
            if impl[0] != "err" or impl[1] != ERRMAP.get(val):
                ctx.violation("dist", "MultinomialDistribution.marginalize", "error-kind", "remain=%s model err %s impl %s" % (rem, val, impl), sub)
            continue
        if impl[0] == "err":
            ctx.violation("dist", "MultinomialDistribution.marginalize", "unexpected-raise", "remain=%s impl raised %s" % (rem, impl[1]), sub)
            continue
        sh_m, zero_m, ps_m = parse_dist(val)
        got_ps = [float(x) for x in md.ps]
        if md.ps.flags.writeable:
            md.ps[...] = 0.625          # the caller scribbles on the RETURNED array: the parent must not change (checked at the end)
        md = type("Snap", (), {"ps": got_ps, "shape": md.shape})()
        if list(md.shape) != sh_m or not flow.allclose(list(md.ps), ps_m, 1e-12):
            ctx.violation("dist", "MultinomialDistribution.marginalize", "value", "remain=%s impl %s %s model %s %s" % (rem, md.shape, list(md.ps), sh_m, ps_m), sub)
            continue
        # property: marginal = sum over removed variables (independent of listing order), normalised
        full = np.array(base_ps).reshape(shape) if shape else np.array(base_ps)
        keep = sorted(set(rem))
        expect = np.zeros([shape[a] for a in keep])
        for idx in itertools.product(*[range(n) for n in shape]):
            expect[tuple(idx[a] for a in keep)] += full[idx]
        e = expect.ravel()
        if (e < 1e-8).any():            # as documented: sub-threshold entries are zeroed and (only then) the rest is renormalised
            e = np.where(e < 1e-8, 0.0, e)
            if e.sum() > 0:
                e = e / e.sum()
        if not flow.allclose(list(md.ps), list(e), 1e-9):
            ctx.violation("dist", "MultinomialDistribution.marginalize", "not-sum-over-removed", "remain=%s got %s expected %s" % (rem, list(md.ps), list(e)), sub)
    # --- the same marginal / conditional reached by two routes: in one step, or through an intermediate distribution
    #     (thresholding at the intermediate object may move values by ~1e-8: compared at 1e-6, only when no entry sits near the threshold)
    rank = len(shape)
    if rank >= 2 and not zero_m and min([x for x in base_ps if x > 0] + [1.0]) > 1e-5 and not ctx_routes_done(ctx, case):
        with warnings.catch_warnings():
            warnings.simplefilter("ignore")
            for keep2 in itertools.combinations(range(rank), rank - 1):
                for a in keep2:
                    tgt = [x for x in keep2 if x != a]
                    if not tgt:
                        continue
                    try:
                        one = d.marginalize(list(tgt))
                        mid = d.marginalize(list(keep2))
                        two = mid.marginalize([sorted(keep2).index(x) for x in tgt])
                    except Exception:
                        continue
                    ctx.count("dist", key=("marg-route", tuple(shape), pkey, keep2, a), nontrivial=True, label="route-marginal")
                    if list(one.shape) != list(two.shape) or not flow.allclose(list(one.ps), list(two.ps), 1e-6):
                        ctx.violation("dist", "MultinomialDistribution.marginalize", "route-dependent", "marginal over %s: directly %s, through the marginal over %s: %s" % (tgt, list(one.ps), list(keep2), list(two.ps)), dict(case, route=[list(keep2), list(tgt)]))
            for a in range(rank):
                for b in range(rank):
                    if a == b or rank < 3:
                        continue
                    va, vb = shape[a] - 1, 0
                    try:
                        one = d.conditionalize([a, b], [va, vb])
                        mid = d.conditionalize([a], [va])
                        two = mid.conditionalize([b - (1 if a < b else 0)], [vb])
                    except Exception:
                        continue
                    ctx.count("dist", key=("cond-route", tuple(shape), pkey, a, b), nontrivial=True, label="route-conditional")
                    if list(one.shape) != list(two.shape) or not flow.allclose(list(one.ps), list(two.ps), 1e-6):
                        ctx.violation("dist", "MultinomialDistribution.conditionalize", "route-dependent", "conditional on (%d=%d, %d=%d): directly %s, in two steps %s" % (a, va, b, vb, list(one.ps), list(two.ps)), dict(case, route=[a, b]))
    # --- conditionals
    for idxs, vals in case["conds"]:
        try:
            with warnings.catch_warnings():
                warnings.simplefilter("ignore")
                cd = d.conditionalize(list(idxs), list(vals)); impl = ("ok", cd)
        except Exception as e:
            impl = ("err", type(e).__name__)
        st, val = m.try_call("md.conditionalize", [len(shape)] + shape + [len(idxs)] + list(idxs) + [len(vals)] + list(vals), base_ps)
        ctx.count("dist", key=("cond", tuple(shape), pkey, tuple(idxs), tuple(vals)), label="cond-" + st, nontrivial=len(shape) >= 2)
        sub = dict(case, conds=[[list(idxs), list(vals)]], remains=[])
        if st == "err":
            if impl[0] != "err" or impl[1] != ERRMAP.get(val):
                ctx.violation("dist", "MultinomialDistribution.conditionalize", "error-kind", "cond=%s|%s model err %s impl %s" % (idxs, vals, val, impl), sub)
            continue
        if impl[0] == "err":
            ctx.violation("dist", "MultinomialDistribution.conditionalize", "unexpected-raise", "cond=%s|%s impl raised %s" % (idxs, vals, impl[1]), sub)
            continue
        sh_m, zero_m, ps_m = parse_dist(val)
        if list(cd.shape) != sh_m or not flow.allclose(list(cd.ps), ps_m, 1e-10):
            ctx.violation("dist", "MultinomialDistribution.conditionalize", "value", "cond=%s|%s impl %s %s model %s %s" % (idxs, vals, cd.shape, list(cd.ps), sh_m, ps_m), sub)
            continue
        # property: joint = marginal x conditional (distinct axes, marginal non-zero, above threshold)
        if len(set(idxs)) == len(idxs) and len(idxs) < len(shape):
            try:
                with warnings.catch_warnings():
                    warnings.simplefilter("ignore")
                    mg = d.marginalize(list(idxs))
            except Exception:
                continue
            order = sorted(range(len(idxs)), key=lambda t: idxs[t])
            pm = float(mg[tuple(vals[t] for t in order)]) if len(idxs) > 1 else float(mg[int(vals[0])])
            free = [a for a in range(len(shape)) if a not in idxs]
            bad = False
            for fidx in itertools.product(*[range(shape[a]) for a in free]):
                fullidx = [0] * len(shape)
                for a, v in zip(idxs, vals):
                    fullidx[a] = v
                for a, v in zip(free, fidx):
                    fullidx[a] = v
                joint = float(d[tuple(fullidx)])
                c = float(cd[tuple(fidx)]) if len(fidx) > 1 else float(cd[int(fidx[0])])
                if joint >= 1e-7 and c * pm >= 1e-7 and abs(joint - pm * c) > 1e-7:
                    bad = True
            if bad:
                ctx.violation("dist", "MultinomialDistribution.conditionalize", "joint-neq-marginal-times-conditional", "cond=%s|%s" % (idxs, vals), sub)
    # --- history: all the queries above ran on ONE object, each compared with the model of a fresh one; the object itself is unchanged
    if [float(x) for x in d.ps] != base_ps or list(d.shape) != list(shape):
        ctx.violation("dist", "MultinomialDistribution", "query-mutates-object", "after the queries ps/shape are %s %s, were %s %s" % (list(d.ps), d.shape, base_ps, shape), case)


def gen_dist_cases(ctx, n):
    rng = ctx.rng
    cases = []
    for i in range(n):
        r = rng.choice([1, 2, 2, 3, 3, 4])
        shape = [rng.randint(1, 4 if r < 4 else 3) for _ in range(r)]
        ps = rand_tensor(rng, shape, zeros=rng.random() < 0.7)
        axes = list(range(r))
        remains = []
        for k in range(0, r + 1):
            for comb in itertools.combinations(axes, k):
                remains.append(list(comb))
                if k >= 2 and rng.random() < 0.5:
                    p = list(comb); rng.shuffle(p); remains.append(p)
        rng.shuffle(remains); remains = remains[:6]
        if rng.random() < 0.15:
            remains.append([r])            # out of range
        if rng.random() < 0.1 and r >= 1:
            remains.append([0, 0])         # duplicate
        if rng.random() < 0.1:
            remains.append([-1])
        if rng.random() < 0.25 and r >= 1:
            # both kinds of invalid entry in one listing: whichever comes FIRST decides (KeyError for a repeat, ValueError for out of range)
            a = rng.randrange(r)
            remains.append(rng.choice([[a, a, r], [a, r, a], [r, a, a], [a, -1, a], [a, a, -1], [a, a, a]]))
        conds = []
        for _ in range(4):
            k = rng.randint(0, max(0, r - 1)) if r > 1 else rng.randint(0, 1)
            idxs = rng.sample(axes, k)
            vals = [rng.randrange(shape[a]) for a in idxs]
            conds.append([idxs, vals])
        if r >= 2 and rng.random() < 0.35:
            a = rng.randrange(r)                      # the same variable listed twice with different values: the LATER assignment decides
            b = rng.choice([x for x in range(r) if x != a])
            v1, v2 = rng.randrange(shape[a]), rng.randrange(shape[a])
            conds.append(rng.choice([[[a, a], [v1, v2]], [[a, b, a], [v1, rng.randrange(shape[b]), v2]]]))
        if rng.random() < 0.1 and r >= 1:
            conds.append([[0], [shape[0]]])          # value out of range
        if rng.random() < 0.1:
            conds.append([[0, 1][:r], [0]])          # length mismatch (when r>=2)
        if rng.random() < 0.1:
            conds.append([[-1], [0]])
        cases.append({"shape": shape, "ps": ["%d/%d" % (p.numerator, p.denominator) for p in ps], "remains": remains, "conds": conds})
    # malformed stream for the constructor
    for _ in range(max(3, n // 20)):
        shape = [2, 2]
        ps = [Fraction(1, 4)] * 4
        kind = rng.choice(["neg", "sum", "size", "allzero"])
        if kind == "neg":
            ps = [Fraction(-1, 10), Fraction(6, 10), Fraction(1, 4), Fraction(1, 4)]
        elif kind == "sum":
            ps = [Fraction(1, 4), Fraction(1, 4), Fraction(1, 4), Fraction(1, 2)]
        elif kind == "size":
            shape = [2, 3]
        else:
            ps = [Fraction(0)] * 3 + [Fraction(1, 10 ** 10)]
        cases.append({"shape": shape, "ps": ["%d/%d" % (p.numerator, p.denominator) for p in ps], "remains": [[0]] if kind == "allzero" else [], "conds": []})
    return cases


T8 = 1e-8          # the double the literal 1e-8 denotes: validation tolerance and default eps_zero


def gen_boundary_cases(ctx, n):
    """EXACT boundary values (all entries are doubles handed unchanged to implementation and model, so both sides must take the
    SAME decision, no band): entries equal to the zero threshold / one ulp below / one ulp above it for dyadic and decimal
    eps_zero arguments (None and 0.0 select 1e-8); negative entries at / inside / one ulp outside the validator's accepted range
    [-1e-8, 0), also combined with thresholds finer than 1e-8; sums just inside / outside 1 +- 1e-8; parents built with a fine
    eps_zero whose MARGINAL entries land exactly on / next to the default threshold of the marginal's own constructor"""
    import math
    rng = ctx.rng
    up = lambda x: math.nextafter(x, math.inf)
    dn = lambda x: math.nextafter(x, -math.inf)
    eps_args = [None, 0.0, 0.25, 0.125, 2.0 ** -10, 2.0 ** -20, 2.0 ** -30, 2.0 ** -40, T8, 1e-10, 1e-12, 1e-3, 0.1]
    cases = []

    def add(label, ps, shape, eps, remains=(), conds=()):
        c = {"label": label, "shape": shape, "ps_hex": [float(x).hex() for x in ps], "remains": [list(r) for r in remains], "conds": [list(x) for x in conds]}
        if eps != "absent":
            c["eps_zero"] = None if eps is None else float(eps).hex()
        cases.append(c)

    def balance(special, nrest):
        """nrest >= 1 further entries (multiples of 1/64 + one balancing entry) so that everything sums to 1 up to one rounding"""
        tot = sum(Fraction(x) for x in special)
        ws = [rng.randint(1, 20) for _ in range(nrest)]
        rest = [float((1 - tot) * w / sum(ws)) for w in ws]
        out = list(special) + rest
        rng.shuffle(out)
        return out

    i = 0
    while len(cases) < n:
        eps = eps_args[i % len(eps_args)]
        eff = eps if eps else T8
        kind = ["at", "below", "above", "mixed", "neg", "neg-fine", "all-at", "all-below"][(i // len(eps_args)) % 8]
        i += 1
        if kind == "at":
            sp = [eff] * rng.randint(1, 2)
        elif kind == "below":
            sp = [dn(eff)] + ([eff / 2] if rng.random() < 0.5 else [])
        elif kind == "above":
            sp = [up(eff)]
        elif kind == "mixed":
            sp = [eff, dn(eff), up(eff), 0.0][: rng.randint(2, 4)]
        elif kind == "neg":
            sp = [rng.choice([-T8, dn(-T8), -T8 / 2, up(-T8), -2.0 ** -40, -0.0])] + ([eff] if rng.random() < 0.5 else [])
        elif kind == "neg-fine":
            if eff >= T8:
                continue
            sp = [rng.choice([-eff, dn(-eff), up(-eff), -T8, -T8 / 2, -5e-9])]       # inside [-1e-8, -eps_zero]: accepted AND below the threshold
        elif kind == "all-at":
            if eff > 0.5:
                continue
            k = rng.randint(2, 4)
            add("boundary:" + kind, [eff] * k, None, eps)                              # nothing is below the threshold: sum validation decides
            continue
        else:
            add("boundary:" + kind, [dn(eff)] * rng.randint(1, 4), None, eps)          # everything below: the zero distribution
            continue
        if sum(abs(x) for x in sp) >= 0.9:
            continue
        ps = balance(sp, rng.randint(1, 4))
        nn = len(ps)
        shape = None if rng.random() < 0.4 else rng.choice([[nn]] + [[a, nn // a] for a in range(2, nn) if nn % a == 0])
        rank = 1 if shape is None else len(shape)
        remains = [[0]] + ([[1], [1, 0]] if rank == 2 else [])
        conds = [[[0], [0]]] + ([[[1], [0]]] if rank == 2 else [])
        add("boundary:" + kind, ps, shape, eps if (eps is not None or rng.random() < 0.5) else "absent", remains, conds)
    # sums just inside / outside the validation tolerance (exact double arithmetic: dyadic entries)
    for dlt, lab in [(2.0 ** -27, "in"), (2.0 ** -26, "out"), (-2.0 ** -27, "in"), (-2.0 ** -26, "out")]:
        add("boundary:sum-" + lab, [0.5, 0.5 + dlt], None, "absent")
        add("boundary:sum-" + lab, [0.25, 0.25, 0.25, 0.25 + dlt], [2, 2], None, [[0]], [[[0], [1]]])
    # marginal entries on / next to the marginal's own (default) threshold; the parent keeps them (fine eps_zero)
    for row, lab in [([T8 / 2, T8 / 2], "at"), ([T8 / 4, T8 / 4], "below"), ([T8, 0.0], "at"), ([dn(T8), 0.0], "below"), ([up(T8), 0.0], "above"),
                     ([0.0, T8], "at")]:      # (sums that ROUND onto the threshold are excluded: float rounding is not modelled)
        for fine in (2.0 ** -40, 1e-12):
            big = [float(Fraction(3, 8) - Fraction(row[0])), float(Fraction(5, 8) - Fraction(row[1]))]
            first = rng.random() < 0.5
            ps = (row + big) if first else (big + row)
            add("boundary:marginal-" + lab, ps, [2, 2], fine, [[0], [1], [0, 1]], [[[0], [0]], [[0], [1]], [[1], [0]]])
            add("boundary:marginal-" + lab, [ps[0], ps[2], ps[1], ps[3]], [2, 2], fine, [[1], [0]], [[[1], [0]], [[1], [1]]])
    return cases


def chk_validate(ctx, case):
    """validate_prob_dist called directly: explicit eps, validate_sum on/off, raise_error off (warning only, never raises)"""
    from quara.math.probability import validate_prob_dist
    import io, contextlib
    m = ctx.get_model()
    ps = case_ps(case)
    eps = None if case["eps"] is None else float.fromhex(case["eps"])
    vs = bool(case["validate_sum"])
    try:
        validate_prob_dist(np.array(ps, dtype=float), eps=eps, validate_sum=vs); impl = "ok"
    except Exception as e:
        impl = type(e).__name__
    st, val = m.try_call("md.validate", [1 if vs else 0, 0 if eps is None else 1], [0.0 if eps is None else eps] + ps)
    mod = "ok" if st == "ok" else ERRMAP.get(val)
    ctx.count("dist", key=("validate", tuple(case["ps_hex"]), case["eps"], vs), nontrivial=False, label="validate-" + st)
    if impl != mod:
        ctx.violation("dist", "validate_prob_dist", "decision", "ps=%s eps=%s validate_sum=%s: implementation %s, model %s" % (ps, eps, vs, impl, mod), case)
    buf = io.StringIO()
    try:
        with contextlib.redirect_stdout(buf):
            validate_prob_dist(np.array(ps, dtype=float), eps=eps, validate_sum=vs, raise_error=False)
        warned = "Warning" in buf.getvalue()
        if warned != (mod != "ok"):
            ctx.violation("dist", "validate_prob_dist", "warning-branch", "raise_error=False: warning printed %s, model verdict %s" % (warned, mod), case)
    except Exception as e:
        ctx.violation("dist", "validate_prob_dist", "raises-with-raise_error-false", "raised %s" % type(e).__name__, case)


def gen_validate_cases(ctx, n):
    import math
    rng = ctx.rng
    up = lambda x: math.nextafter(x, math.inf)
    dn = lambda x: math.nextafter(x, -math.inf)
    out = []
    for i in range(n):
        eps = [None, T8, 2.0 ** -20, 0.125, 1e-3, 2.0 ** -30][i % 6]
        e = T8 if eps is None else eps
        neg = rng.choice([-e, dn(-e), up(-e), -e / 2, -2 * e, 0.0, -0.0])
        k = rng.randint(1, 3)
        rest = [rng.randint(1, 8) / 16.0 for _ in range(k)]
        tot = sum(rest)
        rest = [x / tot for x in rest] if rng.random() < 0.7 else rest          # sum 1 (up to rounding) or clearly not
        if rng.random() < 0.3 and e >= 2.0 ** -30:
            rest[0] += rng.choice([e / 2, 2 * e, -e / 2, -2 * e])              # sum near 1: inside / outside the tolerance, not ON it
        ps = rest + [neg]
        rng.shuffle(ps)
        vs = rng.random() < 0.6
        off = abs(sum(Fraction(x) for x in ps) - 1)
        if abs(off - Fraction(e)) < Fraction(e) / 1000:
            vs = False        # the SUM would sit on its tolerance up to float rounding (not modelled); the entry tests stay exact
        out.append({"ps_hex": [float(x).hex() for x in ps], "eps": None if eps is None else float(eps).hex(), "validate_sum": vs})
    return out


def chk_sampling(ctx, case):
    """execute_random_sampling: `size` count vectors over the SERIAL index; every vector sums to num, impossible entries are never
    drawn, an int seed reproduces the draw, and the pooled frequencies stay within a Hoeffding bound of ps (entry k <-> serial index k)"""
    from quara.objects.multinomial_distribution import MultinomialDistribution as MD
    import warnings
    ps = case_ps(case)
    shape = case["shape"]
    with warnings.catch_warnings():
        warnings.simplefilter("ignore")
        d = MD(np.array(ps, dtype=float), shape=tuple(shape))
    num, size, seed = case["num"], case["size"], case["seed"]
    s1 = d.execute_random_sampling(num, size, seed)
    s2 = d.execute_random_sampling(num, size, np.int64(seed))
    s3 = d.execute_random_sampling(num, size, np.random.Generator(np.random.MT19937(seed)))
    ctx.count("sampling", key=(tuple(case["ps"]), tuple(shape), num, size, seed), nontrivial=len(shape) >= 2)
    site = "MultinomialDistribution.execute_random_sampling"
    if len(s1) != size or any(len(v) != len(d.ps) or int(np.sum(v)) != num for v in s1):
        ctx.violation("sampling", site, "shape", "expected %d vectors of length %d summing to %d" % (size, len(d.ps), num), case)
        return
    if any(int(v[k]) != 0 for v in s1 for k in range(len(d.ps)) if d.ps[k] == 0):
        ctx.violation("sampling", site, "impossible-outcome-drawn", "an entry of probability 0 was drawn", case)
    if not all(np.array_equal(a, b) and np.array_equal(a, c) for a, b, c in zip(s1, s2, s3)):
        ctx.violation("sampling", site, "seed-not-reproducible", "the same seed (int / numpy int / generator) gave different draws", case)
    tot = np.sum(np.array(s1), axis=0)
    nn = num * size
    for k in range(len(d.ps)):
        p = float(d.ps[k])
        # Hoeffding: P(|freq - p| > t) <= 2 exp(-2 nn t^2); t chosen for a false-alarm probability of 1e-12 per entry (sound for every nn)
        if abs(tot[k] / nn - p) > np.sqrt(np.log(2e12) / (2 * nn)):
            ctx.violation("sampling", site, "frequency", "entry %d: frequency %.5f for probability %.5f (%d draws)" % (k, tot[k] / nn, p, nn), dict(case, k=k))


def sub_sampling(ctx):
    cases = []
    for _ in range(ctx.n(25, 200)):
        r = ctx.rng.choice([1, 2, 2, 3])
        shape = [ctx.rng.randint(1, 4) for _ in range(r)]
        ps = rand_tensor(ctx.rng, shape, zeros=True)
        cases.append({"shape": shape, "ps": ["%d/%d" % (p.numerator, p.denominator) for p in ps], "num": ctx.rng.choice([1, 10, 200]),
                      "size": ctx.rng.choice([1, 5, 40]), "seed": ctx.rng.randrange(2 ** 31)})
    ctx.sample("sampling", cases[0])
    ctx.run_cases("sampling", chk_sampling, cases)


def sub_dist(ctx):
    wide = 4 if (ctx.quick and getattr(ctx, "tie_broken", False)) else 1       # translator tie broken: search harder for a failing input
    cases = gen_dist_cases(ctx, ctx.n(150 * wide, 1500))
    ctx.sample("dist", cases[0])
    ctx.run_cases("dist", chk_dist, cases)
    bc = gen_boundary_cases(ctx, ctx.n(160 * wide, 1200))
    ctx.sample("dist", bc[0]); ctx.sample("dist", bc[-1])
    ctx.run_cases("dist", chk_dist, bc)
    ctx.run_cases("dist", chk_validate, gen_validate_cases(ctx, ctx.n(120 * wide, 1000)))


# ------------------------------------------------------------------ ensembles
def chk_ensemble(ctx, case):
    """StateEnsemble.state(multi-index) addresses the same entry as prob_dist[multi-index]"""
    from quara.objects.state_ensemble import StateEnsemble
    from quara.objects.multinomial_distribution import MultinomialDistribution as MD
    m = ctx.get_model()
    shape = case["shape"]
    n = int(np.prod(shape))
    ps = np.full(n, 1.0 / n)

    class Tag:  # stands in for a State: only identity matters here
        def __init__(self, k): self.k = k
    states = [Tag(k) for k in range(n)]
    se = StateEnsemble(states, MD(ps, shape=tuple(shape)))
    for idx in itertools.product(*[range(s) for s in shape]):
        k_impl = se.state(tuple(idx)).k
        k_model = int(m.call("idx.serial_from_multi", [len(shape)] + shape + list(idx))[0])
        ctx.count("ensemble", key=(tuple(shape), idx), nontrivial=len(shape) >= 2)
        if k_impl != k_model:
            ctx.violation("ensemble", "StateEnsemble.state", "layout", "state(%s) is entry %d, distribution index is %d" % (idx, k_impl, k_model), dict(case, idx=list(idx)))
    index_probe(ctx, "ensemble", "StateEnsemble.state", lambda a: se.state(a).k, shape, [float(k) for k in range(n)], case, n * 5 + len(shape))
    # StateEnsemble.__init__ as translated (gen_ens_init): eps_zero < 0 -> ValueError; a non-distribution -> TypeError; lengths differ -> ValueError
    dist = MD(ps.copy(), shape=tuple(shape))
    probes = [("ok", lambda: StateEnsemble(states, dist, eps_zero=0.0), None), ("ok", lambda: StateEnsemble(states, dist, 2.0 ** -20), None),
              ("neg-eps", lambda: StateEnsemble(states, dist, eps_zero=-2.0 ** -60), "ValueError"),
              ("not-a-distribution", lambda: StateEnsemble(states, list(ps)), "TypeError"),
              ("short", lambda: StateEnsemble(states[:-1], dist), "ValueError"), ("long", lambda: StateEnsemble(states + [Tag(n)], dist), "ValueError")]
    for nm, fn_, exp in probes:
        try:
            o = fn_(); got = None
            if o.states is not None and (len(o.states) != n or o.prob_dist is not dist):
                got = "wrong-fields"
        except Exception as e:
            got = type(e).__name__
        ctx.count("ensemble", key=("ctor", tuple(shape), nm), nontrivial=False, label="ctor-" + nm)
        if got != exp:
            ctx.violation("ensemble", "StateEnsemble.__init__", "validation", "case %s on shape %s: %s, expected %s" % (nm, shape, got, exp), dict(case, ctor=nm))


def sub_ensemble(ctx):
    cases = [{"shape": sh} for sh in shapes(3, 4) if len(sh) >= 1]
    ctx.sample("ensemble", cases[-1])
    ctx.run_cases("ensemble", chk_ensemble, cases)


# ------------------------------------------------------------------ ensembles produced by measurements
def _rand_unitary(rs, d):
    a = rs.normal(size=(d, d)) + 1j * rs.normal(size=(d, d))
    q, r = np.linalg.qr(a)
    return q * (np.diag(r) / np.abs(np.diag(r)))


def _instrument(rs, d, m):
    """m-outcome instrument with one Kraus operator per outcome: K_x = U_x sqrt(E_x), sum E_x = I, generic"""
    g = [(lambda a: a @ a.conj().T)(rs.normal(size=(d, d)) + 1j * rs.normal(size=(d, d))) for _ in range(m)]
    s = sum(g)
    w, v = np.linalg.eigh(s)
    sinv = v @ np.diag(w ** -0.5) @ v.conj().T
    ks = []
    for a in g:
        e = sinv @ a @ sinv
        w2, v2 = np.linalg.eigh(e)
        ks.append(_rand_unitary(rs, d) @ (v2 @ np.diag(np.sqrt(np.clip(w2, 0, None))) @ v2.conj().T))
    return ks


def _proj_instrument(rs, d, groups, m, rot):
    """projective instrument with m outcomes: outcome x projects onto the span of the basis vectors k with groups[k] == x
    (an outcome without vectors has Kraus operator EXACTLY 0), followed by an outcome-dependent unitary;
    basis = permuted computational basis (exact zeros) or a Haar-rotated one.  returns (kraus list, basis U)"""
    u = _rand_unitary(rs, d) if rot else np.eye(d, dtype=complex)[:, rs.permutation(d)]
    ks = []
    for x in range(m):
        proj = np.zeros((d, d), dtype=complex)
        for k in range(d):
            if groups[k] == x:
                proj += np.outer(u[:, k], u[:, k].conj())
        ks.append((_rand_unitary(rs, d) @ proj) if any(g == x for g in groups) else proj)
    return ks, u


def _with_zero_outcomes(rs, d, m, zero_at):
    """generic instrument whose outcomes listed in zero_at never occur (Kraus operator exactly 0)"""
    live = _instrument(rs, d, m - len(zero_at))
    out, it = [], iter(live)
    for x in range(m):
        out.append(np.zeros((d, d), dtype=complex) if x in zero_at else next(it))
    return out


def chk_ensemble_mprocess(ctx, case):
    """a state measured once / twice / three times by instruments with DIFFERENT outcome counts: the ensemble's
    distribution and states must be laid out by the same (row-major, earlier measurement first) multi-index, the WHOLE
    (probability, state) table is compared with the Born rule.  Cases with "first" are projective first measurements of an
    input that is an eigenstate (or a mixture of some eigenstates) of that measurement, and later instruments may have
    outcomes that never occur: zero-probability outcomes then sit in EVERY position of the table, not only at its end."""
    from quara.objects.composite_system_typical import generate_composite_system
    from quara.objects.operators import compose_qoperations
    from quara.objects.mprocess import MProcess
    from quara.objects.state import State
    from quara.objects.gate import to_hs_from_kraus_matrices
    from quara.objects.state import to_vec_from_density_matrix_with_sparsity
    import warnings
    m = ctx.get_model()
    rs = np.random.RandomState(case["seed"])
    kind, d = case["sys"], (2 if case["sys"] == "qubit" else 3)
    c = _csys(kind)
    shape = list(case["counts"])
    first = case.get("first")
    case0 = case
    zero_at = case.get("zero_at") or [[] for _ in shape]
    chains = []
    if first:
        ks, u = _proj_instrument(rs, d, first["groups"], shape[0], first["rot"])
        chains.append(ks)
        w = np.array([float(Fraction(x)) for x in first["weights"]])
        rho = sum(w[k] * np.outer(u[:, k], u[:, k].conj()) for k in range(d))
    else:
        a = rs.normal(size=(d, d)) + 1j * rs.normal(size=(d, d))
        rho = a @ a.conj().T; rho /= np.trace(rho).real
    for pos in range(len(chains), len(shape)):
        chains.append(_with_zero_outcomes(rs, d, shape[pos], zero_at[pos]) if zero_at[pos] else _instrument(rs, d, shape[pos]))
    with warnings.catch_warnings():
        warnings.simplefilter("ignore")
        st = State(c, to_vec_from_density_matrix_with_sparsity(c, rho).real.astype(float), is_physicality_required=False)
        mps = [MProcess(c, [to_hs_from_kraus_matrices(c, [k]) for k in ks], is_physicality_required=False) for ks in chains]
    site = "compose MProcess on state/ensemble"
    # EVERY route to the same ensemble: sequential application, the variadic call, and each bracketing in which instruments are
    # composed FIRST (a composite instrument B o A has the multi-index outcome shape (m1, m2)) and then applied to the state / ensemble
    for route in (case.get("routes") or _routes(len(mps))):
        with warnings.catch_warnings():
            warnings.simplefilter("ignore")
            ens = _apply_route(route, mps, st, compose_qoperations)
        case = dict(case0, routes=[route])
        total = int(np.prod(shape))
        if list(ens.prob_dist.shape) != shape or len(ens.prob_dist.ps) != total or len(ens.states) != total:
            ctx.violation("ensemble_mprocess", site, "shape", "route %s: ensemble shape %s with %d probabilities / %d states, expected %s" % (route, ens.prob_dist.shape, len(ens.prob_dist.ps), len(ens.states), shape), case)
            continue
        born = np.zeros(shape)
        nzero_nonlast = 0
        for idx in itertools.product(*[range(n) for n in shape]):
            x = rho
            for ks, i in zip(chains, idx):
                x = ks[i] @ x @ ks[i].conj().T
            p = np.trace(x).real
            born[idx] = p
            k_model = int(m.call("idx.serial_from_multi", [len(shape)] + shape + list(idx))[0])
            if p < 1e-12 and k_model < total - 1:
                nzero_nonlast += 1
            ctx.count("ensemble_mprocess", key=(case["seed"], tuple(shape), idx, bool(first), route), nontrivial=len(shape) >= 2 and len(set(shape)) > 1)
            got_p = float(ens.prob_dist[tuple(idx)]) if len(idx) > 1 else float(ens.prob_dist[int(idx[0])])
            if abs(got_p - p) > 1e-9 or abs(float(ens.prob_dist.ps[k_model]) - p) > 1e-9:
                ctx.violation("ensemble_mprocess", site, "probability-layout", "outcome %s: probability %s (flat entry %s), Born rule gives %s" % (idx, got_p, ens.prob_dist.ps[k_model], p), dict(case, idx=list(idx)))
                continue
            if p > 1e-6:
                post = x / p
                got = ens.state(tuple(idx) if len(idx) > 1 else int(idx[0])).to_density_matrix()
                got2 = ens.states[k_model].to_density_matrix()
                if np.abs(got - post).max() > 1e-8 or np.abs(got2 - post).max() > 1e-8:
                    ctx.violation("ensemble_mprocess", site, "state-layout", "outcome %s: post-measurement state differs from K rho K^dag / p by %.3g" % (idx, np.abs(got - post).max()), dict(case, idx=list(idx)))
        # zero-probability FIRST outcomes (the class the layout depends on): position of the impossible first outcomes
        p_first = born.reshape(shape[0], -1).sum(axis=1)
        zf = [i for i in range(shape[0]) if p_first[i] < 1e-12]
        lab = "generic" if not first else ("first-outcome-impossible:" + ("none" if not zf else "last-only" if zf == [shape[0] - 1] else "non-last"))
        ctx.count("ensemble_mprocess", key=(case["seed"], tuple(shape), "table", bool(first), route), nontrivial=len(shape) >= 2, label=lab + ("/zero-entries-before-end" if nzero_nonlast else "") + "/route:" + route)
        # the joint's marginal over the first k variables is the distribution after the first k measurements
        for kk in range(1, len(shape)):
            with warnings.catch_warnings():
                warnings.simplefilter("ignore")
                mg = ens.prob_dist.marginalize(list(range(kk)))
            e = born.reshape(int(np.prod(shape[:kk])), -1).sum(axis=1)
            if list(mg.shape) != shape[:kk] or not flow.allclose(list(mg.ps), list(e), 1e-8):
                ctx.violation("ensemble_mprocess", site, "marginal-of-joint", "marginal over the first %d measurement(s) is %s, their own outcome distribution is %s" % (kk, list(mg.ps), list(e)), case)




def _routes(k):
    if k == 1:
        return ["seq"]
    if k == 2:
        return ["seq", "variadic", "(BA)r"]
    return ["seq", "variadic", "(C(BA))r", "((CB)A)r", "C((BA)r)", "(CB)(Ar)"]


def _apply_route(route, mps, st, cq):
    if route == "seq":
        ens = cq(mps[0], st)
        for mp in mps[1:]:
            ens = cq(mp, ens)
        return ens
    if route == "variadic":
        return cq(*(list(reversed(mps)) + [st]))
    a, b = mps[0], mps[1]
    if route == "(BA)r":
        return cq(cq(b, a), st)
    c = mps[2]
    return {"(C(BA))r": lambda: cq(cq(c, cq(b, a)), st), "((CB)A)r": lambda: cq(cq(cq(c, b), a), st),
            "C((BA)r)": lambda: cq(c, cq(cq(b, a), st)), "(CB)(Ar)": lambda: cq(cq(c, b), cq(a, st))}[route]()


_CSYS = {}


def _csys(kind):
    from quara.objects.composite_system_typical import generate_composite_system
    if kind not in _CSYS:
        _CSYS[kind] = generate_composite_system(kind, 1)
    return _CSYS[kind]


def gen_eigen_cases(ctx, n):
    """first measurement projective, input = eigenstate / mixture of eigenstates: every position of the certain outcome"""
    rng = ctx.rng
    cases = []
    i = 0
    while len(cases) < n:
        sys_ = ["qubit", "qutrit", "qutrit"][i % 3]
        d = 2 if sys_ == "qubit" else 3
        counts = rng.choice([[2, 3], [3, 2], [3, 3], [2, 2], [4, 2], [3, 2, 2], [2, 3, 2], [4, 3]])
        m0 = counts[0]
        groups = [rng.randrange(m0) for _ in range(d)]
        # the input's support: one eigenvector (pure eigenstate) or, for the qutrit, sometimes two
        supp = rng.sample(range(d), 1 if (d == 2 or rng.random() < 0.6) else 2)
        # steer the certain outcome through every position: force the supported vectors' outcome
        target = i % m0
        groups[supp[0]] = target
        ws = [Fraction(0)] * d
        if len(supp) == 1:
            ws[supp[0]] = Fraction(1)
        else:
            a = Fraction(rng.randint(1, 7), 8)
            ws[supp[0]], ws[supp[1]] = a, 1 - a
        zero_at = [[]] + [([rng.randrange(mm)] if (mm >= 3 and rng.random() < 0.4) else []) for mm in counts[1:]]
        cases.append({"seed": rng.randrange(10 ** 6), "sys": sys_, "counts": counts, "zero_at": zero_at,
                      "first": {"groups": groups, "rot": rng.random() < 0.5, "weights": ["%d/%d" % (w.numerator, w.denominator) for w in ws]}})
        i += 1
    return cases


def chk_ensemble_zero(ctx, case):
    """an ensemble whose distribution is the all-zero distribution, measured: shape old + new, all probabilities 0"""
    from quara.objects.operators import compose_qoperations
    from quara.objects.mprocess import MProcess
    from quara.objects.state import State
    from quara.objects.state_ensemble import StateEnsemble
    from quara.objects.multinomial_distribution import MultinomialDistribution as MD
    from quara.objects.gate import to_hs_from_kraus_matrices
    import warnings
    rs = np.random.RandomState(case["seed"])
    c = _csys("qubit")
    shape = list(case["shape"]); mm = case["m"]
    n = int(np.prod(shape))
    with warnings.catch_warnings():
        warnings.simplefilter("ignore")
        states = [State(c, np.zeros(4), is_physicality_required=False) for _ in range(n)]
        se = StateEnsemble(states, MD(np.zeros(n), shape=tuple(shape)))
        mp = MProcess(c, [to_hs_from_kraus_matrices(c, [k]) for k in _instrument(rs, 2, mm)], is_physicality_required=False)
        ens = compose_qoperations(mp, se)
    ctx.count("ensemble_mprocess", key=("zero", tuple(shape), mm), nontrivial=True, label="zero-distribution")
    if list(ens.prob_dist.shape) != shape + [mm] or len(ens.states) != n * mm or np.abs(ens.prob_dist.ps).max() != 0 or not ens.prob_dist.is_zero_dist:
        ctx.violation("ensemble_mprocess", "compose MProcess on state/ensemble", "zero-distribution", "zero ensemble of shape %s measured with %d outcomes: shape %s ps %s" % (shape, mm, ens.prob_dist.shape, list(ens.prob_dist.ps)), case)


def chk_ensemble_skeleton(ctx, case):
    """the list bookkeeping of operators._compose_qoperations_MProcess_StateEnsemble on its own: the per-state measurement is replaced
    by a stub that returns TAGGED entries, so the layout of the produced (states, probabilities, shape) is compared with the model's
    measure_all (Model/C16_Ensemble.v, theorem C16_measure_all_layout) for arbitrary old shapes, instrument outcome SHAPES (also
    multi-dimensional) and zero-probability old entries in every position — independently of any numerics"""
    from quara.objects import operators as ops
    from quara.objects.state_ensemble import StateEnsemble
    from quara.objects.multinomial_distribution import MultinomialDistribution as MD
    import types, warnings
    m = ctx.get_model()
    osh, msh = case["old_shape"], case["mshape"]
    n, mm = int(np.prod(osh)), int(np.prod(msh))
    p_old = [float(Fraction(x)) for x in case["p_old"]]
    cond = [[float(Fraction(x)) for x in row] for row in case["cond"]]

    class Tag:
        def __init__(self, e, j=None): self.e, self.j = e, j

        def generate_zero_obj(self): return Tag(-1, -1)
    old_states = [Tag(e) for e in range(n)]
    with warnings.catch_warnings():
        warnings.simplefilter("ignore")
        se = StateEnsemble(list(old_states), MD(np.array(p_old), shape=tuple(osh)))
    w_old = [float(x) for x in se.prob_dist.ps]
    e_mp, e_old = case.get("eps", [1e-8, 1e-8])
    se = StateEnsemble(list(old_states), se.prob_dist, eps_zero=e_old)
    fake = types.SimpleNamespace(shape=tuple(msh), hss=[None] * mm, eps_zero=e_mp, mode_sampling=False)

    def stub(elem1, state_old, weight=1.0):
        return [Tag(state_old.e, j) for j in range(mm)], [weight * c for c in cond[state_old.e]]
    saved = ops._compose_qoperations_MProcess_State_for_States
    ops._compose_qoperations_MProcess_State_for_States = stub
    try:
        with warnings.catch_warnings():
            warnings.simplefilter("ignore")
            ens = ops._compose_qoperations_MProcess_StateEnsemble(fake, se)
            ens1 = ops._compose_qoperations_MProcess_State(fake, old_states[0])      # the State entry point, same instrument
    finally:
        ops._compose_qoperations_MProcess_State_for_States = saved
    # one state measured by an instrument whose outcome shape may be a multi-index: the ensemble carries THAT shape (C16_compose_state_table)
    exp1 = np.array(cond[0]); 
    if (exp1 < 1e-8).any():
        exp1 = np.where(exp1 < 1e-8, 0.0, exp1); exp1 = exp1 / exp1.sum()
    ctx.count("ensemble_skeleton", key=("state-entry", tuple(msh), tuple(case["cond"][0])), nontrivial=len(msh) >= 2, label="state-entry/mshape-rank%d" % len(msh))
    if list(ens1.prob_dist.shape) != msh or [(t.e, t.j) for t in ens1.states] != [(0, j) for j in range(mm)] \
            or not flow.allclose([float(x) for x in ens1.prob_dist.ps], list(exp1), 1e-12) or float(ens1.eps_zero) != e_mp:
        ctx.violation("ensemble_skeleton", "operators._compose_qoperations_MProcess_State", "layout",
                      "instrument of outcome shape %s on one state: ensemble shape %s, states %s, ps %s, eps_zero %s; expected shape %s, outcomes in order, ps %s, eps_zero %s" % (
                          msh, ens1.prob_dist.shape, [(t.e, t.j) for t in ens1.states], list(ens1.prob_dist.ps), ens1.eps_zero, msh, list(exp1), e_mp), case)
    site = "operators._compose_qoperations_MProcess_StateEnsemble"
    nsh = osh + msh
    if list(ens.prob_dist.shape) != nsh or len(ens.states) != n * mm or len(ens.prob_dist.ps) != n * mm:
        ctx.violation("ensemble_skeleton", site, "shape", "shape %s, %d states, %d probabilities; expected shape %s" % (ens.prob_dist.shape, len(ens.states), len(ens.prob_dist.ps), nsh), case)
        return
    expect = np.array([w_old[e] * cond[e][j] for e in range(n) for j in range(mm)])
    if (expect < 1e-8).any() and expect.sum() > 0:
        expect = np.where(expect < 1e-8, 0.0, expect); expect = expect / expect.sum()
    codes = [float(e * mm + j) for e in range(n) for j in range(mm)]
    zpos = [e for e in range(n) if w_old[e] == 0]
    ctx.count("ensemble_skeleton", key=("table", tuple(osh), tuple(msh), tuple(case["p_old"])), nontrivial=True,
              label="old-zero:" + ("none" if not zpos else "last-only" if zpos == [n - 1] else "non-last") + ("/mshape-rank%d" % len(msh)))
    for idx in itertools.product(*[range(k) for k in nsh]):
        e_m, code, total = [int(v) for v in m.call("ens.measured_entry", [len(osh)] + osh + [len(msh)] + msh + [len(nsh)] + list(idx), codes)]
        j_m = code - e_m * mm
        st = ens.state(tuple(idx)) if len(idx) > 1 else ens.state(int(idx[0]))
        k_flat = int(m.call("idx.serial_from_multi", [len(nsh)] + nsh + list(idx))[0])
        ctx.count("ensemble_skeleton", key=(tuple(osh), tuple(msh), tuple(case["p_old"]), idx), nontrivial=len(osh) + len(msh) >= 2)
        pr = float(ens.prob_dist[tuple(idx)]) if len(idx) > 1 else float(ens.prob_dist[int(idx[0])])
        # a zero-probability OLD entry yields zero objects: which ones does not matter, their probability must be 0 in place
        if w_old[e_m] == 0:
            if pr != 0:
                ctx.violation("ensemble_skeleton", site, "layout", "entry %s belongs to the impossible old entry %d but has probability %s" % (idx, e_m, pr), dict(case, idx=list(idx)))
            continue
        if (st.e, st.j) != (e_m, j_m) or total != n * mm or abs(pr - expect[k_flat]) > 1e-12:
            ctx.violation("ensemble_skeleton", site, "layout", "entry %s: state of (old entry %s, outcome %s) with probability %s; model: (old entry %d, outcome %d), probability %s" % (
                idx, st.e, st.j, pr, e_m, j_m, expect[k_flat]), dict(case, idx=list(idx)))
    if float(ens.eps_zero) != max(e_mp, e_old) or float(ens.prob_dist.eps_zero) != 1e-8:
        ctx.violation("ensemble_skeleton", site, "eps-zero", "instrument eps_zero %s, ensemble eps_zero %s: result has %s (distribution %s); expected the maximum (distribution: default 1e-8)" % (
            e_mp, e_old, ens.eps_zero, ens.prob_dist.eps_zero), case)
    if [float(x) for x in se.prob_dist.ps] != w_old or any(a is not b for a, b in zip(se.states, old_states)):
        ctx.violation("ensemble_skeleton", site, "mutates-argument", "the measured ensemble was changed by the call", case)


def sub_ensemble_skeleton(ctx):
    rng = ctx.rng
    cases = []
    for i in range(ctx.n(40, 300)):
        osh = rng.choice([[2], [3], [4], [2, 2], [2, 3], [3, 2], [1, 3]])
        msh = rng.choice([[2], [3], [2, 2], [2, 3], [1], [4]])
        n, mm = int(np.prod(osh)), int(np.prod(msh))
        w = [rng.randint(1, 9) for _ in range(n)]
        for z in rng.sample(range(n), rng.randint(0, n - 1)):
            w[z] = 0
        if i % 3 == 0 and n >= 2:
            w[i % (n - 1)] = 0          # an impossible old entry that is NOT the last one
            if sum(w) == 0:
                w[n - 1] = 1
        cond = []
        for e in range(n):
            c = [rng.randint(0, 5) for _ in range(mm)]
            if sum(c) == 0:
                c[rng.randrange(mm)] = 1
            cond.append(["%d/%d" % (x, sum(c)) for x in c])
        cases.append({"old_shape": osh, "mshape": msh, "p_old": ["%d/%d" % (x, sum(w)) for x in w], "cond": cond,
                      "eps": rng.choice([[1e-8, 1e-8], [2.0 ** -20, 1e-8], [1e-8, 2.0 ** -24], [0.0, 2.0 ** -40], [2.0 ** -30, 0.0]])})
    ctx.sample("ensemble_skeleton", cases[0])
    ctx.run_cases("ensemble_skeleton", chk_ensemble_skeleton, cases)


def sub_ensemble_mprocess(ctx):
    cases = []
    for i in range(ctx.n(24, 200)):
        counts = ctx.rng.choice([[2], [3], [2, 3], [3, 2], [2, 4], [4, 3], [3, 2, 2], [2, 3, 4]][: (5 if ctx.quick else 8)])
        cases.append({"seed": ctx.rng.randrange(10 ** 6), "sys": ctx.rng.choice(["qubit", "qubit", "qutrit"]), "counts": counts})
    cases += gen_eigen_cases(ctx, ctx.n(48, 400))
    ctx.sample("ensemble_mprocess", cases[0]); ctx.sample("ensemble_mprocess", cases[-1])
    ctx.run_cases("ensemble_mprocess", chk_ensemble_mprocess, cases)
    zc = [{"seed": ctx.rng.randrange(10 ** 6), "shape": sh, "m": mm} for sh, mm in [([2], 2), ([3], 2), ([2, 3], 2), ([2], 3)]]
    ctx.run_cases("ensemble_mprocess", chk_ensemble_zero, zc)


SUBS = [("index_maps", sub_index_maps), ("dist", sub_dist), ("ensemble", sub_ensemble), ("ensemble_mprocess", sub_ensemble_mprocess),
        ("ensemble_skeleton", sub_ensemble_skeleton), ("sampling", sub_sampling)]
FNS = {"index_maps": chk_index_shape, "dist": chk_dist, "ensemble": chk_ensemble, "ensemble_mprocess": chk_ensemble_mprocess,
       "ensemble_skeleton": chk_ensemble_skeleton, "sampling": chk_sampling}


EQUIV_FILES = ["C16_MdEquiv", "C16_CondEquiv"]      # coq/gen/*.v, in dependency order


def regen_md(ctx):
    """translator tie for the probability bookkeeping (same protocol as flow.regen_check, with this property's own translator
    gen/c16_py2coq.py): regenerate Gallina definitions of validate_prob_dist, MultinomialDistribution.__init__ / __getitem__ /
    marginalize / conditionalize, StateEnsemble.__init__ / state and operators._compose_qoperations_MProcess_StateEnsemble from the
    CURRENT source, compile them, re-check coq/gen/C16_MdEquiv.v and coq/gen/C16_CondEquiv.v (regenerated = hand-written model;
    transported theorems).  returns (ok, info)"""
    import os, shutil, subprocess, sys
    import runner
    V = runner.V
    scratch = os.path.join(ctx.scratch, "gen")
    os.makedirs(scratch, exist_ok=True)
    gen_v = os.path.join(scratch, "Gen_c16_md.v")
    srcs, all_thms = {}, []
    for name in EQUIV_FILES:
        src = open(os.path.join(V, "coq", "gen", name + ".v")).read()
        src_nc = re.sub(r"\(\*.*?\*\)", " ", src, flags=re.S)
        thms = re.findall(r"^\s*Theorem\s+([\w']+)", src_nc, flags=re.M)
        srcs[name] = (src, thms)
        all_thms += thms
    ctx.theorems = list(ctx.theorems) + [t for t in all_thms if t not in ctx.theorems]
    ctx.obligations += len(all_thms)
    r = subprocess.run([sys.executable, os.path.join(V, "gen", "c16_py2coq.py"), os.environ.get("VERIF_REPO", "/repo"), gen_v],
                       capture_output=True, text=True, timeout=120)
    if r.returncode != 0:
        return False, {"theorem": all_thms[0], "error": "translator rejected the source (outside its subset): " + (r.stdout + r.stderr)[-600:]}
    q = ["-Q", os.path.join(V, "coq", "theories"), "QV", "-Q", scratch, "QVGen"]
    r = subprocess.run(["timeout", "300", "coqc"] + q + [gen_v], capture_output=True, text=True)
    if r.returncode != 0:
        return False, {"theorem": all_thms[0], "error": "regenerated definitions do not compile: " + (r.stdout + r.stderr)[-600:]}
    ok, first_bad = True, None
    for name in EQUIV_FILES:
        src, thms = srcs[name]
        dst = os.path.join(scratch, name + ".v")
        shutil.copy(os.path.join(V, "coq", "gen", name + ".v"), dst)
        r = subprocess.run(["timeout", "600", "coqc"] + q + [dst], capture_output=True, text=True)
        out = r.stdout + r.stderr
        if r.returncode != 0:
            m_ = re.search(r"line (\d+), characters", out)
            thm = None
            if m_:
                upto = "\n".join(src.splitlines()[:int(m_.group(1))])
                names = re.findall(r"^\s*(?:Theorem|Lemma)\s+([\w']+)", upto, flags=re.M)
                thm = names[-1] if names else None
            return False, {"theorem": thm, "error": out[-800:]}       # later files depend on this one
        blocks = runner.parse_assumptions(out)
        bad = [a for closed, axs in blocks for a in axs if a not in runner.ALLOWED_AXIOMS and a.split(".")[-1] not in runner.ALLOWED_AXIOMS]
        if len(blocks) != len(thms) or bad:
            ok = False
            first_bad = first_bad or {"theorem": thms[0], "error": "assumption gate on regenerated proofs (%s): %d blocks / %d theorems, disallowed %s" % (name, len(blocks), len(thms), bad)}
            continue
        for t, (closed, axs) in zip(thms, blocks):
            ctx.axioms[t] = "closed" if closed else sorted(set(axs))
        ctx.discharged += len(thms)
    return (True, {}) if ok else (False, first_bad)


def run(ctx):
    import runner
    ctx.rule = ("index maps: exhaustive enumeration of shapes x serial indices, implementation vs extracted Coq model and vs the "
                "row-major/inverse predicates; distributions: seeded random tensors with exact zeros and sub-threshold entries, "
                "all listed subsets/orders of retained axes and conditioning assignments, a malformed stream, EXACT boundary values "
                "(entries at / one ulp off the zero threshold and the validation tolerance, no band) and every kind of index argument; "
                "ensembles: generic inputs and eigenstate inputs of a projective first measurement (impossible outcomes in every "
                "position) against the Born rule; non-trivial = at least two variables (rank >= 2), distinct = distinct (shape, data, query)")
    # flow.standard_run, plus this property's own translator tie (flow.regen_check is bound to gen/py2coq.py)
    ok, info = runner.check_props(ctx)
    ok1, info1 = flow.regen_check(ctx, "index_util", "C16_Equiv")
    ctx.obligations += getattr(ctx, "regen_obligations", 0)
    ctx.discharged += getattr(ctx, "regen_discharged", 0)
    ok2, info2 = regen_md(ctx)
    ctx.tie_broken = not (ok1 and ok2)
    for okx, infox, what in ((ok1, info1, "index_util / coq/gen/C16_Equiv.v"), (ok2, info2, "distribution code / coq/gen/C16_MdEquiv.v")):
        if not okx:
            ok, info = False, infox
            ctx.note("regenerated-model obligations (%s) not discharged: %s — the sweeps are widened" % (what, str(infox)[:400]))
    if not ok:
        ctx.discharged = min(ctx.discharged, ctx.obligations - 1)
    for name, fn in SUBS:
        if ctx.only is None or name in ctx.only:
            fn(ctx)
    if not ok and not ctx.violations:
        ctx.violation("theorems", "Props/%s.v" % ctx.prop_id, "theorem-broken:%s" % info.get("theorem"),
                      "theorem %s no longer checks: %s" % (info.get("theorem"), info.get("error", "")[-400:]),
                      {"theorem": info.get("theorem"), "error": info.get("error")}, no_input=True)
    elif not ok:
        ctx.note("theorem obligations not discharged: %s" % info)


def replay(ctx, doc):
    flow.standard_replay(ctx, doc, FNS)
