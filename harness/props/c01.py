"""C01 — physicality verdicts match the mathematical definitions at the given tolerance.

The expected verdicts come from the Coq model of the verdict functions (Model/C01_Verdicts.v, extracted, run over Qc on the
EXACT dyadic values of the very floats handed to quara; PSD through the shared exact decision procedure on H + atol*I).
A verdict is compared only outside the ambiguity band: the model is evaluated at atol*(1-ETA) and atol*(1+ETA); by the
monotonicity theorems (C01_*_mono) a verdict that is true at the lower and false at the upper end is "in band" (counted as
trivial, never as agreement); true at the lower end => expected True, false at the upper end => expected False.

The model the implementation is compared with is the model with rtol = 0 everywhere (Props/C01.v: "atol is the only slack"),
i.e. quara AFTER the repairs fixes/C01-state-is-trace-one-rtol.diff and fixes/C01-povm-is-identity-sum-rtol.diff.
Before those repairs State.is_trace_one / Povm.is_identity_sum call np.isclose / np.allclose without rtol (numpy's default
1e-5): when such a verdict disagrees with the rtol = 0 model the model is evaluated once more with rtol = 1e-5, only to CLASSIFY
the violation ('relative-tolerance-slack' if the implementation equals that variant, 'verdict-mismatch' otherwise)."""
import math
import numpy as np
from common import flow
from common.model import cflat, rflat

LEVEL = "proof"
ETA = 0.5
NP_RTOL = 1e-5
ATOLS = [1e-13, 1e-12, 1e-10, 1e-8, 1e-6, 1e-5, 1e-4, 1e-3, 1e-2]
GARBAGE = 0.75            # value passed in argument slots that the code path under test must ignore

SLACK_SITE = {"state": "State.is_trace_one", "povm": "Povm.is_identity_sum"}
SITES = {
    "state": {"eq": "State.is_trace_one", "ineq": "State.is_positive_semidefinite", "phys": "State.is_physical", "ctor": "State.__init__", "herm": "State.is_hermitian"},
    "povm": {"eq": "Povm.is_identity_sum", "ineq": "Povm.is_positive_semidefinite", "phys": "Povm.is_physical", "ctor": "Povm.__init__"},
    "gate": {"eq": "gate.is_tp", "ineq": "gate.is_cp", "phys": "Gate.is_physical", "ctor": "Gate.__init__"},
    "mprocess": {"eq": "MProcess.is_sum_tp", "ineq": "MProcess.is_cp", "phys": "MProcess.is_physical", "ctor": "MProcess.__init__"},
}


# ----------------------------------------------------------------------------------------------- systems and bases
_CS = {}
SHAPES = {"q": [2], "t": [3], "qq": [2, 2], "qt": [2, 3], "tq": [2, 3]}
# ElementalSystem names; "tq": the systems are handed over as (qubit named 7, qutrit named 3): CompositeSystem orders by name -> qutrit x qubit
NAMES = {"tq": [7, 3]}
FLAG_KINDS = ["named", "nggm"]
GENERIC_KINDS = ["unnorm", "nherm", "herm", "perm", "mixed"]


def elem_basis(kind, dim):
    from quara.objects import matrix_basis as mb
    named = mb.get_normalized_pauli_basis() if dim == 2 else mb.get_normalized_gell_mann_basis()
    if kind == "named":
        return named
    if kind == "nggm":
        return mb.get_normalized_generalized_gell_mann_basis(1, dim)
    if kind == "unnorm":
        return mb.get_pauli_basis() if dim == 2 else mb.get_gell_mann_basis()
    if kind == "nherm":
        return mb.get_normalized_hermitian_basis(dim)
    if kind == "herm":
        return mb.get_hermitian_basis(dim)
    if kind == "comp":
        return mb.get_comp_basis(dim)
    mats = [np.array(b, dtype=complex) for b in named.basis]
    if kind == "perm":      # orthonormal, Hermitian, identity NOT first
        return mb.MatrixBasis(mats[1:] + mats[:1])
    if kind == "mixed":     # Hermitian, neither orthogonal nor normalised, first element not a multiple of the identity
        un = [np.array(b, dtype=complex) for b in (mb.get_pauli_basis() if dim == 2 else mb.get_gell_mann_basis()).basis]
        import random
        r = random.Random(1000 + dim)
        n = len(un)
        out = []
        for a in range(n):
            m = un[a].copy()
            for b in range(a + 1, n):
                m = m + r.choice([0, 0, 1, -1, 2]) * un[b]
            out.append(m)
        out[0] = out[0] + un[n - 1]
        return mb.MatrixBasis(out)
    raise ValueError(kind)


class CS:
    def __init__(self, shape, kind):
        from quara.objects.composite_system import CompositeSystem
        from quara.objects.elemental_system import ElementalSystem
        dims = SHAPES[shape]
        self.shape, self.kind = shape, kind
        names = NAMES.get(shape, list(range(len(dims))))
        self.c = CompositeSystem([ElementalSystem(nm, elem_basis(kind, dm)) for nm, dm in zip(names, dims)])
        self.d = int(self.c.dim)
        self.B = [np.asarray(b.toarray() if hasattr(b, "toarray") else b, dtype=complex) for b in self.c.basis()]
        self.flag = bool(self.c.is_orthonormal_hermitian_0thprop_identity)
        self.bflat = []
        for b in self.B:
            self.bflat += cflat(b)
        self.M = np.array([b.flatten() for b in self.B]).T          # columns vec(B_a), row-major
        self.Minv = np.linalg.inv(self.M)
        self.sd = float(np.sqrt(self.d))
        G = self.M.conj().T @ self.M
        self.orthonormal = bool(np.allclose(G, np.eye(self.d ** 2), atol=1e-12))
        self.hermitian = all(np.allclose(b, b.conj().T, atol=0) for b in self.B)


def equal_csys(cs):
    """a NEW CompositeSystem (new ElementalSystems, newly generated bases) equal to cs.c but not identical to it"""
    from quara.objects.composite_system import CompositeSystem
    from quara.objects.elemental_system import ElementalSystem
    dims = SHAPES[cs.shape]
    names = NAMES.get(cs.shape, list(range(len(dims))))
    return CompositeSystem([ElementalSystem(nm, elem_basis(cs.kind, dm)) for nm, dm in zip(names, dims)])


def get_cs(shape, kind):
    k = (shape, kind)
    if k not in _CS:
        _CS[k] = CS(shape, kind)
    return _CS[k]


# ----------------------------------------------------------------------------------------------- random matrices
def cgauss(rs, n, m):
    return rs.normal(size=(n, m)) + 1j * rs.normal(size=(n, m))


def unitary(rs, d):
    q, r = np.linalg.qr(cgauss(rs, d, d))
    ph = np.diag(r) / np.abs(np.diag(r))
    return q * ph


def perm_unitary(rs, d):
    """axis-aligned 'unitary': a permutation matrix (objects built from it are DIAGONAL in the computational basis, so a violation is
    visible on the diagonal of the density / POVM-element matrix -- the kind of object the upstream examples use)"""
    P = np.zeros((d, d), dtype=complex)
    for i, j in enumerate(rs.permutation(d)):
        P[i, int(j)] = 1.0
    return P


def aligned_kraus_set(rs, d, r):
    """Kraus operators sqrt(w_j) D_j P_j (P_j permutation, D_j diagonal of phases in {1,-1,i,-i}): Pauli-like channels; their Choi
    matrices have many exactly-zero diagonal entries"""
    w = rs.uniform(0.2, 1.0, size=r); w /= w.sum()
    Ks = []
    for j in range(r):
        D = np.diag(np.array([1, -1, 1j, -1j])[rs.randint(4, size=d)])
        Ks.append(np.sqrt(w[j]) * (D @ perm_unitary(rs, d)))
    return Ks


def null_noncp_hs(cs, rs):
    """HS matrix (w.r.t. cs's basis, which must be a flag basis) of a TRACE-ANNIHILATING Hermiticity-preserving map R != 0, scaled so that the
    smallest eigenvalue of its Choi matrix is -1: first row zero (weight Tr R(I) = 0), hence Choi trace 0, hence not completely positive"""
    n = cs.d * cs.d
    R = rs.normal(size=(n, n)); R[0, :] = 0.0
    if rs.rand() < 0.5:                       # sparse variant: one diagonal entry, like diag(0, 1, 0, 0)
        R = np.zeros((n, n)); R[1 + int(rs.randint(n - 1)), 1 + int(rs.randint(n - 1))] = 1.0
    C = sum(R[a, b] * np.kron(cs.B[a], cs.B[b].conj()) for a in range(n) for b in range(n))
    lam = np.linalg.eigvalsh((C + C.conj().T) / 2)[0]
    return np.ascontiguousarray(R / abs(lam), dtype=np.float64)


def inv_sqrt(S):
    w, U = np.linalg.eigh(S)
    return (U * (w ** -0.5)) @ U.conj().T


def groups(rs, d, m):
    """partition range(d) into m non-empty groups"""
    idx = list(rs.permutation(d))
    cuts = sorted(rs.choice(np.arange(1, d), size=m - 1, replace=False)) if m > 1 else []
    out, prev = [], 0
    for c in list(cuts) + [d]:
        out.append([int(i) for i in idx[prev:c]]); prev = c
    return out


def scb_of(Ks):
    return sum(np.kron(K, K.conj()) for K in Ks)


def reshuffle(S, d):
    return S.reshape(d, d, d, d).transpose(0, 2, 1, 3).reshape(d * d, d * d)


def hs_in_basis(cs, S):
    return np.ascontiguousarray((cs.Minv @ S @ cs.M).real, dtype=np.float64)


def coef(cs, X):
    return np.ascontiguousarray((cs.Minv @ np.asarray(X, dtype=complex).flatten()).real, dtype=np.float64)


def null_vector(C):
    w, U = np.linalg.eigh((C + C.conj().T) / 2)
    return U[:, 0]


# ----------------------------------------------------------------------------------------------- generators
def gen_state(cs, cls, eps, rs, aligned=False):
    d = cs.d
    if aligned:
        U = perm_unitary(rs, d)
    elif cs.kind == "comp":                     # real symmetric density matrices (the basis is not Hermitian)
        q, _ = np.linalg.qr(rs.normal(size=(d, d)))
        U = q.astype(complex)
    else:
        U = unitary(rs, d)
    p = np.zeros(d)
    if cls in ("interior", "tr_violate", "herm_violate"):
        p = rs.uniform(0.2, 1.0, size=d); p /= p.sum()
        if cls == "tr_violate":
            p = p + eps / d
    elif cls == "pure":
        p[0] = 1.0
    elif cls == "rankdef":
        r = int(rs.randint(1, d))
        p[:r] = rs.uniform(0.2, 1.0, size=r); p /= p.sum()
    elif cls == "eig_violate":
        r = int(rs.randint(1, d))
        p[:r] = rs.uniform(0.2, 1.0, size=r); p *= (1.0 + eps) / p.sum()
        p[d - 1] = -eps
    rho = (U * p) @ U.conj().T
    if cls == "herm_violate":                   # only with the computational basis: break Hermiticity by exactly eps in one entry
        i, j = [int(x) for x in rs.choice(d, size=2, replace=False)]
        rho = rho.copy(); rho[i, j] += eps
    return coef(cs, rho)


def gen_povm(cs, cls, eps, rs, m, aligned=False):
    d = cs.d
    real = cs.kind == "comp"
    if cls in ("projective", "eig_violate"):
        m = min(m, d)
        U = perm_unitary(rs, d) if aligned else (unitary(rs, d) if not real else np.linalg.qr(rs.normal(size=(d, d)))[0].astype(complex))
        gs = groups(rs, d, m)
        Es = [sum(np.outer(U[:, i], U[:, i].conj()) for i in g) for g in gs]
        if cls == "eig_violate":                # a RANDOM element gets the negative eigenvalue -eps (another one +eps: the sum stays I)
            x0 = int(rs.randint(len(gs))); x1 = (x0 + 1 + int(rs.randint(len(gs) - 1))) % len(gs)
            u = U[:, gs[x1][0]]
            P = np.outer(u, u.conj())
            Es[x0] = Es[x0] - eps * P; Es[x1] = Es[x1] + eps * P
    else:
        if cls == "rankdef":
            ranks = [max(1, int(math.ceil(d / m)))] * m
            ranks[0] = max(1, d - sum(ranks[1:])) if sum(ranks[1:]) < d else ranks[0]
        else:
            ranks = [d] * m
        As = []
        for r in ranks:
            L = cgauss(rs, d, r) if not real else rs.normal(size=(d, r)).astype(complex)
            As.append(L @ L.conj().T)
        S = sum(As)
        if np.linalg.eigvalsh(S)[0] < 1e-6:
            S = S + np.eye(d); As[0] = As[0] + np.eye(d)
        R = inv_sqrt(S)
        Es = [R @ A @ R for A in As]
        if cls == "sum_diag":
            i = int(rs.randint(d)); Es[0] = Es[0].copy(); Es[0][i, i] += eps
        elif cls == "null_violate":             # a TRACELESS element eps*H (H Hermitian, traceless, smallest eigenvalue -1) inserted at a random position,
            H = cgauss(rs, d, d) if not real else rs.normal(size=(d, d)).astype(complex)      # compensated in a full-rank element: the sum stays I
            if aligned:
                H = np.diag(rs.normal(size=d)).astype(complex)
            H = H + H.conj().T; H = H - np.trace(H) / d * np.eye(d); H = H / abs(np.linalg.eigvalsh(H)[0])
            x1 = int(rs.randint(len(Es))); Es[x1] = Es[x1] - eps * H
            Es.insert(int(rs.randint(len(Es) + 1)), eps * H)
        elif cls == "sum_offdiag":
            i, j = [int(x) for x in rs.choice(d, size=2, replace=False)]
            ph = 1.0 if real else np.exp(1j * rs.uniform(0, 2 * np.pi))
            Es[0] = Es[0].copy(); Es[0][i, j] += eps * ph; Es[0][j, i] += eps * np.conj(ph)
    return [coef(cs, E) for E in Es]


def kraus_set(rs, d, r):
    Ks = [cgauss(rs, d, d) for _ in range(r)]
    R = inv_sqrt(sum(K.conj().T @ K for K in Ks))
    return [K @ R for K in Ks]


def perturb_tp(cs, hs, S, eps, rs):
    d = cs.d
    if cs.flag:
        hs = hs.copy(); hs[0, int(rs.randint(d * d))] += eps
        return hs
    A = cgauss(rs, d, d); A = A + A.conj().T; A /= np.sqrt(np.vdot(A, A).real)
    S2 = S + eps * np.outer((np.eye(d) / d).flatten(), A.flatten().conj())
    return hs_in_basis(cs, S2)


def perturb_cp(cs, S, eps, rs_aligned=None):
    """subtract eps*|phi><phi| from the Choi matrix, phi a null vector; aligned variant: phi = a computational basis vector e_k with
    Choi[k,k] = 0 exactly (the violation then sits on the DIAGONAL of the Choi matrix)"""
    d = cs.d
    C = reshuffle(S, d)
    phi = null_vector(C)
    if rs_aligned is not None:
        zeros = [k for k in range(d * d) if abs(C[k, k]) < 1e-14 and np.abs(C[k, :]).max() < 1e-14]
        if zeros:
            phi = np.zeros(d * d, dtype=complex); phi[zeros[int(rs_aligned.randint(len(zeros)))]] = 1.0
    C2 = C - eps * np.outer(phi, phi.conj())
    return hs_in_basis(cs, reshuffle(C2, d))


def gen_gate(cs, cls, eps, rs, aligned=False):
    d = cs.d
    if cls in ("interior", "tp_violate"):
        r = d * d
    elif cls == "unitary":
        r = 1
    elif cls == "rankdef":
        r = int(rs.randint(2, max(3, d + 1)))
    else:                                      # cp_violate: needs a kernel
        r = int(rs.randint(1, d * d))
    S = scb_of(aligned_kraus_set(rs, d, r) if aligned else kraus_set(rs, d, r))
    hs = hs_in_basis(cs, S)
    if cls == "tp_violate":
        hs = perturb_tp(cs, hs, S, eps, rs)
    elif cls == "cp_violate":
        hs = perturb_cp(cs, S, eps, rs if aligned else None)
    return hs


def gen_mprocess(cs, cls, eps, rs, m, aligned=False):
    d = cs.d
    if cls == "luders":
        m = min(m, d)
        U = perm_unitary(rs, d) if aligned else unitary(rs, d); gs = groups(rs, d, m)
        sets = [[sum(np.outer(U[:, i], U[:, i].conj()) for i in g)] for g in gs]
    else:
        if cls in ("interior", "tp_violate"):
            rk = [d * d] * m
        else:
            rk = [int(rs.randint(1, 3)) for _ in range(m)]
        Ks = aligned_kraus_set(rs, d, sum(rk)) if aligned else kraus_set(rs, d, sum(rk))
        sets, p = [], 0
        for r in rk:
            sets.append(Ks[p:p + r]); p += r
    Ss = [scb_of(s) for s in sets]
    hss = [hs_in_basis(cs, S) for S in Ss]
    x0 = int(rs.randint(len(hss)))
    if cls == "tp_violate":
        hss[x0] = hss[x0].copy(); hss[x0][0, int(rs.randint(d * d))] += eps
    elif cls == "cp_violate":
        hss[x0] = perturb_cp(cs, Ss[x0], eps, rs if aligned else None)
    elif cls == "null_violate":                 # an outcome of ZERO (or tiny: <= 1e-9) weight that is not completely positive: eps * R, Tr R(I) = 0,
        hz = eps * null_noncp_hs(cs, rs)        # smallest Choi eigenvalue of R = -1; the other outcomes stay CP and the sum stays trace preserving
        w = [0.0, 0.0, 1e-9][int(rs.randint(3))]
        if w:
            hz[0, 0] = w; hss[x0] = hss[x0].copy(); hss[x0][0, 0] -= w
        hss.insert(int(rs.randint(len(hss) + 1)), hz)
    return hss


CLASSES = {
    "state": ["interior", "pure", "rankdef", "tr_violate", "eig_violate"],
    "povm": ["interior", "projective", "rankdef", "sum_diag", "sum_offdiag", "eig_violate", "null_violate"],
    "gate": ["interior", "unitary", "rankdef", "tp_violate", "cp_violate"],
    "mprocess": ["interior", "luders", "rankdef", "tp_violate", "cp_violate", "null_violate"],
}
VIOLATE = {"tr_violate", "eig_violate", "sum_diag", "sum_offdiag", "tp_violate", "cp_violate", "herm_violate", "null_violate"}
KS = [0.1, 0.4, 1.7, 3.0, 10.0, 100.0, 1e4, "O1"]     # 0.4 and 1.7 sit just outside the ambiguity band [0.5, 1.5]: a threshold off by a factor 2 is seen


KSW = KS + [0.4, 1.7, 1.7]      # near-threshold violations drawn three times / twice as often


def case_eps(case):
    if case["cls"] not in VIOLATE:
        return 0.0
    k = case["k"]
    e = 0.3 if k == "O1" else float(k) * case["atol"]
    return e * case.get("sign", 1)


def gen_data(cs, case):
    rs = np.random.RandomState(case["seed"] % (2 ** 32))
    eps = case_eps(case)
    t = case["type"]
    al = bool(case.get("aligned", False))
    if t == "state":
        return gen_state(cs, case["cls"], eps, rs, al)
    if t == "povm":
        return gen_povm(cs, case["cls"], eps, rs, case["m"], al)
    if t == "gate":
        return gen_gate(cs, case["cls"], eps, rs, al)
    return gen_mprocess(cs, case["cls"], eps, rs, case["m"], al)


# ----------------------------------------------------------------------------------------------- implementation / model adapters
CONFIGS = [
    {},
    {"on_para_eq_constraint": False, "mode_proj_order": "ineq_eq", "eps_proj_physical": 1e-2},
    {"on_algo_eq_constraint": False, "on_algo_ineq_constraint": False, "eps_truncate_imaginary_part": 1e-2, "is_estimation_object": False},
    {"eps_proj_physical": 0.3, "on_para_eq_constraint": False},
]


def relayout(arr, layout):
    """the same float64 values in another memory layout: 'F' Fortran order, 'view' a non-contiguous strided view of a larger buffer"""
    arr = np.array(arr, dtype=np.float64)
    if layout == "F":
        return np.asfortranarray(arr)
    if layout == "ro":
        arr = np.array(arr, dtype=np.float64); arr.setflags(write=False)
        return arr
    if layout == "view":
        big = np.full(tuple(2 * n + 1 for n in arr.shape), 7.25)
        sl = tuple(slice(1, None, 2) for _ in arr.shape)
        big[sl] = arr
        return big[sl]
    return arr


def build(cs, t, data, required=False, layout="C", cfg=0, csys=None):
    """layout / cfg: memory layout of the array arguments and non-default object configuration (projection / parametrisation options,
    eps_proj_physical, eps_truncate_imaginary_part, MProcess.eps_zero) -- none of which a physicality verdict may depend on"""
    from quara.objects.state import State
    from quara.objects.povm import Povm
    from quara.objects.gate import Gate
    from quara.objects.mprocess import MProcess
    kw = dict(CONFIGS[cfg % len(CONFIGS)])
    c_ = cs.c if csys is None else csys       # csys: an equal-but-not-identical CompositeSystem instance
    if t == "state":
        return State(c_, relayout(data, layout), is_physicality_required=required, **kw)
    if t == "povm":
        return Povm(c_, [relayout(v, layout) for v in data], is_physicality_required=required, **kw)
    if t == "gate":
        return Gate(c_, relayout(data, layout), is_physicality_required=required, **kw)
    if cfg % len(CONFIGS):
        kw["eps_zero"] = [1e-8, 0.3, 0.0][cfg % 3]
    return MProcess(c_, [relayout(h, layout) for h in data], is_physicality_required=required, **kw)


# The runner re-evaluates a sample of the short driver requests inside Coq with vm_compute (extraction cross-check).
# vm_compute runs Coq's own binary gcd and needs ~10 s for ONE qubit-gate request with full 53-bit mantissas, so the
# generic gate / instrument requests are made ineligible for that sample by trailing zeros (ignored by the ops);
# state / POVM requests and the origin-object / witness gate requests (same extracted arithmetic and PSD code) stay eligible.
PAD = [0] * 500


def model_call(ctx, cs, t, data, st, aeq, aineq, rtol, none, rq, want=0, pad=True):
    """one evaluation of the extracted model; returns dict of verdicts (+ values)"""
    m = ctx.get_model()
    d = cs.d
    n = 1 if none else 0
    tail = PAD if pad else []
    if t == "state":
        r = m.call("c01.state", [d, n, n, rq], [st, aeq, aineq, rtol] + cs.bflat + rflat(data))
        return {"tr": complex(float(r[0]), float(r[1])), "eq": bool(r[2]), "herm": bool(r[3]), "ineq": bool(r[4]), "phys": bool(r[5]), "raises": bool(r[6])}
    if t == "povm":
        flat = []
        for v in data:
            flat += rflat(v)
        r = m.call("c01.povm", [d, len(data), n, n, rq], [st, aeq, aineq, rtol] + cs.bflat + flat)
        s = r[4:]
        S = np.array([complex(float(s[2 * i]), float(s[2 * i + 1])) for i in range(d * d)]).reshape(d, d)
        return {"eq": bool(r[0]), "ineq": bool(r[1]), "phys": bool(r[2]), "raises": bool(r[3]), "sum": S}
    if t == "gate":
        r = m.call("c01.gate", [d, 1 if cs.flag else 0, n, n, rq, want], [st, aeq, aineq] + cs.bflat + rflat(data) + tail)
        out = {"tp_row": bool(r[0]), "tp_trace": bool(r[1]), "eq": bool(r[2]), "herm": bool(r[3]), "ineq": bool(r[4]), "phys": bool(r[5]), "raises": bool(r[6])}
        if want:
            s = r[7:]; n2 = d * d
            out["choi"] = np.array([complex(float(s[2 * i]), float(s[2 * i + 1])) for i in range(n2 * n2)]).reshape(n2, n2)
        return out
    flat = []
    for h in data:
        flat += rflat(h)
    r = m.call("c01.mprocess", [d, len(data), 1 if cs.flag else 0, n, n, rq], [st, aeq, aineq] + cs.bflat + flat + tail)
    return {"eq": bool(r[0]), "ineq": bool(r[1]), "phys": bool(r[2]), "raises": bool(r[3])}


def band(ctx, cs, t, data, a_eq, a_ineq, rtol, none, want=0, pad=True, eta=None):
    """expected verdicts outside the ambiguity band: dict key -> True / False / None (in band); plus the low-end raw result"""
    def call(f):
        if none:
            return model_call(ctx, cs, t, data, a_eq * f, GARBAGE, GARBAGE, rtol, True, 1, want, pad)
        return model_call(ctx, cs, t, data, GARBAGE, a_eq * f, a_ineq * f, rtol, False, 0, want, pad)
    eta = ETA if eta is None else eta
    lo = call(1.0 - eta)
    if lo["eq"] and lo["ineq"] and (t != "mprocess" or cs.flag):
        hi = lo          # monotonicity theorems: every verdict true at the lower tolerance stays true at the upper one
    else:
        hi = call(1.0 + eta)
    out = {}
    for k in ("eq", "ineq", "phys", "raises", "herm"):
        if k in lo:
            out[k] = lo[k] if lo[k] == hi[k] else None
    return out, lo


class WithAtol:
    """temporarily set the global Settings atol (always restored)"""
    def __init__(self, a):
        self.a = float(a)

    def __enter__(self):
        from quara.settings import Settings
        self.old = Settings.get_atol()
        Settings.set_atol(self.a)

    def __exit__(self, *exc):
        from quara.settings import Settings
        Settings.set_atol(self.old)
        return False


def judge(ctx, sub, t, key, what, impl, e0, ec_fn, case):
    """compare one implementation verdict with the expectation of the rtol=0 model (e0: True / False / None = in band).
    ec_fn (only for the two sites that used numpy's default rtol before the repair): () -> expectation under rtol=1e-5, used
    only to classify a disagreement."""
    impl = bool(impl)
    if e0 is None:
        return "band"
    if impl == e0:
        return "ok"
    if t in SLACK_SITE and ec_fn is not None:
        ec = ec_fn()     # None: the rtol=1e-5 variant is itself within its ambiguity band for this input
        if ec is None or (ec != e0 and impl == ec):
            ctx.violation(sub, SLACK_SITE[t], "relative-tolerance-slack",
                          "%s: %s is %s at atol=%g although the exact defect exceeds atol (model with rtol=0 says %s); it equals the model with numpy's default rtol=1e-5: atol is not the only slack" % (SITES[t][key], what, impl, case["atol"], e0), case)
            return "slack"
    ctx.violation(sub, SITES[t][key], "verdict-mismatch",
                  "%s: %s is %s, exact model says %s (atol=%g, class %s, basis %s/%s)" % (SITES[t][key], what, impl, e0, case["atol"], case["cls"], case["shape"], case["basis"]), case)
    return "bad"


class Lazy:
    """expectation under numpy's default rtol, computed at most once and only when a verdict disagrees with the rtol=0 model"""
    def __init__(self, fn):
        self.fn, self.val, self.done = fn, None, False

    def get(self, k):
        if not self.done:
            self.val, self.done = self.fn(), True
        return self.val[k]

    def at(self, k):
        return lambda: self.get(k)


def chk_obj(ctx, case):
    t = case["type"]; sub = t
    cs = get_cs(case["shape"], case["basis"])
    a = float(case["atol"]); a2 = float(case.get("atol2", a))
    data = gen_data(cs, case)
    cheap = t in ("state", "povm") or cs.d <= 2      # cheap: the explicit-atol and the mixed-tolerance expectations get their own model evaluations
    key = (t, case["shape"], case["basis"], case["cls"], case["atol"], str(case.get("k")), case["seed"])
    # ---- MProcess on a basis whose flag is False: the constructor must raise whatever is asked (modelled error branch)
    if t == "mprocess" and not cs.flag:
        mres = model_call(ctx, cs, t, data, a, GARBAGE, GARBAGE, 0.0, True, 0)
        try:
            build(cs, t, data, required=False); raised = False
        except ValueError:
            raised = True
        ctx.count(sub, key=key, nontrivial=True, label="ctor-flag-false")
        if raised != mres["raises"]:
            ctx.violation(sub, "MProcess.__init__", "basis-flag-guard", "constructor on a non-(orthonormal, Hermitian, identity-first) basis: raised=%s, model %s" % (raised, mres["raises"]), case)
        return
    lay, cfg, eta = case.get("layout", "C"), int(case.get("cfg", 0)), float(case.get("eta", ETA))
    csys = equal_csys(cs) if case.get("fresh") else None      # an equal-but-not-identical CompositeSystem instance
    obj = build(cs, t, data, required=False, layout=lay, cfg=cfg, csys=csys)
    want = 1 if (t == "gate" and cs.d <= 3) else 0
    has_rtol = t in SLACK_SITE
    # ---- expectations (model with rtol = 0); the rtol = 1e-5 variants are evaluated lazily, only to classify a disagreement
    n0, n0lo = band(ctx, cs, t, data, a, a, 0.0, True, want, eta=eta)                 # atol=None path (Settings) incl. constructor
    nc = Lazy(lambda: band(ctx, cs, t, data, a, a, NP_RTOL, True, eta=eta)[0]) if has_rtol else None
    if cheap:
        e0, e0lo = band(ctx, cs, t, data, a, a, 0.0, False, eta=eta)                  # explicit atol arguments
        ec = Lazy(lambda: band(ctx, cs, t, data, a, a, NP_RTOL, False, eta=eta)[0]) if has_rtol else None
        x0 = band(ctx, cs, t, data, a, a2, 0.0, False, eta=eta)[0]                    # different tolerances for the two constraints
        xc = Lazy(lambda: band(ctx, cs, t, data, a, a2, NP_RTOL, False, eta=eta)[0]) if has_rtol else None
    else:
        e0, ec, e0lo = n0, nc, n0lo
        x0 = xc = None

    def L(lz, k):
        return lz.at(k) if lz is not None else None
    # ---- implementation
    judge(ctx, sub, t, "eq", "is_eq_constraint_satisfied(atol)", obj.is_eq_constraint_satisfied(a), e0["eq"], L(ec, "eq"), case)
    judge(ctx, sub, t, "ineq", "is_ineq_constraint_satisfied(atol)", obj.is_ineq_constraint_satisfied(a), e0["ineq"], L(ec, "ineq"), case)
    judge(ctx, sub, t, "phys", "is_physical(atol, atol)", obj.is_physical(a, a), e0["phys"], L(ec, "phys"), case)
    if x0 is not None:
        judge(ctx, sub, t, "phys", "is_physical(atol_eq_const=%g, atol_ineq_const=%g)" % (a, a2),
              obj.is_physical(atol_eq_const=a, atol_ineq_const=a2), x0["phys"], L(xc, "phys"), case)
    with WithAtol(a):
        i_eq = obj.is_eq_constraint_satisfied(); i_ineq = obj.is_ineq_constraint_satisfied(); i_ph = obj.is_physical()
        try:
            build(cs, t, data, required=True, layout=lay, cfg=cfg); raised = False
        except ValueError:
            raised = True
    judge(ctx, sub, t, "eq", "is_eq_constraint_satisfied() under Settings atol", i_eq, n0["eq"], L(nc, "eq"), case)
    judge(ctx, sub, t, "ineq", "is_ineq_constraint_satisfied() under Settings atol", i_ineq, n0["ineq"], L(nc, "ineq"), case)
    judge(ctx, sub, t, "phys", "is_physical() under Settings atol", i_ph, n0["phys"], L(nc, "phys"), case)
    judge(ctx, sub, t, "ctor", "constructor(is_physicality_required=True) raises", raised, n0["raises"], L(nc, "raises"), case)
    # the verdict functions of the specific class
    if t == "state":
        judge(ctx, sub, t, "eq", "is_trace_one(atol)", obj.is_trace_one(a), e0["eq"], L(ec, "eq"), case)
        judge(ctx, sub, t, "ineq", "is_positive_semidefinite(atol)", obj.is_positive_semidefinite(a), e0["ineq"], L(ec, "ineq"), case)
        judge(ctx, sub, t, "herm", "is_hermitian(atol)", obj.is_hermitian(a), e0["herm"], None, case)
        tr = complex(np.trace(obj.to_density_matrix()))
        if abs(tr - e0lo["tr"]) > 1e-12 * (1 + abs(tr)):
            ctx.violation(sub, "State.to_density_matrix", "value", "trace of the denoted operator %r, model %r" % (tr, e0lo["tr"]), case)
    elif t == "povm":
        judge(ctx, sub, t, "eq", "is_identity_sum(atol)", obj.is_identity_sum(a), e0["eq"], L(ec, "eq"), case)
        judge(ctx, sub, t, "ineq", "is_positive_semidefinite(atol)", obj.is_positive_semidefinite(a), e0["ineq"], L(ec, "ineq"), case)
        S = np.asarray(obj._sum_matrix())
        if np.abs(S - e0lo["sum"]).max() > 1e-12 * (1 + np.abs(S).max()):
            ctx.violation(sub, "Povm._sum_matrix", "value", "sum of the elements differs from the model by %g" % np.abs(S - e0lo["sum"]).max(), case)
    elif t == "gate":
        judge(ctx, sub, t, "eq", "is_tp(atol)", obj.is_tp(a), e0["eq"], None, case)
        judge(ctx, sub, t, "ineq", "is_cp(atol)", obj.is_cp(a), e0["ineq"], None, case)
        if want:
            C = np.asarray(obj.to_choi_matrix_with_sparsity())
            if np.abs(C - n0lo["choi"]).max() > 1e-11 * (1 + np.abs(C).max()):
                ctx.violation(sub, "gate.to_choi_from_hs_with_sparsity", "value", "Choi matrix differs from the model by %g" % np.abs(C - n0lo["choi"]).max(), case)
    else:
        judge(ctx, sub, t, "eq", "is_sum_tp(atol)", obj.is_sum_tp(a), e0["eq"], None, case)
        judge(ctx, sub, t, "ineq", "is_cp(atol)", obj.is_cp(a), e0["ineq"], None, case)
    # the same object reached by the other routes (copy(); generate_from_var of its own variables when the equality constraint is NOT
    # parametrised away, so that var = all the data): same verdicts
    routes = [("copy()", obj.copy())]
    if not obj.on_para_eq_constraint:
        routes.append(("generate_from_var(to_var())", obj.generate_from_var(obj.to_var(), is_physicality_required=False)))
    for rname, ro in routes:
        for nm, got in (("eq", ro.is_eq_constraint_satisfied(a)), ("ineq", ro.is_ineq_constraint_satisfied(a)), ("phys", ro.is_physical(a, a))):
            if e0[nm] is not None and bool(got) != e0[nm]:
                ctx.violation(sub, SITES[t][nm], "verdict-differs-by-construction-route", "%s on the object obtained by %s: %s, exact model %s (atol=%g, class %s, basis %s/%s)" % (
                    SITES[t][nm], rname, bool(got), e0[nm], a, case["cls"], case["shape"], case["basis"]), case)
    # loosening the tolerance never turns a true verdict false: evaluated directly on the implementation over the whole grid
    # (exact in floating point too: the same trace / sum / eigenvalues are compared with a growing threshold; theorems C01_*_monotone)
    grid = sorted(set(ATOLS + [a, a2]))
    for nm, f in (("eq", obj.is_eq_constraint_satisfied), ("ineq", obj.is_ineq_constraint_satisfied), ("phys", lambda x: obj.is_physical(x, x))):
        seen = None
        for g in grid:
            r = bool(f(g))
            if seen is not None and not r:
                ctx.violation(sub, SITES[t][nm], "not-monotone-in-atol", "%s: true at atol=%g but false at the looser atol=%g" % (SITES[t][nm], seen, g), case)
                break
            if r and seen is None:
                seen = g
    determined = e0["eq"] is not None and e0["ineq"] is not None
    lab = "%s:eq=%s,ineq=%s" % (case["cls"], {True: "T", False: "F", None: "band"}[e0["eq"]], {True: "T", False: "F", None: "band"}[e0["ineq"]])
    ctx.count(sub, key=key, nontrivial=determined, label=lab)
    bk = "%s-basis:%s/%s" % (sub, case["shape"], case["basis"])      # basis histogram for the evidence (not a second evaluation)
    ctx.dist[bk] = ctx.dist.get(bk, 0) + 1


# ----------------------------------------------------------------------------------------------- case streams
def make_cases(ctx, t, plan):
    """plan: list of (shape, kinds, count)"""
    rng = ctx.rng
    cases = []
    for shape, kinds, count in plan:
        for i in range(count):
            kind = kinds[i % len(kinds)]
            cls = CLASSES[t][rng.randrange(len(CLASSES[t]))] if i >= len(CLASSES[t]) else CLASSES[t][i]
            if kind == "comp" and t == "state" and rng.random() < 0.4:
                cls = "herm_violate"
            # tolerances: the grid, or (every other case) log-uniform in [1e-13, 1e-2] rounded to 3 significant digits
            a = ATOLS[rng.randrange(len(ATOLS))] if i % 2 == 0 else float("%.2e" % (10.0 ** rng.uniform(-13, -2)))
            a2 = ATOLS[rng.randrange(len(ATOLS))] if i % 3 else float("%.2e" % (10.0 ** rng.uniform(-13, -2)))
            # NARROW band (every other case with both tolerances >= 1e-8, where rounding is < 1e-6 of the tolerance): expectations at atol*(1 +- 0.05)
            # and violations of 0.9 / 1.1 times atol -- a threshold off by 10 % is seen
            narrow = i % 2 == 1 and a >= 1e-8 and a2 >= 1e-8
            kk = KSW[rng.randrange(len(KSW))]
            if narrow:
                kk = [0.9, 1.1, 0.9, 1.1, 0.4, 3.0][rng.randrange(6)]
            case = {"type": t, "shape": shape, "basis": kind, "cls": cls, "atol": a, "atol2": a2, "eta": 0.05 if narrow else ETA,
                    "layout": ["C", "F", "view", "ro"][rng.randrange(4)], "cfg": rng.randrange(4), "fresh": i % 4 == 2 and shape in ("q", "t", "qq", "tq"),
                    "k": kk if cls in VIOLATE else None,
                    "sign": rng.choice([1, 1, -1]) if cls in ("tr_violate", "sum_diag", "tp_violate") else 1,
                    "m": rng.randint(2, 5), "seed": rng.randrange(2 ** 31),
                    "aligned": (i % 3 == 1) and kind != "comp"}     # axis-aligned objects (diagonal in the computational basis / Pauli-like channels)
            cases.append(case)
    return cases


def sub_state(ctx):
    allk = FLAG_KINDS + GENERIC_KINDS + ["comp"]
    plan = [("q", allk, nn(ctx, 96, 400)), ("t", allk, nn(ctx, 72, 400)), ("qq", allk, nn(ctx, 48, 300)), ("qt", allk, ctx.n(24, 300)), ("tq", FLAG_KINDS + ["unnorm", "perm"], ctx.n(8, 100))]
    cases = make_cases(ctx, "state", plan)
    ctx.sample("state", cases[3]); ctx.run_cases("state", chk_obj, cases)


def sub_povm(ctx):
    allk = FLAG_KINDS + GENERIC_KINDS + ["comp"]
    plan = [("q", allk, nn(ctx, 64, 400)), ("t", allk, nn(ctx, 56, 400)), ("qq", allk, nn(ctx, 32, 300)), ("qt", allk, ctx.n(16, 200)), ("tq", FLAG_KINDS + ["unnorm", "perm"], ctx.n(8, 100))]
    cases = make_cases(ctx, "povm", plan)
    ctx.sample("povm", cases[3]); ctx.run_cases("povm", chk_obj, cases)


def sub_gate(ctx):
    allk = FLAG_KINDS + ["nherm", "perm", "unnorm", "herm", "mixed"]
    plan = [("q", allk, nn(ctx, 56, 500)), ("t", allk, ctx.n(21, 200)), ("qq", ["named", "perm", "unnorm"], ctx.n(3, 24)), ("qt", ["named", "nherm"], ctx.n(0, 2))]   # one qubit x qutrit gate costs ~1.5 min of exact 72x72 PSD decision
    cases = make_cases(ctx, "gate", plan)
    ctx.sample("gate", cases[3]); ctx.run_cases("gate", chk_obj, cases)


def sub_mprocess(ctx):
    plan = [("q", FLAG_KINDS, nn(ctx, 40, 400)), ("t", FLAG_KINDS, ctx.n(10, 100)), ("qq", ["named"], ctx.n(1, 8)),
            ("q", GENERIC_KINDS, ctx.n(5, 10)), ("qt", ["named"], ctx.n(0, 1))]
    cases = make_cases(ctx, "mprocess", plan)
    for c in cases:
        if c["shape"] in ("qq", "qt"):
            c["m"] = 2
    ctx.sample("mprocess", cases[3]); ctx.run_cases("mprocess", chk_obj, cases)


# ----------------------------------------------------------------------------------------------- origin / zero objects
def flat_data(t, data):
    if t in ("state", "gate"):
        return rflat(data)
    out = []
    for x in data:
        out += rflat(x)
    return out


def obj_data(t, obj):
    if t == "state":
        return obj.vec
    if t == "povm":
        return list(obj.vecs)
    if t == "gate":
        return obj.hs
    return list(obj.hss)


def chk_origin(ctx, case):
    t = case["type"]; cs = get_cs(case["shape"], case["basis"]); m = case["m"]; d = cs.d
    if t == "mprocess" and not cs.flag:
        return
    seedcase = dict(case, cls="interior", k=None, atol=1e-8, seed=case["seed"])
    obj = build(cs, t, gen_data(cs, seedcase), required=False)
    org = obj.generate_origin_obj(); zer = obj.generate_zero_obj()
    ty = ["state", "povm", "gate", "mprocess"].index(t)
    mm = len(obj_data(t, obj)) if t in ("povm", "mprocess") else 1
    r = [float(x) for x in ctx.get_model().call("c01.origin", [ty, d, mm], [cs.sd])]
    half = len(r) // 2
    od = flat_data(t, obj_data(t, org)); zd = flat_data(t, obj_data(t, zer))
    key = (t, case["shape"], case["basis"], mm)
    ctx.count("origin", key=key, nontrivial=True, label="%s-%s" % (t, "flag" if cs.flag else "generic"))
    if len(od) != half or max(abs(x - y) for x, y in zip(od, r[:half])) > 1e-15:
        ctx.violation("origin", "QOperation.generate_origin_obj", "value", "%s origin data differs from the model" % t, case)
        return
    if len(zd) != half or any(x != 0.0 for x in zd) or any(x != 0 for x in r[half:]):
        ctx.violation("origin", "QOperation.generate_zero_obj", "value", "%s zero object is not all-zero data" % t, case)
    # zero object denotes the zero operator
    if t == "state":
        ops = [zer.to_density_matrix()]
    elif t == "povm":
        ops = zer.matrices()
    elif t == "gate":
        ops = [zer.to_choi_matrix_with_sparsity()]
    else:
        from quara.objects import gate as qgate
        ops = [qgate.to_choi_from_hs_with_sparsity(cs.c, h) for h in zer.hss]
    if any(np.abs(np.asarray(o)).max() != 0.0 for o in ops):
        ctx.violation("origin", "QOperation.generate_zero_obj", "not-zero-operator", "%s zero object does not denote the zero operator" % t, case)
    if org.is_physicality_required or zer.is_physicality_required:
        ctx.violation("origin", "QOperation.generate_origin_obj", "flags", "origin / zero object must not require physicality", case)
    # origin object: its verdicts are the model's verdicts on the same data (every basis); on an orthonormal, Hermitian, identity-first
    # basis (the flag) it must be physical at every tolerance (theorems C01_*_origin_physical).  _generate_origin_obj hard-codes the
    # coefficients for B_0 = I/sqrt(d); it is not one of the basis-generic branches, so nothing is claimed about physicality elsewhere.
    odata = obj_data(t, org)
    for a in case["atols"]:
        e0 = band(ctx, cs, t, odata, a, a, 0.0, False, pad=False)[0]
        ec = Lazy(lambda: band(ctx, cs, t, odata, a, a, NP_RTOL, False, pad=False)[0]) if t in SLACK_SITE else None
        c2 = dict(case, atol=a, cls="origin")
        judge(ctx, "origin", t, "phys", "origin.is_physical(atol, atol)", org.is_physical(a, a), e0["phys"], ec.at("phys") if ec else None, c2)
        ctx.count("origin", key=key + (a,), nontrivial=e0["phys"] is not None, label="origin-phys=%s" % e0["phys"])
        if cs.flag and e0["phys"] is not True:
            ctx.violation("origin", "QOperation.generate_origin_obj", "origin-not-physical", "%s origin object on a standard basis is not physical at atol=%g (exact model)" % (t, a), c2)
        if cs.flag and not org.is_physical(a, a):
            ctx.violation("origin", "QOperation.generate_origin_obj", "origin-not-physical", "%s origin object on a standard basis: is_physical(%g, %g) is False" % (t, a, a), c2)


def sub_origin(ctx):
    cases = []
    shapes = ["q", "t", "qq"] + ([] if ctx.quick else ["qt"])
    for t in ("state", "povm", "gate", "mprocess"):
        for shape in shapes:
            for kind in FLAG_KINDS + (["unnorm", "perm", "herm"] if shape in ("q", "t") else []):
                if t in ("gate", "mprocess") and shape in ("qq", "qt") and kind != "named":
                    continue
                atols = [1e-13, 1e-6, 1e-2] if get_cs(shape, kind).d <= 3 or t in ("state", "povm") else [1e-13]
                cases.append({"type": t, "shape": shape, "basis": kind, "m": 2 + (len(cases) % 3), "seed": 7 + len(cases), "atols": atols})
    ctx.sample("origin", cases[0]); ctx.run_cases("origin", chk_origin, cases)


# ----------------------------------------------------------------------------------------------- witnesses of the _refuted theorems, replayed on the code
def chk_witness(ctx, case):
    w = case["witness"]
    a = 1e-13
    # the witnesses of Props/C01.v C01_state_trace_default_rtol_refuted / C01_povm_identity_sum_default_rtol_refuted (the verdicts as coded
    # BEFORE the rtol repairs accept them at atol = 1e-13); the repaired code = the rtol=0 model must reject them (C01_*_witness_rejected)
    if w == "state-trace":          # 2-qubit normalised Pauli basis, v = (1+5e-6)/2 * e_0
        cs = get_cs("qq", "named"); t = "state"
        data = np.zeros(16); data[0] = (1 + 5e-6) / 2
    elif w == "povm-identity-sum":  # two elements (1+5e-6)/2 * I each
        cs = get_cs("qq", "named"); t = "povm"
        v = np.zeros(16); v[0] = (1 + 5e-6); data = [v.copy(), v.copy()]
    else:
        return
    c2 = dict(case, type=t, atol=a, cls="witness", shape="qq", basis="named")
    obj = build(cs, t, data, required=False)
    e0 = band(ctx, cs, t, data, a, a, 0.0, False)[0]; ec = Lazy(lambda: band(ctx, cs, t, data, a, a, NP_RTOL, False)[0])
    ctx.count("witness", key=w, nontrivial=e0["eq"] is not None, label=w)
    if e0["eq"] is not False or e0["phys"] is not False:
        ctx.violation("witness", "Props/C01.v", "witness-model", "the rtol=0 model does not reject the 5e-6 witness at atol=1e-13", c2, no_input=True)
    judge(ctx, "witness", t, "eq", "is_eq_constraint_satisfied(1e-13) on a defect of 5e-6", obj.is_eq_constraint_satisfied(a), e0["eq"], ec.at("eq"), c2)
    judge(ctx, "witness", t, "phys", "is_physical(1e-13, 1e-13) on a defect of 5e-6", obj.is_physical(a, a), e0["phys"], ec.at("phys"), c2)
    with WithAtol(a):
        try:
            build(cs, t, data, required=True); raised = False
        except ValueError:
            raised = True
    n0 = band(ctx, cs, t, data, a, a, 0.0, True)[0]; nc = Lazy(lambda: band(ctx, cs, t, data, a, a, NP_RTOL, True)[0])
    judge(ctx, "witness", t, "ctor", "constructor(is_physicality_required=True) raises on a defect of 5e-6 under Settings atol 1e-13", raised, n0["raises"], nc.at("raises"), c2)


def sub_witness(ctx):
    cases = [{"witness": "state-trace"}, {"witness": "povm-identity-sum"}]
    ctx.sample("witness", cases[0]); ctx.run_cases("witness", chk_witness, cases)


# ----------------------------------------------------------------------------------------------- the two TP branches on the same basis (theorem C01_gate_tp_branches_agree)
def chk_tp_branches(ctx, case):
    """on a standard basis run BOTH branches of gate.is_tp (the second by a CompositeSystem whose flag is forced off):
    trace branch at sd*atol must equal first-row branch at atol outside the band; model: both branches executed"""
    from quara.objects import gate as qgate
    import copy
    cs = get_cs(case["shape"], case["basis"])
    a = float(case["atol"])
    hs = gen_data(cs, case)
    c_off = copy.copy(cs.c)
    c_off._is_orthonormal_hermitian_0thprop_identity = False
    m = ctx.get_model()

    def tp(f):      # [first-row branch at atol*f, trace branch at sd*atol*f]   (op c01.gate_tp: no Choi matrix, no PSD decision)
        r = m.call("c01.gate_tp", [cs.d], [a * f, cs.sd * a * f] + cs.bflat + rflat(hs))
        return bool(r[0]), bool(r[1])
    lo = tp(1 - ETA); hi = tp(1 + ETA)
    e_row = lo[0] if lo[0] == hi[0] else None
    e_tr = lo[1] if lo[1] == hi[1] else None
    i_row = bool(qgate.is_tp(cs.c, hs, a)); i_tr = bool(qgate.is_tp(c_off, hs, cs.sd * a))
    det = e_row is not None and e_tr is not None
    ctx.count("tp_branches", key=(case["shape"], case["basis"], case["cls"], case["atol"], str(case["k"]), case["seed"]), nontrivial=det, label="%s:row=%s" % (case["cls"], e_row))
    if e_row is not None and i_row != e_row:
        ctx.violation("tp_branches", "gate.is_tp", "verdict-mismatch", "first-row branch %s, model %s" % (i_row, e_row), case)
    if e_tr is not None and i_tr != e_tr:
        ctx.violation("tp_branches", "gate.is_tp", "verdict-mismatch", "trace branch %s at sd*atol, model %s" % (i_tr, e_tr), case)
    if det and e_row != e_tr:
        ctx.violation("tp_branches", "gate.is_tp", "branches-disagree", "model: first-row branch at atol %s but trace branch at sd*atol %s (contradicts C01_gate_tp_branches_agree)" % (e_row, e_tr), case)


def sub_tp_branches(ctx):
    rng = ctx.rng
    cases = []
    for shape, n in (("q", nn(ctx, 20, 150)), ("t", nn(ctx, 10, 80)), ("qq", ctx.n(4, 30))):
        for i in range(n):
            cls = ["tp_violate", "interior", "unitary"][i % 3] if i % 2 else "tp_violate"
            cases.append({"type": "gate", "shape": shape, "basis": FLAG_KINDS[i % 2], "cls": cls, "atol": ATOLS[rng.randrange(len(ATOLS))],
                          "k": KS[rng.randrange(len(KS))], "sign": rng.choice([1, -1]), "m": 2, "seed": rng.randrange(2 ** 31)})
    ctx.sample("tp_branches", cases[0]); ctx.run_cases("tp_branches", chk_tp_branches, cases)


# ----------------------------------------------------------------------------------------------- histories of queries on ONE object
# A verdict must be a function of (object value, tolerance in force at that call) only (Props/C01.v C01_history_answer: in the model the
# answer to a query after any history is the pure verdict at the Settings value last set, resp. at the explicit argument).  One object per
# case with BOTH an equality defect de and an inequality defect di of known size; a sequence of queries through EVERY verdict function of its
# class, with explicit tolerances (while Settings holds an unrelated value) and with atol=None under several Settings values, the
# tolerances straddling de and di in both directions (looser after tighter, tighter after looser); the constructor's implicit query counts
# (the object is built with is_physicality_required=True under a Settings value at which it IS physical, when the history starts that way).
# Each answer is compared with the model at the tolerance in force at that call and with a FRESH equal object asked the same single question.
HIST_FNS = {
    "state": [("is_eq_constraint_satisfied", "eq"), ("is_trace_one", "eq"), ("is_ineq_constraint_satisfied", "ineq"),
              ("is_positive_semidefinite", "ineq"), ("is_hermitian", "herm"), ("is_physical", "phys")],
    "povm": [("is_eq_constraint_satisfied", "eq"), ("is_identity_sum", "eq"), ("is_ineq_constraint_satisfied", "ineq"),
             ("is_positive_semidefinite", "ineq"), ("is_physical", "phys")],
    "gate": [("is_eq_constraint_satisfied", "eq"), ("is_tp", "eq"), ("is_ineq_constraint_satisfied", "ineq"), ("is_cp", "ineq"),
             ("is_physical", "phys")],
    "mprocess": [("is_eq_constraint_satisfied", "eq"), ("is_sum_tp", "eq"), ("is_ineq_constraint_satisfied", "ineq"), ("is_cp", "ineq"),
                 ("is_physical", "phys")],
}


def gen_hist_data(cs, case):
    """object with trace / identity-sum / first-row defect de AND smallest-eigenvalue defect -di (both signs of de);
    case["aligned"]: axis-aligned object (violations visible on the diagonal); case["null"] (instruments): the non-CP outcome has zero weight"""
    rs = np.random.RandomState(case["seed"] % (2 ** 32))
    t, d, de, di = case["type"], cs.d, float(case["de"]), float(case["di"])
    al = bool(case.get("aligned", False))
    if t == "state":
        U = perm_unitary(rs, d) if al else unitary(rs, d)
        p = np.zeros(d); r = int(rs.randint(1, d))
        p[:r] = rs.uniform(0.2, 1.0, size=r); p *= (1.0 + de + di) / p.sum(); p[d - 1] = -di
        return coef(cs, (U * p) @ U.conj().T)
    if t == "povm":
        m = min(case["m"], d)
        U = perm_unitary(rs, d) if al else unitary(rs, d); gs = groups(rs, d, m)
        Es = [sum(np.outer(U[:, i], U[:, i].conj()) for i in g) for g in gs]
        x0 = int(rs.randint(m)); x1 = (x0 + 1 + int(rs.randint(m - 1))) % m
        u = U[:, gs[x1][0]]; P = np.outer(u, u.conj())
        Es[x0] = Es[x0] - di * P; Es[x1] = Es[x1] + di * P + de * np.eye(d)
        return [coef(cs, E) for E in Es]
    if t == "gate":
        r = int(rs.randint(1, d * d))
        S = scb_of(aligned_kraus_set(rs, d, r) if al else kraus_set(rs, d, r))
        hs = perturb_cp(cs, S, di, rs if al else None).copy(); hs[0, int(rs.randint(d * d))] += de
        return hs
    m = case["m"]
    Ks = aligned_kraus_set(rs, d, m) if al else kraus_set(rs, d, m)
    hss = [hs_in_basis(cs, scb_of([K])) for K in Ks]
    x0 = int(rs.randint(m)); x1 = int(rs.randint(m))
    if case.get("null"):
        hss.insert(int(rs.randint(m + 1)), di * null_noncp_hs(cs, rs))
    else:
        hss[x0] = perturb_cp(cs, scb_of([Ks[x0]]), di, rs if al else None)
    x1 = int(rs.randint(len(hss)))
    hss[x1] = hss[x1].copy(); hss[x1][0, int(rs.randint(d * d))] += de
    return hss


def call_verdict(obj, fn, a_eq, a_ineq, key):
    f = getattr(obj, fn)
    if key == "phys":
        return bool(f(a_eq, a_ineq))
    return bool(f(a_ineq if key in ("ineq", "herm") else a_eq))


def poke(obj, t):
    """call the accessors / converters of the object (results discarded, never modified): none of them may influence a later verdict"""
    import warnings
    with warnings.catch_warnings(), np.errstate(all="ignore"):
        warnings.simplefilter("ignore")
        _poke(obj, t)


def _poke(obj, t):
    obj.dim, obj.composite_system, obj.is_physicality_required, obj.on_para_eq_constraint, obj.eps_proj_physical
    obj.to_var(); obj.to_stacked_vector()
    if not obj.is_physicality_required:          # copy() re-runs the constructor's physicality check at the Settings value now in force
        obj.copy()
    if t == "state":
        obj.vec; obj.to_density_matrix(); obj.to_density_matrix_with_sparsity(); obj.calc_eigenvalues()
    elif t == "povm":
        obj.vecs; obj.matrices(); obj.matrices_with_sparsity(); obj.matrix(0); obj.calc_eigenvalues(); obj.num_outcomes; obj._sum_matrix()
    elif t == "gate":
        obj.hs; obj.to_choi_matrix(); obj.to_choi_matrix_with_sparsity(); obj.to_kraus_matrices(); obj.to_process_matrix(); obj.get_basis()
    else:
        obj.hss; obj.hs(0); obj.num_outcomes; obj.shape; obj.to_choi_matrix(0); obj.to_kraus_matrices(0); obj.mode_sampling


def chk_history(ctx, case):
    from quara.settings import Settings
    t = case["type"]; cs = get_cs(case["shape"], case["basis"])
    data = gen_hist_data(cs, case)
    lay = case.get("layout", "C")
    cls_name = {"state": "State", "povm": "Povm", "gate": "Gate", "mprocess": "MProcess"}[t]
    other_c = equal_csys(cs) if case.get("fresh") else None       # the fresh comparison objects live on an equal, NOT identical CompositeSystem
    counters = {"det": 0, "steps": 0}

    def make_expected(dat):
        exp = {}

        def expect(tol):             # model verdicts at one tolerance (both constraints), None = inside the ambiguity band
            if tol not in exp:
                exp[tol] = band(ctx, cs, t, dat, tol, tol, 0.0, False)[0]
            return exp[tol]

        def expected(key, te, ti):
            if key in ("ineq", "herm"):
                return expect(ti)[key]
            if key == "eq":
                return expect(te)["eq"]
            e, i = expect(te)["eq"], expect(ti)["ineq"]
            if e is False or i is False:
                return False
            return None if (e is None or i is None) else True
        return expected

    def run_steps(obj, dat, steps, expected, phase):
        """returns False after reporting a violation"""
        for n, (fi, mode, tol, tol2, setting) in enumerate(steps):
            fn, key = HIST_FNS[t][fi % len(HIST_FNS[t])]
            Settings.set_atol(float(setting))
            if Settings.get_atol() != float(setting):
                ctx.violation("history", "Settings.set_atol", "setting-not-stored", "after Settings.set_atol(%r) Settings.get_atol() returns %r" % (float(setting), Settings.get_atol()), case)
                return False
            if n == 0 and phase == "queries":          # a non-float argument is rejected and leaves the setting unchanged (C01_gen_settings_guard_and_purity)
                for badv in (1, None, "1e-3"):
                    try:
                        Settings.set_atol(badv); rej = False
                    except TypeError:
                        rej = True
                    if not rej or Settings.get_atol() != float(setting):
                        ctx.violation("history", "Settings.set_atol", "non-float-accepted", "Settings.set_atol(%r): rejected=%s, get_atol() afterwards %r (was %r)" % (badv, rej, Settings.get_atol(), float(setting)), case)
                        Settings.set_atol(float(setting))
                        return False
            if n % 5 == 3:
                poke(obj, t)                     # getters between the queries
            # tolerance in force for the equality / the inequality part of this call
            if mode == "none":
                a_eq = a_in = None; te = ti = float(setting)
            elif mode == "arg":
                a_eq, a_in = float(tol), float(tol2) if key == "phys" else float(tol); te, ti = a_eq, a_in
            elif mode == "eq-only":          # is_physical(atol_eq_const=tol): the inequality part falls back to Settings
                a_eq, a_in = float(tol), None; te, ti = a_eq, float(setting)
            else:                            # "ineq-only"
                a_eq, a_in = None, float(tol); te, ti = float(setting), a_in
            if key != "phys" and mode in ("eq-only", "ineq-only"):
                a_eq = a_in = float(tol); te = ti = float(tol)
            got = call_verdict(obj, fn, a_eq, a_in, key)
            fresh = call_verdict(build(cs, t, dat, required=False, csys=other_c), fn, a_eq, a_in, key)
            e = expected(key, te, ti)
            site = "%s.%s" % (cls_name, fn)
            desc = "step %d of the history (%s): %s(%s) with Settings atol=%g in force (tolerance in force: eq %g, ineq %g)" % (
                n, phase, fn, "" if mode == "none" else ", ".join(str(x) for x in ((a_eq, a_in) if key == "phys" else (a_eq if key == "eq" else a_in,))), float(setting), te, ti)
            counters["steps"] += 1
            if got != fresh:
                ctx.violation("history", site, "verdict-depends-on-query-history",
                              "%s: the object with a history answers %s, a fresh equal object asked the same single question answers %s (exact model: %s); the verdict is not a function of (object value, tolerance in force)" % (desc, got, fresh, e), case)
                return False
            if e is not None:
                counters["det"] += 1
                if got != e:
                    ctx.violation("history", site, "verdict-mismatch", "%s: answer %s, exact model at the tolerance in force says %s" % (desc, got, e), case)
                    return False
        return True
    old = Settings.get_atol()
    steps = case["steps"]
    try:
        s0 = float(case["settings0"])
        Settings.set_atol(s0)
        expected = make_expected(data)
        req = bool(case["required"]) and expected("phys", s0, s0) is True      # the constructor's implicit query (must not raise: physical at s0)
        obj = build(cs, t, data, required=req, layout=lay, cfg=int(case.get("cfg", 0)))   # the fresh objects: default layout / configuration
        if not run_steps(obj, data, steps, expected, "queries"):
            return
        # ---- the caller changes the data IN PLACE through the array the object holds (the one handed to the constructor / returned by the
        #      accessor), then asks again: the answers must be those of the NEW value (no verdict may survive from the old one)
        if case.get("mutate") and t in ("state", "gate", "mprocess") and lay != "ro":
            # new value: both defects 100 times larger; probed at 10x the OLD defects, where the old value passes and the new one fails
            data2 = gen_hist_data(cs, dict(case, seed=case["seed"] + 17, de=100.0 * float(case["de"]), di=100.0 * float(case["di"])))
            p_eq, p_in = 10.0 * abs(float(case["de"])), 10.0 * float(case["di"])
            held = [obj.vec] if t == "state" else ([obj.hs] if t == "gate" else list(obj.hss))
            new = [data2] if t != "mprocess" else list(data2)
            if len(held) == len(new) and all(h.flags.writeable for h in held):
                for h, v2 in zip(held, new):
                    h[...] = v2
                nf = len(HIST_FNS[t])
                setts = []
                for st_ in steps:
                    if st_[4] not in setts:
                        setts.append(st_[4])
                steps2 = ([[fi, "none", None, None, sv] for sv in (p_eq, p_in) for fi in range(nf)]
                          + [[fi, "arg", p_eq, p_in, setts[0]] for fi in range(nf)] + [[fi, "arg", p_in, p_eq, setts[-1]] for fi in range(nf)])
                if not run_steps(obj, data2, steps2, make_expected(data2), "after in-place change of the held array"):
                    return
    finally:
        Settings.set_atol(old)
    ctx.count("history", key=(t, case["shape"], case["basis"], case["seed"]), nontrivial=counters["det"] >= counters["steps"] // 2,
              label="%s:%s,required=%s" % (t, case["shape"], req))


def sub_history(ctx):
    rng = ctx.rng
    cases = []
    plan = [("state", "q", FLAG_KINDS + ["unnorm", "perm"], nn(ctx, 8, 60)), ("state", "t", FLAG_KINDS, nn(ctx, 4, 30)), ("state", "qq", ["named"], ctx.n(2, 20)), ("state", "tq", ["named"], ctx.n(2, 12)),
            ("povm", "q", FLAG_KINDS + ["unnorm", "perm"], nn(ctx, 8, 60)), ("povm", "t", FLAG_KINDS, nn(ctx, 4, 30)), ("povm", "qq", ["named"], ctx.n(2, 20)),
            ("gate", "q", FLAG_KINDS + ["perm"], nn(ctx, 9, 80)), ("gate", "t", FLAG_KINDS, ctx.n(2, 16)),
            ("mprocess", "q", FLAG_KINDS, nn(ctx, 8, 60)), ("mprocess", "t", ["named"], ctx.n(1, 8))]
    for t, shape, kinds, n in plan:
        for i in range(n):
            de = float("%.2e" % (10.0 ** rng.uniform(-10, -4))) * rng.choice([1, -1])
            di = float("%.2e" % (10.0 ** rng.uniform(-10, -4)))
            if t == "gate" or t == "mprocess":
                de = abs(de) if i % 2 else de
            marg = [abs(de), di]
            tight = float("%.2e" % (min(marg) / rng.choice([30.0, 1e3])))
            loose = float("%.2e" % (max(marg) * rng.choice([30.0, 1e3])))
            mid = float("%.2e" % math.sqrt(abs(de) * di)) if max(marg) / min(marg) > 1e3 else None
            tols = [tight, loose] + ([mid] if mid else [])
            nf = len(HIST_FNS[t])
            steps = []
            # every verdict function is asked with atol=None under the FIRST Settings value, then again under each other value (both directions)
            order = [tols[0], tols[1], tols[0]] if i % 2 == 0 else [tols[1], tols[0], tols[1]]
            if mid:
                order.insert(2, mid)
            for setting in order:
                for fi in range(nf):
                    steps.append([fi, "none", None, None, setting])
            # explicit arguments while Settings holds the opposite value; mixed is_physical calls
            for _ in range(6):
                a, b = rng.choice(tols), rng.choice(tols)
                steps.append([rng.randrange(nf), rng.choice(["arg", "arg", "eq-only", "ineq-only"]), a, b, rng.choice(tols)])
            for fi in range(nf):
                steps.append([fi, "none", None, None, order[1]])
            cases.append({"type": t, "shape": shape, "basis": kinds[i % len(kinds)], "de": de, "di": di, "m": rng.randint(2, 3), "seed": rng.randrange(2 ** 31),
                          "settings0": order[0], "required": i % 3 != 2, "steps": steps, "aligned": i % 2 == 1, "null": t == "mprocess" and i % 4 >= 2,
                          "layout": ["C", "F", "view", "ro"][i % 4], "cfg": i % 4, "mutate": i % 2 == 0, "fresh": i % 3 == 1})
    ctx.sample("history", cases[0]); ctx.run_cases("history", chk_history, cases)


# ----------------------------------------------------------------------------------------------- exactly-at-threshold (<= , not <)
# Objects whose defect is an exactly representable 2^-k and whose verdict computation is exact in floating point (diagonal matrices in the
# computational basis: entries 0/1, sums of a few dyadics; first HS row read directly): the verdict AT atol = defect must be True (the tests
# are `<=`), just below it False, just above True -- compared with the model evaluated at exactly that tolerance (no ambiguity band).
def chk_threshold(ctx, case):
    t = case["type"]; k = int(case["k"]); j = int(case["j"])
    de, di = 2.0 ** -k, 2.0 ** -j
    if t == "state":
        cs = get_cs(case["shape"], "comp"); d = cs.d
        p = np.zeros(d); p[0] = 0.5; p[1] = 0.5 + de + di; p[d - 1] += -di if d > 2 else 0.0
        if d == 2:
            p = np.array([1.0 + de + di, -di])
        data = coef(cs, np.diag(p))                 # computational basis: a permutation of the matrix entries, exact
    elif t == "povm":
        cs = get_cs(case["shape"], "comp"); d = cs.d
        e0 = np.zeros(d); e0[0] = 0.5; e0[d - 1] = -di
        e1 = 1.0 - e0; e1[1 % d] += de
        data = [coef(cs, np.diag(e0)), coef(cs, np.diag(e1))]
    elif t == "gate":
        cs = get_cs(case["shape"], "named"); n = cs.d ** 2
        data = np.eye(n); data[0, 1 + k % (n - 1)] = de
    else:
        cs = get_cs(case["shape"], "named"); n = cs.d ** 2
        h0 = np.eye(n) / 2; h1 = np.eye(n) / 2; h1[0, 1 + k % (n - 1)] = de
        data = [h0, h1]
    obj = build(cs, t, data, required=False)
    ulp = 2.0 ** -30
    probes = [("eq", de, f) for f in (1.0, 1.0 - ulp, 1.0 + ulp)]
    if t in ("state", "povm"):
        probes += [("ineq", di, f) for f in (1.0, 1.0 - ulp, 1.0 + ulp)]
    for key, base, f in probes:
        a = base * f
        mres = model_call(ctx, cs, t, data, GARBAGE, a, a, 0.0, False, 0)
        got = bool(obj.is_eq_constraint_satisfied(a)) if key == "eq" else bool(obj.is_ineq_constraint_satisfied(a))
        want_true = f >= 1.0
        if mres[key] != want_true:
            ctx.violation("threshold", "harness/props/c01.py", "threshold-generator", "model verdict %s at atol = defect*%r, generator expects %s" % (mres[key], f, want_true), case, no_input=True)
        if got != mres[key]:
            ctx.violation("threshold", SITES[t][key], "wrong-at-exact-threshold",
                          "%s: defect exactly 2^-%d, atol = defect*(1%+.1e): implementation %s, exact model %s (the test must be `<=`)" % (SITES[t][key], k if key == "eq" else j, f - 1.0, got, mres[key]), case)
    ctx.count("threshold", key=(t, case["shape"], k, j), nontrivial=True, label=t)


def sub_threshold(ctx):
    cases = []
    for t, shapes in (("state", ["q", "t", "qq"]), ("povm", ["q", "t"]), ("gate", ["q"]), ("mprocess", ["q"])):
        for shape in shapes:
            for k, j in ((10, 7), (20, 33), (40, 12))[:ctx.n(2, 3)]:
                cases.append({"type": t, "shape": shape, "k": k, "j": j})
    ctx.sample("threshold", cases[0]); ctx.run_cases("threshold", chk_threshold, cases)


SUBS = [("witness", sub_witness), ("state", sub_state), ("povm", sub_povm), ("gate", sub_gate), ("mprocess", sub_mprocess),
        ("origin", sub_origin), ("tp_branches", sub_tp_branches), ("history", sub_history), ("threshold", sub_threshold)]
FNS = {"witness": chk_witness, "state": chk_obj, "povm": chk_obj, "gate": chk_obj, "mprocess": chk_obj, "origin": chk_origin, "tp_branches": chk_tp_branches, "history": chk_history, "threshold": chk_threshold}


def regen_glue(ctx):
    """translator tie (same protocol as flow.regen_check, with this property's own translator gen/c01_py2coq.py): regenerate the glue of
    the 26 verdict methods / functions / constructor guards (tolerance resolution, argument routing, conjunction, flag branch, element
    loops, raise) from the CURRENT source as terms of Model/C01_Glue.v, compile them, and re-check coq/gen/C01_Equiv.v (template table
    pinned; regenerated glue evaluates to the hand-written verdict model for all tolerance arguments).  returns (ok, info)"""
    import os, re, shutil, subprocess, sys
    import runner
    V = runner.V
    scratch = os.path.join(getattr(ctx, "scratch", os.path.join(V, "build", ctx.prop_id)), "gen")
    os.makedirs(scratch, exist_ok=True)
    gen_v = os.path.join(scratch, "Gen_c01_glue.v")
    for stem in (gen_v[:-2], os.path.join(scratch, "C01_Equiv")):
        for ext in (".v", ".vo", ".vos", ".vok", ".glob"):
            try:
                os.remove(stem + ext)
            except OSError:
                pass
    equiv = os.path.join(V, "coq", "gen", "C01_Equiv.v")
    src = open(equiv).read()
    src_nc = re.sub(r"\(\*.*?\*\)", " ", src, flags=re.S)
    thms = re.findall(r"^\s*Theorem\s+([\w']+)", src_nc, flags=re.M)
    ctx.theorems = list(ctx.theorems) + [t for t in thms if t not in ctx.theorems]
    ctx.obligations += len(thms)
    r = subprocess.run([sys.executable, os.path.join(V, "gen", "c01_py2coq.py"), os.environ.get("VERIF_REPO", "/repo"), gen_v],
                       capture_output=True, text=True, timeout=120)
    if r.returncode != 0:
        return False, {"theorem": thms[0], "error": "translator rejected the source (outside its subset): " + (r.stdout + r.stderr)[-600:]}
    q = ["-Q", os.path.join(V, "coq", "theories"), "QV", "-Q", scratch, "QVGen"]
    r = subprocess.run(["timeout", "300", "coqc"] + q + [gen_v], capture_output=True, text=True)
    if r.returncode != 0:
        return False, {"theorem": thms[0], "error": "regenerated glue does not compile: " + (r.stdout + r.stderr)[-600:]}
    dst = os.path.join(scratch, "C01_Equiv.v")
    shutil.copy(equiv, dst)
    r = subprocess.run(["timeout", "600", "coqc"] + q + [dst], capture_output=True, text=True)
    out = r.stdout + r.stderr
    if r.returncode != 0:
        m_ = re.search(r"line (\d+), characters", out)
        thm = None
        if m_:
            upto = "\n".join(src.splitlines()[:int(m_.group(1))])
            names = re.findall(r"^\s*(?:Theorem|Lemma)\s+([\w']+)", upto, flags=re.M)
            thm = names[-1] if names else None
        return False, {"theorem": thm, "error": out[-800:]}
    blocks = runner.parse_assumptions(out)
    bad = [a for closed, axs in blocks for a in axs if a not in runner.ALLOWED_AXIOMS and a.split(".")[-1] not in runner.ALLOWED_AXIOMS]
    if len(blocks) != len(thms) or bad:
        return False, {"theorem": thms[0], "error": "assumption gate on regenerated proofs: %d blocks / %d theorems, disallowed %s" % (len(blocks), len(thms), bad)}
    for t, (closed, axs) in zip(thms, blocks):
        ctx.axioms[t] = "closed" if closed else sorted(set(axs))
    ctx.discharged += len(thms)
    return True, {}


def nn(ctx, quick, thorough):
    """case count; when the translator tie is broken (ctx.boost) the cheap sub-checks run 2x their quick size to look harder for a failing input"""
    if getattr(ctx, "boost", False) and ctx.quick:
        return min(thorough, 2 * quick)
    return ctx.n(quick, thorough)


def run(ctx):
    import runner
    ctx.rule = ("4 object types x shapes {qubit, qutrit, 2 qubits, qubit x qutrit} x bases {normalised Pauli / Gell-Mann, normalised generalised Gell-Mann, "
                "unnormalised Pauli / Gell-Mann, (un)normalised Hermitian-unit basis (identity not first), permuted, non-orthogonal integer mixture, computational (non-Hermitian)} "
                "x atol in {1e-13, 1e-12, 1e-10, 1e-8, 1e-6, 1e-5, 1e-4, 1e-3, 1e-2} or log-uniform in [1e-13, 1e-2] x classes {interior, pure / rank-deficient / projective / unitary / Lueders boundary, violated by k*atol along the trace / identity-sum / first-row / "
                "smallest-eigenvalue direction, k in {0.1, 0.4, 1.7, 3, 10, 100, 1e4, 0.3/atol}}; every object is generated from a per-case seed in floating point, the model consumes the exact dyadic values "
                "of the same floats. Expected verdicts: extracted Coq model at atol*(1-0.5) and atol*(1+0.5); in-band cases are trivial. non-trivial = both the equality and the inequality verdict are out of band; "
                "distinct = distinct (type, shape, basis, class, atol, k, seed). Constructor raise/accept, the atol=None path (Settings.set_atol, restored) and monotonicity of the implementation's verdicts over the tolerance grid run on the same stream.")
    # flow.standard_run with this property's own translator tie (flow.regen_check is bound to gen/py2coq.py)
    ok, info = runner.check_props(ctx)
    ok2, info2 = regen_glue(ctx)
    if not ok2:
        ok, info = False, info2
        ctx.boost = True
        ctx.note("regenerated-glue obligations (coq/gen/C01_Equiv.v) not discharged: %s" % str(info2)[:600])
        ctx.note("translator tie broken: the state / povm / history / tp_branches sub-checks run with 2x their quick size")
    if not ok:
        ctx.discharged = min(ctx.discharged, ctx.obligations - 1)
    for name, fn in SUBS:
        if ctx.only is None or name in ctx.only:
            fn(ctx)
    if not ok and not ctx.violations:
        ctx.violation("theorems", "Props/%s.v + coq/gen/C01_Equiv.v" % ctx.prop_id, "theorem-broken:%s" % info.get("theorem"),
                      "theorem %s no longer checks: %s" % (info.get("theorem"), info.get("error", "")[-600:]),
                      {"theorem": info.get("theorem"), "error": info.get("error")}, no_input=True)
    elif not ok:
        ctx.note("theorem obligations not discharged: %s" % info)


def replay(ctx, doc):
    flow.standard_replay(ctx, doc, FNS)
