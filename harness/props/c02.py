"""C02 — all representations of one object denote the same operator.

Per configuration (system shape x matrix basis) every public conversion of State / Povm / Gate / MProcess, every
implementation variant (plain / _with_dict / _with_sparsity) and the CompositeSystem cache tables are run on a complete
basis of the input space and on random complex / asymmetric (non-physical) inputs and compared with the extracted Coq
model fed with the implementation's own basis (exact dyadic values of c_sys.basis()).  The property's predicates
(round trips, same operator after a basis change, Frobenius isometry, Kraus certificate, commutation matrix, process
matrix formula, linearity) are evaluated on the implementation's outputs as well.

The model is the REPAIRED code for the three C02 repairs in /verif/fixes (gate-to-var-from-choi-inverse-map,
povm-matrix-with-sparsity-nameerror, povm-matrices-return-ndarray) and for C04's truncate-hs-relative-imag-threshold;
on a tree without the first three the corresponding (site, signature) pairs are reported again."""
import itertools
import numpy as np
from fractions import Fraction
from common import flow
from common.model import cflat, to_c, ModelError

LEVEL = "proof"
TOL = 1e-9
ATOL = 1e-13          # quara.settings.Settings default

# ------------------------------------------------------------------------------------------------ configurations
CONFIGS = {
    # name: (list of (family, dim), tier, hermitian-orthonormal expected)
    "1q-pauli": ([("pauli", 2)], "quick", True),
    "1q-ggm": ([("ggm", 2)], "quick", True),
    "qutrit-gm": ([("gm", 3)], "quick", True),
    "2q-pauli": ([("pauli", 2), ("pauli", 2)], "quick", True),
    "qutrit-ggm": ([("ggm", 3)], "thorough", True),
    "ququart-ggm": ([("ggm", 4)], "thorough", True),
    "2x3": ([("pauli", 2), ("gm", 3)], "smoke", True),
    "3x2": ([("gm", 3), ("pauli", 2)], "thorough", True),
    # outside the property's quantifier (not Hermitian / not normalised): model-vs-implementation correspondence only
    "1q-comp": ([("comp", 2)], "quick", False),
    "1q-upauli": ([("upauli", 2)], "quick", False),
}
_CACHE = {}


def _family(fam, dim):
    from quara.objects import matrix_basis as mb
    if fam == "pauli":
        return mb.get_normalized_pauli_basis()
    if fam == "gm":
        return mb.get_normalized_gell_mann_basis()
    if fam == "ggm":
        return mb.get_normalized_generalized_gell_mann_basis(dim=dim)
    if fam == "comp":
        return mb.get_comp_basis(dim)
    if fam == "upauli":
        return mb.get_pauli_basis()
    raise KeyError(fam)


def dense(b):
    return np.asarray(b.toarray() if hasattr(b, "toarray") else b, dtype=complex)


class Cfg:
    def __init__(self, name, fresh=False):
        from quara.objects.elemental_system import ElementalSystem
        from quara.objects.composite_system import CompositeSystem
        fams, _, self.nice = CONFIGS[name]
        self.name = name
        self.c_sys = CompositeSystem([ElementalSystem(i, _family(f, dm)) for i, (f, dm) in enumerate(fams)])
        self.d = int(self.c_sys.dim)
        self.D = self.d * self.d
        self.B = np.array([dense(b) for b in self.c_sys.basis()])
        self.bf = basis_flat(self.B)
        d, D = self.d, self.D
        G = np.array([[np.vdot(self.B[a], self.B[b]) for b in range(D)] for a in range(D)])
        self.orthonormal = bool(np.abs(G - np.eye(D)).max() < 1e-12)
        V = self.B.reshape(D, D)          # row a = flattened B_a
        self.complete = bool(np.abs(V.conj().T @ V - np.eye(D)).max() < 1e-12)
        self.hermitian = bool(max(np.abs(b - b.conj().T).max() for b in self.B) < 1e-15)


def new_csys(name):
    """a fresh CompositeSystem of configuration `name` (nothing cached yet)"""
    from quara.objects.elemental_system import ElementalSystem
    from quara.objects.composite_system import CompositeSystem
    return CompositeSystem([ElementalSystem(i, _family(f, dm)) for i, (f, dm) in enumerate(CONFIGS[name][0])])


def basis_flat(B):
    out = []
    for b in B:
        out += cflat(b)
    return out


_TWIN = {}


def twin(name):
    if name not in _TWIN:
        _TWIN[name] = new_csys(name)
    return _TWIN[name]


def cfg(name):
    if name not in _CACHE:
        _CACHE[name] = Cfg(name)
    return _CACHE[name]


def active_configs(ctx, include_smoke=True):
    out = []
    for name, (_, tier, _) in CONFIGS.items():
        if tier == "quick" or not ctx.quick or (tier == "smoke" and include_smoke):
            out.append(name)
    return out


def is_smoke(ctx, name):
    return ctx.quick and CONFIGS[name][1] == "smoke"


def nn(ctx, name, q, t):
    """number of seeded cases for configuration `name`: q in the quick tier; in the thorough tier t for d <= 3, half of it for d = 4 and
    the quick-tier count for d = 6 (one d = 6 case costs seconds on both sides; the budget is 15 minutes for the whole tier)"""
    if ctx.quick:
        return q
    dim = int(np.prod([dm for _, dm in CONFIGS[name][0]]))
    return q if dim >= 6 else (max(q, t // 2) if dim >= 4 else t)


# ------------------------------------------------------------------------------------------------ generators
def dy(rng, k=8, lo=-16, hi=16):
    """a dyadic rational as float (exact in binary, so model and implementation consume the same number)"""
    return rng.randint(lo, hi) / float(k)


def rand_real(rng, *shape):
    n = int(np.prod(shape))
    return np.array([dy(rng) for _ in range(n)], dtype=float).reshape(shape)


def rand_cplx(rng, *shape):
    return rand_real(rng, *shape) + 1j * rand_real(rng, *shape)


def rand_herm(rng, n):
    A = rand_cplx(rng, n, n)
    H = (A + A.conj().T) / 2
    return H


def jc(a):
    """complex array -> json"""
    a = np.asarray(a, dtype=complex)
    return {"re": a.real.tolist(), "im": a.imag.tolist()}


def uj(o):
    return np.array(o["re"], dtype=float) + 1j * np.array(o["im"], dtype=float)


def unit(n, k, shape=None):
    v = np.zeros(n)
    v[k] = 1.0
    return v.reshape(shape) if shape else v


def decorate(ctx, cases, opts=True):
    """standard generator dimensions added to every case: the memory layout of each argument (seed of Lay) and non-default object options"""
    for case in cases:
        case["lay"] = ctx.rng.randrange(2 ** 30)
        if opts:
            o = rand_opts(ctx.rng)
            if o:
                case["opts"] = o
    return cases


# ------------------------------------------------------------------------------------------------ model calls
def M(ctx):
    return ctx.get_model()


def m_cmat(vals, m, n):
    return np.array(to_c(vals), dtype=complex).reshape(m, n)


def m_op_of_cvec(ctx, c, coef):
    return m_cmat(M(ctx).call("c02.op_of_cvec", [c.d], c.bf + cflat(coef)), c.d, c.d)


def m_cvec_of_op(ctx, c, X):
    return np.array(to_c(M(ctx).call("c02.cvec_of_op", [c.d], c.bf + cflat(X))), dtype=complex)


def m_vec_of_op_impl(ctx, c, X, eps):
    st, v = M(ctx).try_call("c02.vec_of_op_impl", [c.d], [float(eps)] + c.bf + cflat(X))
    return (st, np.array([float(x) for x in v]) if st == "ok" else v)


def m_choi(ctx, c, H, variant=0):
    return m_cmat(M(ctx).call("c02.choi_of_hs", [c.d, variant], c.bf + cflat(H)), c.D, c.D)


def m_chs(ctx, c, Ch, variant=0):
    return m_cmat(M(ctx).call("c02.chs_of_choi", [c.d, variant], c.bf + cflat(Ch)), c.D, c.D)


def m_hs_of_choi_impl(ctx, c, Ch, eps, dictv):
    st, v = M(ctx).try_call("c02.hs_of_choi_impl", [c.d, 1 if dictv else 0], [float(eps)] + c.bf + cflat(Ch))
    return (st, np.array([float(x) for x in v]).reshape(c.D, c.D) if st == "ok" else v)


def m_convert_hs(ctx, c, Bto, H):
    return m_cmat(M(ctx).call("c02.convert_hs", [c.d], c.bf + basis_flat(Bto) + cflat(H)), c.D, c.D)


def m_convert_vec(ctx, c, Bto, v):
    return np.array(to_c(M(ctx).call("c02.convert_vec", [c.d], c.bf + basis_flat(Bto) + cflat(v))), dtype=complex)


def m_comp_basis(ctx, d, mode):
    vals = M(ctx).call("c02.comp_basis", [d, 0 if mode == "row_major" else 1], [])
    return np.array(to_c(vals), dtype=complex).reshape(d * d, d, d)


def m_capply(ctx, c, H, X, B=None):
    bf = c.bf if B is None else basis_flat(B)
    return m_cmat(M(ctx).call("c02.capply_hs", [c.d], bf + cflat(H) + cflat(X)), c.d, c.d)


def band(x, eps, hi=8.0):
    """is |x| so close to eps that float rounding could flip the comparison |x| < eps ?"""
    return eps / 8 < abs(x) < eps * hi


def inband(zs, eps):
    """truncate_hs decisions on the array zs are compared only when no entry is near a threshold.  Real parts are compared with eps.
    Imaginary parts are compared with eps * max(1, max|re|) by the repaired truncate_hs (fix truncate-hs-relative-imag-threshold, the
    version the model mirrors) and with eps by the code before that fix: the band covers both, so this check gives the same answer on
    either tree (that defect belongs to C04/C11) and never compares a decision that float rounding could flip."""
    zs = np.asarray(zs, dtype=complex).ravel()
    if zs.size == 0:
        return False
    size = max(1.0, float(np.abs(zs.real).max()))
    return any(band(z.imag, eps, 8.0 * size) or band(z.real, eps) for z in zs)


LAYOUTS2 = ["C", "C", "F", "Tview", "strided", "Fstrided", "negstride", "readonly", "Freadonly"]
LAYOUTS1 = ["C", "C", "strided", "negstride", "readonly"]


class Lay:
    """memory-layout variants of the arrays handed to the implementation (a standard generator dimension: the value of the argument is the
    same, its layout in memory is not).  A conversion must depend on the VALUE only: C-contiguous copy, Fortran-ordered copy, transposed view
    of the transposed copy, non-contiguous slices of a larger C- / Fortran-ordered buffer, negative strides.  The variant of each argument is
    drawn from random.Random(case['lay']), so a case replays exactly; cases without 'lay' get plain copies."""

    def __init__(self, case):
        seed = case.get("lay") if isinstance(case, dict) else None
        self.r = __import__("random").Random(seed) if seed is not None else None
        self.used = []

    def __call__(self, A):
        A = np.array(A)
        if self.r is None or A.ndim not in (1, 2) or A.size == 0:
            return A
        kind = self.r.choice(LAYOUTS1 if A.ndim == 1 else LAYOUTS2)
        self.used.append(kind)
        if kind == "C":
            out = np.ascontiguousarray(A)
        elif kind == "F":
            out = np.asfortranarray(A)
        elif kind == "Tview":
            out = A.T.copy().T
        elif kind in ("strided", "Fstrided"):
            big = np.zeros(tuple(2 * n for n in A.shape), dtype=A.dtype, order="F" if kind == "Fstrided" else "C")
            sl = tuple(slice(None, None, 2) for _ in A.shape)
            big[sl] = A
            out = big[sl]
        elif kind in ("readonly", "Freadonly"):      # a conversion never needs to write into its argument
            out = np.asfortranarray(A) if kind == "Freadonly" else np.ascontiguousarray(A)
            out.setflags(write=False)
        else:       # negstride
            rev = tuple(slice(None, None, -1) for _ in A.shape)
            out = A[rev].copy()[rev]
        assert out.shape == A.shape and np.array_equal(out, A)
        return out

    def many(self, As):
        return [self(a) for a in As]


OPT_CHOICES = {"is_estimation_object": [True, False], "on_para_eq_constraint": [True, False], "on_algo_eq_constraint": [True, False],
               "on_algo_ineq_constraint": [True, False], "mode_proj_order": ["eq_ineq", "ineq_eq"],
               "eps_proj_physical": [None, 1e-4, 1e-6], "eps_truncate_imaginary_part": [None, 1e-10]}


def rand_opts(rng):
    """non-default constructor options of State / Povm / Gate / MProcess (projection / estimation settings and tolerances of the OBJECT): the
    representation conversions of an object must not depend on them.  Half of the cases keep the defaults."""
    if rng.random() < 0.5:
        return {}
    return {k: rng.choice(v) for k, v in OPT_CHOICES.items() if rng.random() < 0.5}


def opts_of(case):
    return dict(case.get("opts") or {})


class Cmp:
    """collects comparisons of one case; reports at most one violation per (site, signature)"""

    def __init__(self, ctx, sub, case, lay=None):
        self.ctx, self.sub, self.case = ctx, sub, case
        self.seen = set()
        self.lay = lay

    def bad(self, site, sig, what):
        if (site, sig) in self.seen:
            return
        self.seen.add((site, sig))
        if self.lay is not None and self.lay.r is not None:
            what += " [argument layouts drawn so far: %s]" % ",".join(self.lay.used[-12:])
        if isinstance(self.case, dict) and self.case.get("opts"):
            what += " [object options %s]" % (self.case["opts"],)
        self.ctx.violation(self.sub, site, sig, what, self.case)

    def eq(self, site, impl, model, what="", tol=TOL, sig="value"):
        a = np.asarray(impl, dtype=complex).ravel()
        b = np.asarray(model, dtype=complex).ravel()
        if a.shape != b.shape:
            self.bad(site, "shape", "%s: implementation returns %d entries, model %d" % (what, a.size, b.size))
            return False
        scale = 1.0 + (np.abs(b).max() if b.size else 0.0)
        err = np.abs(a - b).max() if a.size else 0.0
        if not (err <= tol * scale):
            k = int(np.argmax(np.abs(a - b)))
            self.bad(site, sig, "%s: max |impl - expected| = %.3g at flat index %d (impl %s, expected %s) [cfg %s]" % (
                what, err, k, a[k], b[k], self.case.get("cfg")))
            return False
        return True


def call(f, *a, **k):
    """run an implementation call; ('ok', value) or ('err', exception class name)"""
    try:
        return ("ok", f(*a, **k))
    except Exception as e:       # noqa
        return ("err", type(e).__name__)


# ================================================================================================ basis
def chk_basis(ctx, case):
    from quara.objects import matrix_basis as mb
    c = cfg(case["cfg"])
    K = Cmp(ctx, "basis", case)
    nice = CONFIGS[c.name][2]
    ctx.count("basis", key=("preds", c.name), label="d=%d" % c.d)
    if nice and not (c.orthonormal and c.complete and c.hermitian):
        K.bad("matrix_basis/" + c.name, "not-orthonormal-hermitian-complete",
              "basis of configuration %s: orthonormal=%s complete=%s hermitian=%s" % (c.name, c.orthonormal, c.complete, c.hermitian))
    if nice and not c.c_sys.is_orthonormal_hermitian_0thprop_identity:
        K.bad("CompositeSystem.is_orthonormal_hermitian_0thprop_identity", "flag", "flag is False for " + c.name)
    # computational bases, both orders
    for mode in ("row_major", "column_major"):
        impl = np.array([dense(b) for b in c.c_sys.comp_basis(mode=mode)])
        K.eq("matrix_basis.get_comp_basis", impl, m_comp_basis(ctx, c.d, mode), "comp_basis(%s)" % mode, tol=0.0)
        ctx.count("basis", key=("comp", c.name, mode), label="comp-basis")
    st, _ = call(mb.get_comp_basis, c.d, "diagonal")
    if st != "err":
        K.bad("matrix_basis.get_comp_basis", "error-branch", "unsupported mode accepted")
    # the exactly rational instance of the theorems is the basis quara builds for two qubits
    if c.name == "2q-pauli":
        P2 = np.array(to_c(M(ctx).call("c02.pauli2", [], [])), dtype=complex).reshape(16, 4, 4)
        K.eq("CompositeSystem.basis", c.B, P2, "2-qubit normalised Pauli basis vs Coq instance P2", tol=1e-15)
        preds = M(ctx).call("c02.basis_preds", [4], [2] + basis_flat(np.round(c.B * 2) / 2))
        ctx.count("basis", key=("p2",), label="rational-instance")
        if [int(x) for x in preds] != [1, 1, 1, 1]:
            K.bad("CompositeSystem.basis", "rational-instance", "exact predicates on the rounded 2-qubit Pauli basis: %s" % preds)


def sub_basis(ctx):
    cases = [{"cfg": n} for n in active_configs(ctx)]
    ctx.sample("basis", cases[0])
    ctx.run_cases("basis", chk_basis, cases)


# ================================================================================================ cache tables
TABLES = [("basis_T_sparse", 0), ("basisconjugate_sparse", 1), ("basis_basisconjugate_T_sparse", 2),
          ("basisconjugate_basis_sparse", 3), ("basis_basisconjugate_T_sparse_from_1", 4), ("basishermitian_basis_T_from_1", 5)]


_MODEL_TABLES = {}      # (cfg name, table name) -> full table computed by the model (the basis of a configuration is deterministic)
_MODEL_DICTS = {}       # (cfg name, which) -> {(r, col): [(x, y, z), ...]}
TABLE_SHAPE = {0: lambda D: (D, D), 1: lambda D: (D, D), 2: lambda D: (D * D, D * D), 3: lambda D: (D * D, D * D),
               4: lambda D: (D * D, (D - 1) ** 2), 5: lambda D: (D, (D - 1) ** 2)}


def model_table_full(ctx, c, name, w):
    if (c.name, name) not in _MODEL_TABLES:
        nrows, ncols = TABLE_SHAPE[w](c.D)
        chunk = max(1, 30000 // max(1, ncols))
        parts = []
        for r0 in range(0, nrows, chunk):
            r1 = min(nrows, r0 + chunk)
            parts.append(np.array(to_c(M(ctx).call("c02.table", [c.d, w, r0, r1], c.bf)), dtype=complex).reshape(r1 - r0, ncols))
        _MODEL_TABLES[(c.name, name)] = np.vstack(parts)
    return _MODEL_TABLES[(c.name, name)]


def parse_dict_row(vals, r, D):
    out, pos = {}, 0
    for col in range(D):
        n = int(vals[pos]); pos += 1
        mod = []
        for _ in range(n):
            mod.append((int(vals[pos]), int(vals[pos + 1]), complex(float(vals[pos + 2]), float(vals[pos + 3])))); pos += 4
        out[(r, col)] = mod
    return out


def model_dict_full(ctx, c, which):
    if (c.name, which) not in _MODEL_DICTS:
        out = {}
        for r in range(c.D):
            out.update(parse_dict_row(M(ctx).call("c02.dict", [c.d, which, r, r + 1], c.bf), r, c.D))
        _MODEL_DICTS[(c.name, which)] = out
    return _MODEL_DICTS[(c.name, which)]


def dict_entries(dct, key):
    return [(int(x), int(y), complex(z)) for (x, y, z) in dct.get(key, [])]


def dict_same(impl, mod):
    """same non-zero entries with the same coefficients; the order in which they are listed is irrelevant to every conversion (a sum)"""
    impl, mod = sorted(impl, key=lambda e: e[:2]), sorted(mod, key=lambda e: e[:2])
    return len(impl) == len(mod) and all(i[0] == m[0] and i[1] == m[1] and abs(i[2] - m[2]) <= 1e-15 for i, m in zip(impl, mod))


def chk_tables(ctx, case):
    c = Cfg(case["cfg"])          # fresh CompositeSystem: tables are built here ...
    _CACHE[case["cfg"]] = c       # ... and the later sub-checks use this very system (its lazily built tables are the ones verified here)
    K = Cmp(ctx, "tables", case)
    d, D = c.d, c.D
    rows_sel = case.get("rows")   # None = all rows
    cs = c.c_sys
    for name, w in TABLES:
        T = np.asarray(getattr(cs, name).toarray(), dtype=complex)
        nrows = {0: D, 1: D, 2: D * D, 3: D * D, 4: D * D, 5: D}[w]
        ncols = {0: D, 1: D, 2: D * D, 3: D * D, 4: (D - 1) ** 2, 5: (D - 1) ** 2}[w]
        if T.shape != (nrows, ncols):
            K.bad("CompositeSystem." + name, "shape", "shape %s, expected %s" % (T.shape, (nrows, ncols)))
            continue
        if rows_sel is None:         # every row (the full model table is kept for the table_history sub-check)
            K.eq("CompositeSystem." + name, T, model_table_full(ctx, c, name, w), "%s (all %d rows)" % (name, nrows), tol=1e-15)
            ctx.count("tables", key=(c.name, name, "all"), label=name, nontrivial=True)
            continue
        rows = [r % nrows for r in rows_sel]
        runs = [(r, r + 1) for r in rows]
        for r0, r1 in runs:
            vals = M(ctx).call("c02.table", [d, w, r0, r1], c.bf)
            mod = np.array(to_c(vals), dtype=complex).reshape(r1 - r0, ncols)
            K.eq("CompositeSystem." + name, T[r0:r1], mod, "%s rows %d..%d" % (name, r0, r1 - 1), tol=1e-15)
            ctx.count("tables", key=(c.name, name, r0), label=name, nontrivial=True)
    # basis_basisconjugate: tuple and int index
    pairs = list(itertools.product(range(D), range(D)))
    if rows_sel is not None:
        pairs = [pairs[r % len(pairs)] for r in rows_sel]
    for (a, b) in pairs:
        exp = np.kron(c.B[a], c.B[b].conj())
        K.eq("CompositeSystem.basis_basisconjugate", dense(cs.basis_basisconjugate((a, b))), exp, "bbc(%d,%d)" % (a, b), tol=1e-15)
        K.eq("CompositeSystem.basis_basisconjugate", dense(cs.basis_basisconjugate(a * D + b)), exp, "bbc(int %d)" % (a * D + b), tol=1e-15)
    ctx.count("tables", key=(c.name, "bbc"), label="basis_basisconjugate")
    # dict tables, compared entry by entry (keys, index pairs, coefficients)
    for which, attr in ((0, "dict_from_hs_to_choi"), (1, "dict_from_choi_to_hs")):
        dct = getattr(cs, attr)
        rows = list(range(D)) if rows_sel is None else sorted(set(r % D for r in rows_sel))
        full = model_dict_full(ctx, c, which) if rows_sel is None else None
        for r in rows:
            modrow = full if full is not None else parse_dict_row(M(ctx).call("c02.dict", [d, which, r, r + 1], c.bf), r, D)
            for col in range(D):
                mod = modrow[(r, col)]
                impl = dict_entries(dct, (r, col))
                ok = dict_same(impl, mod)
                if not ok:
                    K.bad("CompositeSystem." + attr, "value", "%s[(%d,%d)]: implementation %s, model %s" % (attr, r, col, impl[:4], mod[:4]))
            ctx.count("tables", key=(c.name, attr, r), label=attr)


def sub_tables(ctx):
    cases = []
    for n in active_configs(ctx):
        dim = int(np.prod([dm for _, dm in CONFIGS[n][0]]))
        if is_smoke(ctx, n):
            cases.append({"cfg": n, "rows": [ctx.rng.randrange(10 ** 6) for _ in range(4)]})
        elif dim >= 6:
            cases.append({"cfg": n, "rows": [ctx.rng.randrange(10 ** 6) for _ in range(40)]})
        else:
            cases.append({"cfg": n})
    ctx.sample("tables", cases[0])
    ctx.run_cases("tables", chk_tables, cases)


# ================================================================================================ cache tables after a history of use / delete_* / rebuild
# CompositeSystem builds its tables lazily, lets the user free each one (delete_<table>()) and rebuilds it on the next use.  The property
# ("each conversion agrees with its defining formula, all alternative implementations agree, conversion + inverse = identity") must hold on a
# system with ANY such history: every table that is cached at any moment must be the defining formula (= the model's table = a fresh system's),
# and the conversions that read the tables must still agree with the model and invert each other.
SPARSE_T = [n for n, _ in TABLES]
DICT_T = ["dict_from_hs_to_choi", "dict_from_choi_to_hs"]
ALL_T = SPARSE_T + DICT_T
TWIN_GROUP = ["basisconjugate_basis_sparse", "basis_basisconjugate_T_sparse", "basis_basisconjugate_T_sparse_from_1", "basishermitian_basis_T_from_1"]   # built together
PAIR_GROUP = ["basis_T_sparse", "basisconjugate_sparse"]                                                                                                    # built together
# conversions that read (hence rebuild) a table
PATHS = {"basis_T_sparse": ["density", "povm_m"], "basisconjugate_sparse": ["vec", "povm_v"],
         "basisconjugate_basis_sparse": ["hs_sparse", "var_rt"], "basis_basisconjugate_T_sparse": ["choi_sparse", "var_rt"],
         "basis_basisconjugate_T_sparse_from_1": [], "basishermitian_basis_T_from_1": [],
         "dict_from_hs_to_choi": ["choi_dict"], "dict_from_choi_to_hs": ["hs_dict"]}
CONVS = ["density", "povm_m", "vec", "povm_v", "choi_sparse", "choi_dict", "hs_sparse", "hs_dict", "var_rt"]
_HREF = {}


def hist_ref(ctx, c, seed_obj):
    """references of one configuration: a fresh system's tables, the model's tables (d <= 4), and generic test objects with their expected
    images computed by the model: asymmetric real HS matrix H (couples imaginary with real basis elements, so a missing conjugate or a
    transposition in a rebuilt table changes the result), its Choi matrix, a generic real vec and its operator"""
    key = (c.name, seed_obj)
    if key in _HREF:
        return _HREF[key]
    import random
    rng = random.Random(seed_obj)
    fresh = new_csys(c.name)
    ref = {"fresh": {}, "model": {}}
    for name, w in TABLES:
        ref["fresh"][name] = np.asarray(getattr(fresh, name).toarray(), dtype=complex)
        if c.d <= 4:
            ref["model"][name] = model_table_full(ctx, c, name, w)
    for which, name in enumerate(DICT_T):
        dct = getattr(fresh, name)
        ref["fresh"][name] = {k: dict_entries(dct, k) for k in dct}
        if c.d <= 4:
            ref["model"][name] = {k: v for k, v in model_dict_full(ctx, c, which).items() if v}
    H = rand_real(rng, c.D, c.D)
    v = rand_real(rng, c.D)
    ref["H"], ref["v"] = H, v
    ref["choi"] = m_choi(ctx, c, H)
    ref["rho"] = m_op_of_cvec(ctx, c, v)
    _HREF[key] = ref
    return ref


def chk_table_history(ctx, case):
    from quara.objects import gate as G, state as S, povm as P
    c = cfg(case["cfg"])
    L = Lay(case)
    K = Cmp(ctx, "table_history", case, L)
    ref = hist_ref(ctx, c, case["seed_obj"])
    cs = new_csys(case["cfg"])                    # the system that goes through the history
    H, v, choi, rho = ref["H"], ref["v"], ref["choi"], ref["rho"]
    hist = [tuple(x) for x in case["hist"]]
    done = []

    def cmp_cached(trigger):
        """every table that is cached NOW (private attribute, nothing is rebuilt by looking) is the defining formula"""
        for name in ALL_T:
            val = getattr(cs, "_" + name)
            if val is None:
                continue
            for which in ("model", "fresh"):
                exp = ref[which].get(name)
                if exp is None:
                    continue
                if name in DICT_T:
                    got = {k: dict_entries(val, k) for k in val}
                    ok = set(got) == set(exp) and all(dict_same(got[k], exp[k]) for k in exp)
                    detail = "" if ok else "keys %d vs %d, first difference at %s" % (len(got), len(exp), next((k for k in sorted(set(got) | set(exp)) if k not in got or k not in exp or not dict_same(got[k], exp[k])), None))
                else:
                    arr = np.asarray(val.toarray() if hasattr(val, "toarray") else val, dtype=complex)
                    ok = arr.shape == exp.shape and (arr.size == 0 or np.abs(arr - exp).max() <= 1e-15)
                    detail = "" if ok else ("shape %s vs %s" % (arr.shape, exp.shape) if arr.shape != exp.shape else
                                            "max |difference| %.3g at %s" % (np.abs(arr - exp).max(), np.unravel_index(int(np.argmax(np.abs(arr - exp))), arr.shape)))
                if not ok:
                    K.bad("CompositeSystem." + name, "table-differs-after-history",
                          "after the history %s (last step %s) the cached table %s differs from %s: %s [cfg %s]" % (
                              done, trigger, name, "the model's B_a (x) conj B_b layout" if which == "model" else "the table of a fresh system", detail, c.name))
                    break

    def conv(op):
        sig = "value-after-table-history"
        what = "after the history %s: " % (done,)
        if op == "density":
            K.eq("state.to_density_matrix_from_vec", S.to_density_matrix_from_vec(cs, L(v)), rho, what + "vec -> density vs model", sig=sig)
        elif op == "povm_m":
            K.eq("povm.to_matrices_from_vecs", P.to_matrices_from_vecs(cs, [L(v)])[0], rho, what + "vec -> matrix vs model", sig=sig)
        elif op == "vec":
            K.eq("state.to_vec_from_density_matrix_with_sparsity", S.to_vec_from_density_matrix_with_sparsity(cs, L(rho)), v, what + "density -> vec (inverse of the model's vec -> density)", tol=1e-10, sig=sig)
        elif op == "povm_v":
            K.eq("povm.to_vec_from_matrix_with_sparsity", P.to_vec_from_matrix_with_sparsity(cs, L(rho)), v, what + "matrix -> vec", tol=1e-10, sig=sig)
        elif op == "choi_sparse":
            K.eq("gate.to_choi_from_hs_with_sparsity", G.to_choi_from_hs_with_sparsity(cs, L(H)), choi, what + "HS -> Choi vs model", sig=sig)
        elif op == "choi_dict":
            K.eq("gate.to_choi_from_hs_with_dict", G.to_choi_from_hs_with_dict(cs, L(H)), choi, what + "HS -> Choi vs model", sig=sig)
        elif op == "hs_sparse":
            K.eq("gate.to_hs_from_choi_with_sparsity", G.to_hs_from_choi_with_sparsity(cs, L(choi)), H, what + "Choi -> HS (inverse of the model's HS -> Choi; plain and dict variants are compared with the same H)", tol=1e-10, sig=sig)
        elif op == "hs_dict":
            K.eq("gate.to_hs_from_choi_with_dict", G.to_hs_from_choi_with_dict(cs, L(choi)), H, what + "Choi -> HS", tol=1e-10, sig=sig)
        elif op == "hs_plain":
            K.eq("gate.to_hs_from_choi", G.to_hs_from_choi(cs, L(choi)), H, what + "Choi -> HS", tol=1e-10, sig=sig)
        elif op == "var_rt":
            var = H.reshape(-1)
            K.eq("gate.to_var_from_choi", G.to_var_from_choi(cs, G.to_choi_from_var(cs, L(var), False), False), var, what + "var -> Choi -> var", tol=1e-10, sig=sig)
        else:
            raise KeyError(op)

    for step in hist:
        kind, arg = step
        if kind == "del":
            getattr(cs, "delete_" + arg)()
        elif kind == "get":
            getattr(cs, arg)
        elif kind == "conv":
            done.append(step)
            conv(arg)
            cmp_cached(step)
            continue
        else:
            raise KeyError(kind)
        done.append(step)
        if kind != "del":
            cmp_cached(step)
    # final phase: the tables named in the case (default: every table that was freed, with the tables built together with it) through their
    # properties in the given order, then every conversion that reads a freed table (variant agreement on the rebuilt tables; the plain
    # Choi -> HS variant is compared with the same H where that is cheap)
    freed = [a for k, a in hist if k == "del"]
    final = case.get("final")
    if final is None:
        final = [t for t in ALL_T if any(t in g and f in g for f in freed for g in (TWIN_GROUP, PAIR_GROUP, DICT_T))]
    for name in final:
        getattr(cs, name)
        done.append(("get", name))
        cmp_cached(("get", name))
    if c.orthonormal and c.hermitian:
        ops = [op for op in CONVS if any(op in PATHS[t] for t in (freed or final))]
        for op in ops + (["hs_plain"] if c.d <= 2 and "hs_sparse" in ops else []):
            conv(op)
    ndel = sum(1 for k, _ in hist if k == "del")
    ctx.count("table_history", key=(c.name, tuple(hist), tuple(case.get("final", ()))), nontrivial=ndel > 0,
              label="%s/%s/deletes=%d" % (c.name, case.get("gen", "?"), min(ndel, 4)))


def group_of(t):
    return next(g for g in (TWIN_GROUP, PAIR_GROUP, DICT_T) if t in g)


def history_cases(ctx, name, level):
    """level 'full' (1 qubit, Pauli): every single delete x every rebuild path, every ordered pair of deletes, every subset of each jointly built
    group x each member used first afterwards, cold first uses, seeded random histories over the whole alphabet;
    'medium': singles, every subset of each group with one seeded first use, a few random; 'light' (d >= 4, quick): each table of the jointly
    built d^4 group freed and rebuilt through one seeded path + one random.  'warm' = the tables built together with the freed one are cached."""
    rng = ctx.rng
    seed_obj = rng.randrange(2 ** 30)
    cases = []

    def add(gen, hist, final=None):
        case = {"cfg": name, "gen": gen, "seed_obj": seed_obj, "hist": [list(x) for x in hist]}
        if final is not None:
            case["final"] = final
        cases.append(case)

    def rebuilds(t):
        return [("get", t)] + [("conv", p) for p in PATHS[t]]

    def warm(ts):
        out = []
        for t in ts:
            for u in group_of(t):
                if ("get", u) not in out:
                    out.append(("get", u))
        return out
    if level == "light":
        for t in TWIN_GROUP:
            add("single", warm([t]) + [("del", t), rng.choice(rebuilds(t))])
        dels = rng.sample(TWIN_GROUP, rng.randint(2, 3))
        add("random", [("conv", "choi_sparse")] + [("del", t) for t in dels] + [rng.choice(rebuilds(rng.choice(dels)))], final=rng.sample(TWIN_GROUP, 4))
        return cases
    for t in ALL_T:                                        # one table freed, rebuilt through each access path (the tables built with it stay cached)
        for rb in rebuilds(t):
            add("single", warm([t]) + [("del", t), rb])
    for group in (TWIN_GROUP, PAIR_GROUP, DICT_T):          # every subset of a jointly built group freed, then a member used first
        for mask in range(1, 2 ** len(group)):
            sub = [t for i, t in enumerate(group) if mask >> i & 1]
            for first in (group if level == "full" else [rng.choice(group)]):
                add("subset", warm(group) + [("del", t) for t in sub] + [rng.choice(rebuilds(first))], final=rng.sample(group, len(group)))
    if level == "full":
        for t1, t2 in itertools.permutations(ALL_T, 2):    # every ordered pair of deletes, rebuilt in both orders
            add("pair", warm([t1, t2]) + [("del", t1), ("del", t2), rng.choice(rebuilds(t1)), rng.choice(rebuilds(t2))])
        for t in ALL_T:                                    # cold system: first use of each table through each path
            for rb in rebuilds(t):
                add("cold", [rb], final=rng.sample(group_of(t), len(group_of(t))))
    alphabet = [("del", t) for t in ALL_T] + [("get", t) for t in ALL_T] + [("conv", p) for p in CONVS]
    for _ in range(ctx.n(20, 200) if level == "full" else ctx.n(3, 30)):
        add("random", [rng.choice(alphabet) for _ in range(rng.randint(4, 14))], final=rng.sample(ALL_T, len(ALL_T)))
    return cases


def sub_table_history(ctx):
    cases = []
    for n in active_configs(ctx):
        if not CONFIGS[n][2]:
            continue
        dim = int(np.prod([dm for _, dm in CONFIGS[n][0]]))
        if dim >= 6 and ctx.quick:
            continue
        level = "full" if n == "1q-pauli" else ("medium" if (dim <= 3 or (dim == 4 and not ctx.quick)) else "light")
        cases += history_cases(ctx, n, level)
    ctx.sample("table_history", cases[0])
    ctx.run_cases("table_history", chk_table_history, decorate(ctx, cases, opts=False))


# ================================================================================================ states
def chk_state(ctx, case):
    from quara.objects import state as S
    c = cfg(case["cfg"])
    L = Lay(case)
    K = Cmp(ctx, "state", case, L)
    d, D, cs = c.d, c.D, c.c_sys
    kind = case["kind"]
    if kind == "vec":                       # vec -> density matrix, all variants
        v = np.array(case["v"], dtype=float)
        st = S.State(cs, L(v), is_physicality_required=False, **opts_of(case))
        mod = m_op_of_cvec(ctx, c, v)
        K.eq("State.to_density_matrix", st.to_density_matrix(), mod, "to_density_matrix")
        K.eq("State.to_density_matrix_with_sparsity", st.to_density_matrix_with_sparsity(), mod, "with_sparsity")
        K.eq("state.to_density_matrix_from_vec", S.to_density_matrix_from_vec(cs, L(v)), mod, "from_vec")
        ctx.count("state", key=(c.name, "vec", tuple(v)), label="vec->density/" + case.get("gen", "?"))
        if c.hermitian:
            rho = st.to_density_matrix()
            if np.abs(rho - rho.conj().T).max() > 1e-12:
                K.bad("State.to_density_matrix", "not-hermitian", "density matrix of a real vec is not Hermitian")
        if c.orthonormal and c.hermitian:   # round trip vec -> rho -> vec
            r, back = call(S.to_vec_from_density_matrix_with_sparsity, cs, st.to_density_matrix())
            if r == "err":
                K.bad("state.to_vec_from_density_matrix_with_sparsity", "unexpected-raise", "raised %s on the density matrix of a real vec" % back)
            else:
                K.eq("state.to_vec_from_density_matrix_with_sparsity", back, v, "round trip vec->density->vec", tol=1e-11, sig="round-trip")
        # variables
        for para in (True, False):
            var = v[1:] if para else v
            isd = float(1 / np.sqrt(d))
            vals = M(ctx).call("c02.density_of_var", [d, int(para)], [isd] + c.bf + [float(x) for x in var])
            K.eq("state.to_density_matrix_from_var", S.to_density_matrix_from_var(cs, L(var), para), m_cmat(vals, d, d), "from_var para=%s" % para)
    elif kind == "op":                      # matrix -> vec (truncation, error branch)
        X = uj(case["X"])
        eps = case.get("eps")
        e = ATOL if eps is None else eps
        exact = m_cvec_of_op(ctx, c, X)
        inband_ = inband(exact, e)
        ms, mv = m_vec_of_op_impl(ctx, c, X, e)
        r, iv = call(S.to_vec_from_density_matrix_with_sparsity, cs, L(X), eps)
        ctx.count("state", key=(c.name, "op", case.get("gen"), tuple(np.round(X.ravel(), 9))), nontrivial=not inband_,
                  label="density->vec/%s/%s" % (case.get("gen", "?"), "in-band" if inband_ else ms))
        if not inband_:
            if ms == "err":
                if not (r == "err" and iv == "ValueError"):
                    K.bad("state.to_vec_from_density_matrix_with_sparsity", "error-kind", "model: ValueError (imaginary part %.3g >= eps), implementation: %s" % (np.abs(exact.imag).max(), (r, iv if r == "err" else "value")))
            elif r == "err":
                K.bad("state.to_vec_from_density_matrix_with_sparsity", "unexpected-raise", "implementation raised %s, model returns a value" % iv)
            else:
                K.eq("state.to_vec_from_density_matrix_with_sparsity", iv, mv, "value")
                if np.asarray(iv).dtype != np.float64:
                    K.bad("state.to_vec_from_density_matrix_with_sparsity", "dtype", "result dtype %s" % np.asarray(iv).dtype)
                # round trip rho -> vec -> rho (complete Hermitian basis, Hermitian argument)
                if c.complete and c.hermitian and np.abs(X - X.conj().T).max() == 0:
                    # the conversion zeroes coefficients of modulus < eps (theorem C02_truncating_conversions_ok): identity up to D * eps
                    K.eq("state.to_density_matrix_from_vec", S.to_density_matrix_from_vec(cs, np.asarray(iv, dtype=float)), X, "round trip density->vec->density", tol=max(1e-11, D * e), sig="round-trip")
                for para in (True, False):
                    s2, v2 = M(ctx).try_call("c02.var_of_density_impl", [d, int(para)], [ATOL] + c.bf + cflat(X))
                    if eps is None and s2 == "ok":
                        K.eq("state.to_var_from_density_matrix", S.to_var_from_density_matrix(cs, L(X), para), [float(x) for x in v2], "to_var para=%s" % para)
    elif kind == "convert":                 # State.convert_basis / convert_vec
        from quara.objects import matrix_basis as mb
        v = np.array(case["v"], dtype=float)
        st = S.State(cs, L(v), is_physicality_required=False, **opts_of(case))
        for tname, tb in other_bases(c):
            Bt = np.array([dense(b) for b in tb])
            impl = st.convert_basis(tb)
            mod = m_convert_vec(ctx, c, Bt, v)
            K.eq("State.convert_basis", impl, mod, "convert_basis -> %s" % tname)
            K.eq("matrix_basis.convert_vec", mb.convert_vec(L(v), cs.basis(), tb), mod, "convert_vec -> %s" % tname)
            ctx.count("state", key=(c.name, "convert", tname, tuple(v)), label="convert_vec")
            # same operator, and round trip (target bases here are orthonormal and complete)
            if c.orthonormal and c.complete:
                op_to = np.tensordot(np.asarray(impl), Bt, axes=(0, 0))
                op_from = np.tensordot(v, c.B, axes=(0, 0))
                K.eq("State.convert_basis", op_to, op_from, "operator denoted after convert_basis -> %s" % tname, tol=1e-11, sig="different-operator")
                back = mb.convert_vec(np.asarray(impl), tb, cs.basis())
                K.eq("matrix_basis.convert_vec", back, v, "round trip B -> %s -> B" % tname, tol=1e-11, sig="round-trip")
        st_, _ = call(mb.convert_vec, L(v), cs.basis(), mb.get_comp_basis(d + 1))
        if st_ != "err":
            K.bad("matrix_basis.convert_vec", "error-branch", "bases of different size accepted")


def other_bases(c):
    """target bases of the same dimension (orthonormal and complete): computational row/column-major and one more"""
    from quara.objects import matrix_basis as mb
    out = [("comp-row", c.c_sys.comp_basis(mode="row_major")), ("comp-col", c.c_sys.comp_basis(mode="column_major"))]
    if c.d in (2, 3, 4):
        out.append(("ggm", mb.get_normalized_generalized_gell_mann_basis(dim=c.d)))
    if c.d == 4:
        out.append(("pauli2", mb.get_normalized_pauli_basis(n_qubit=2)))
    return out


def state_cases(ctx, name, n_rand):
    c = cfg(name)
    rng = ctx.rng
    d, D = c.d, c.D
    cases = []
    full = not is_smoke(ctx, name)
    idx = range(D) if full else rng.sample(range(D), 4)
    for a in idx:                                                  # complete basis of the vec space
        cases.append({"cfg": name, "kind": "vec", "gen": "unit", "v": unit(D, a).tolist()})
    for _ in range(n_rand):
        cases.append({"cfg": name, "kind": "vec", "gen": "random", "v": rand_real(rng, D).tolist()})
    ij = list(itertools.product(range(d), range(d))) if full else rng.sample(list(itertools.product(range(d), range(d))), 3)
    for (i, j) in ij:                                              # complete basis of the matrix space (complex units)
        E = np.zeros((d, d), dtype=complex); E[i, j] = 1
        cases.append({"cfg": name, "kind": "op", "gen": "unit", "X": jc(E)})
        cases.append({"cfg": name, "kind": "op", "gen": "i*unit", "X": jc(1j * E)})
        Hm = np.zeros((d, d), dtype=complex); Hm[i, j] += 1; Hm[j, i] += 1
        cases.append({"cfg": name, "kind": "op", "gen": "herm-unit", "X": jc(Hm / (2 if i == j else 1))})
        Ha = np.zeros((d, d), dtype=complex); Ha[i, j] += 1j; Ha[j, i] -= 1j
        if i != j:
            cases.append({"cfg": name, "kind": "op", "gen": "herm-unit", "X": jc(Ha)})
    for _ in range(n_rand):
        cases.append({"cfg": name, "kind": "op", "gen": "hermitian", "X": jc(rand_herm(rng, d))})
        cases.append({"cfg": name, "kind": "op", "gen": "complex", "X": jc(rand_cplx(rng, d, d))})
    for _ in range(max(2, n_rand // 2)):                           # thresholds of truncate_hs inside the conversion
        H = rand_herm(rng, d)
        eps = rng.choice([1e-13, 1e-6, 1e-3])
        pert = np.zeros((d, d), dtype=complex)
        i, j = rng.randrange(d), rng.randrange(d)
        pert[i, j] = rng.choice([0.01, 1000.0]) * eps * (1j if rng.random() < 0.7 else 1)
        cases.append({"cfg": name, "kind": "op", "gen": "near-eps", "X": jc(H + pert), "eps": eps})
    for _ in range(max(2, n_rand // 3)):
        cases.append({"cfg": name, "kind": "convert", "v": rand_real(rng, D).tolist()})
    return cases


def sub_state(ctx):
    cases = []
    for n in active_configs(ctx):
        cases += state_cases(ctx, n, 3 if is_smoke(ctx, n) else nn(ctx, n, 8, 40))
    ctx.sample("state", cases[len(cases) // 2])
    ctx.run_cases("state", chk_state, decorate(ctx, cases))


# ================================================================================================ POVMs
def chk_povm(ctx, case):
    from quara.objects import povm as P
    c = cfg(case["cfg"])
    L = Lay(case)
    K = Cmp(ctx, "povm", case, L)
    d, D, cs = c.d, c.D, c.c_sys
    vecs = [np.array(v, dtype=float) for v in case["vecs"]]
    m = len(vecs)
    pv = P.Povm(cs, L.many(vecs), is_physicality_required=False, **opts_of(case))
    mods = [m_op_of_cvec(ctx, c, v) for v in vecs]
    ctx.count("povm", key=(c.name, tuple(np.concatenate(vecs))), label="m=%d/%s" % (m, case.get("gen", "?")))
    K.eq("Povm.matrices", np.array(pv.matrices()), np.array(mods), "matrices()")
    K.eq("Povm.matrices_with_sparsity", np.array(pv.matrices_with_sparsity()), np.array(mods), "matrices_with_sparsity()")
    K.eq("povm.to_matrices_from_vecs", np.array(P.to_matrices_from_vecs(cs, L.many(vecs))), np.array(mods), "to_matrices_from_vecs")
    K.eq("Povm.vecs", np.array(pv.vecs), np.array(vecs), "vecs", tol=0.0)
    for x in range(m):
        K.eq("Povm.matrix", pv.matrix(x), mods[x], "matrix(%d)" % x)
        K.eq("Povm.matrix", pv.matrix((x,)), mods[x], "matrix((%d,))" % x)
        K.eq("Povm.vec", pv.vec((x,)), vecs[x], "vec((%d,))" % x, tol=0.0)
        # the sparse variant of matrix(): total in the model, same value as matrix()
        for key in (x, (x,)):
            r, val = call(pv.matrix_with_sparsity, key)
            if r == "err":
                K.bad("Povm.matrix_with_sparsity", "raises:" + val, "matrix_with_sparsity(%s) raises %s; matrix(%s) returns the POVM element (model: same value for both variants, theorem C02_variants_agree)" % (key, val, key))
            else:
                K.eq("Povm.matrix_with_sparsity", val, mods[x], "matrix_with_sparsity(%s)" % (key,))
    # matrices -> vecs (truncating), round trip.  Povm.matrices()/matrix() build their result with `ndarray += csr_matrix`, which
    # turns it into numpy.matrix (State.to_density_matrix repairs this with np.asarray, Povm does not): the documented inverse
    # conversion then raises on their output.  The value path is still checked on np.asarray(...) of the same output.
    if c.hermitian:
        raw = pv.matrices()
        for site, val in (("Povm.matrices", raw[0]), ("Povm.matrix", pv.matrix(0))):
            r, iv = call(P.to_vec_from_matrix_with_sparsity, cs, val)
            if r == "err" and type(val) is not np.ndarray:
                K.bad(site, "numpy.matrix-breaks-inverse", "%s returns %s; to_vec_from_matrix_with_sparsity on it raises %s (on matrices_with_sparsity() output it returns the vec)" % (site, type(val).__name__, iv))
            elif r == "err":
                K.bad("povm.to_vec_from_matrix_with_sparsity", "unexpected-raise", "raised %s on the output of %s" % (iv, site))
        mats = [np.asarray(x) for x in raw]
        for x in range(m):
            ms, mv = m_vec_of_op_impl(ctx, c, mats[x], ATOL)
            r, iv = call(P.to_vec_from_matrix_with_sparsity, cs, mats[x])
            if ms == "ok" and r == "ok":
                K.eq("povm.to_vec_from_matrix_with_sparsity", iv, mv, "to_vec_from_matrix(%d)" % x)
                if c.orthonormal:
                    K.eq("povm.to_vec_from_matrix_with_sparsity", iv, vecs[x], "round trip vec->matrix->vec (%d)" % x, tol=1e-11, sig="round-trip")
            elif ms != r:
                K.bad("povm.to_vec_from_matrix_with_sparsity", "error-kind", "model %s, implementation %s" % (ms, (r, iv)))
        r, allv = call(P.to_vecs_from_matrices_with_sparsity, cs, pv.matrices_with_sparsity())
        if r == "err":
            K.bad("povm.to_vecs_from_matrices_with_sparsity", "unexpected-raise", "raised %s on matrices_with_sparsity()" % allv)
        elif c.orthonormal:
            K.eq("povm.to_vecs_from_matrices_with_sparsity", np.array(allv), np.array(vecs), "round trip vecs->matrices->vecs", tol=1e-11, sig="round-trip")
    # variables (the parametrisation itself belongs to C03; here: composition with the matrix conversion)
    for para in (True, False):
        if para and m < 2:
            continue
        var = np.concatenate(vecs[:-1]) if para else np.concatenate(vecs)
        sd = float(np.sqrt(d))
        vals = M(ctx).call("c02.pvecs_of_var", [d, m, int(para)], [sd] + [float(x) for x in var])
        mvecs = np.array([float(x) for x in vals]).reshape(m, D)
        mmats = np.array([m_op_of_cvec(ctx, c, v) for v in mvecs])
        K.eq("povm.to_matrices_from_var", np.array(P.to_matrices_from_var(cs, L(var), para)), mmats, "to_matrices_from_var para=%s" % para)
        if c.hermitian and c.orthonormal:
            r, back = call(P.to_var_from_matrices, cs, list(P.to_matrices_from_var(cs, L(var), para)), para)
            if r == "ok":
                K.eq("povm.to_var_from_matrices", back, var, "round trip var->matrices->var para=%s" % para, tol=1e-11, sig="round-trip")
            else:
                K.bad("povm.to_var_from_matrices", "unexpected-raise", "raised %s" % back)
    # basis change
    for tname, tb in other_bases(c)[:2]:
        Bt = np.array([dense(b) for b in tb])
        impl = pv.convert_basis(tb)
        for x in range(m):
            K.eq("Povm.convert_basis", impl[x], m_convert_vec(ctx, c, Bt, vecs[x]), "convert_basis -> %s (%d)" % (tname, x))
            if c.orthonormal and c.complete:
                K.eq("Povm.convert_basis", np.tensordot(np.asarray(impl[x]), Bt, axes=(0, 0)), mods[x], "operator after convert_basis -> %s" % tname, tol=1e-11, sig="different-operator")


def sub_povm(ctx):
    rng = ctx.rng
    cases = []
    for n in active_configs(ctx):
        c = cfg(n)
        k = 2 if is_smoke(ctx, n) else nn(ctx, n, 6, 30)
        if not is_smoke(ctx, n):
            # complete basis: each unit vector as a POVM element (one POVM carrying d^2 'elements' in chunks of 4)
            units = [unit(c.D, a) for a in range(c.D)]
            for s in range(0, c.D, 4):
                cases.append({"cfg": n, "gen": "unit", "vecs": [u.tolist() for u in units[s:s + 4]]})
        for _ in range(k):
            m = rng.choice([1, 2, 3, 4])
            cases.append({"cfg": n, "gen": "random", "vecs": [rand_real(rng, c.D).tolist() for _ in range(m)]})
    ctx.sample("povm", cases[-1])
    ctx.run_cases("povm", chk_povm, decorate(ctx, cases))


# ================================================================================================ composite POVMs: multi-index access
PRODUCTS = {   # name: (factors (family, dim, number of outcomes), tier) - unequal local outcome counts, unequal local dimensions, three factors
    "2x3": ([("pauli", 2, 2), ("pauli", 2, 3)], "quick"),
    "3x2": ([("pauli", 2, 3), ("pauli", 2, 2)], "quick"),
    "1x3": ([("pauli", 2, 1), ("ggm", 2, 3)], "quick"),
    "2x3x2": ([("pauli", 2, 2), ("pauli", 2, 3), ("pauli", 2, 2)], "quick"),
    "2x2": ([("pauli", 2, 2), ("pauli", 2, 2)], "quick"),
    "q2xt3": ([("pauli", 2, 2), ("gm", 3, 3)], "thorough"),
    "t3xq4": ([("gm", 3, 3), ("pauli", 2, 4)], "thorough"),
    "3x4x2": ([("pauli", 2, 3), ("pauli", 2, 4), ("pauli", 2, 2)], "thorough"),
}


def chk_povm_product(ctx, case):
    """A composite POVM (built by operators.tensor_product from local POVMs with possibly DIFFERENT numbers of outcomes) accessed with a tuple index:
    Povm.vec / matrix / matrix_with_sparsity (x_1, .., x_k) must be the representation of the element A_x1 (x) .. (x) K_xk, which is stored row-major
    at serial position sum_i x_i * prod_{j>i} n_j of vecs / matrices().  Every tuple of the index box is enumerated (nothing depends on the seed
    except the entries of the local POVMs)."""
    from quara.objects.elemental_system import ElementalSystem
    from quara.objects.composite_system import CompositeSystem
    from quara.objects import povm as P
    from quara.objects.operators import tensor_product
    L = Lay(case)
    K = Cmp(ctx, "povm_product", case, L)
    factors = case["factors"]
    locs, mats = [], []
    for i, (fam, dm, m) in enumerate(factors):
        cs_i = CompositeSystem([ElementalSystem(i, _family(fam, dm))])
        vecs = [np.array(v, dtype=float) for v in case["vecs"][i]]
        locs.append(P.Povm(cs_i, L.many(vecs), is_physicality_required=False))
        Bi = np.array([dense(b) for b in cs_i.basis()])
        bfi = basis_flat(Bi)
        mats.append([m_cmat(M(ctx).call("c02.op_of_cvec", [dm], bfi + cflat(v)), dm, dm) for v in vecs])     # the model's local elements
    pv = locs[0]
    for q in locs[1:]:
        pv = tensor_product(pv, q)
    nums = [m for _, _, m in factors]
    if list(pv.nums_local_outcomes) != nums:
        K.bad("Povm.nums_local_outcomes", "value", "nums_local_outcomes %s of the product of local POVMs with %s outcomes" % (list(pv.nums_local_outcomes), nums))
        return
    cs = pv.composite_system
    d = int(cs.dim)
    bf = basis_flat(np.array([dense(b) for b in cs.basis()]))
    all_m = [np.asarray(x) for x in pv.matrices()]
    for serial, md in enumerate(itertools.product(*[range(n) for n in nums])):
        exp = np.eye(1, dtype=complex)
        for f, x in zip(mats, md):
            exp = np.kron(exp, f[x])                                            # the element the tuple denotes
        stored = m_cmat(M(ctx).call("c02.op_of_cvec", [d], bf + cflat(np.asarray(pv.vecs[serial], dtype=float))), d, d)
        K.eq("Povm.matrices", all_m[serial], stored, "matrices()[%d] vs model operator of vecs[%d]" % (serial, serial))
        K.eq("operators.tensor_product(Povm, Povm)", stored, exp, "element stored at serial %d vs the product element %s (row-major layout)" % (serial, md), tol=1e-9, sig="layout")
        for key in (md, serial):
            r, v = call(pv.vec, key)
            if r == "err":
                K.bad("Povm.vec", "unexpected-raise", "vec(%s) raised %s (local outcome counts %s)" % (key, v, nums))
            else:
                K.eq("Povm.vec", v, pv.vecs[serial], "vec(%s) vs vecs[%d] (local outcome counts %s)" % (key, serial, nums), tol=0.0, sig="multi-index")
            for site, f in (("Povm.matrix", pv.matrix), ("Povm.matrix_with_sparsity", pv.matrix_with_sparsity)):
                r, v = call(f, key)
                if r == "err":
                    K.bad(site, "unexpected-raise", "%s(%s) raised %s" % (site, key, v))
                else:
                    K.eq(site, v, exp, "%s(%s) vs the element %s of the product POVM (local outcome counts %s)" % (site, key, md, nums), tol=1e-9, sig="multi-index")
        ctx.count("povm_product", key=(case["name"], md), label="%s/outcomes=%s" % (case["name"], "x".join(map(str, nums))))
    for bad_key, kinds in ((tuple([0] * (len(nums) + 1)), ("ValueError",)), (tuple(nums), ("IndexError",)), (int(np.prod(nums)), ("IndexError",))):
        r, v = call(pv.vec, bad_key)
        if not (r == "err" and v in kinds):
            K.bad("Povm.vec", "error-branch", "vec(%s) on local outcome counts %s: expected %s, got %s" % (bad_key, nums, kinds, (r, v if r == "err" else "value")))


def sub_povm_product(ctx):
    rng = ctx.rng
    cases = []
    for name, (factors, tier) in PRODUCTS.items():
        if tier == "thorough" and ctx.quick:
            continue
        vecs = [[rand_real(rng, dm * dm).tolist() for _ in range(m)] for _, dm, m in factors]
        cases.append({"name": name, "factors": [list(f) for f in factors], "vecs": vecs})
    ctx.sample("povm_product", cases[0])
    ctx.run_cases("povm_product", chk_povm_product, decorate(ctx, cases, opts=False))


# ================================================================================================ gates: HS <-> Choi
def frob(A):
    return float(np.sqrt((np.abs(np.asarray(A)) ** 2).sum()))


def chk_gate_choi(ctx, case):
    from quara.objects import gate as G
    c = cfg(case["cfg"])
    L = Lay(case)
    K = Cmp(ctx, "gate_choi", case, L)
    d, D, cs = c.d, c.D, c.c_sys
    kind = case["kind"]
    if kind == "hs":                     # HS -> Choi, three variants, methods and functions
        H = uj(case["H"])
        real = bool(np.abs(H.imag).max() == 0)
        mod = m_choi(ctx, c, H)
        if D <= 16 and case.get("allvariants"):
            for v in (1, 2, 3):          # the Coq definitions of the plain / sparse / dict routes agree (theorem C02_variants_agree)
                K.eq("model-variants", m_choi(ctx, c, H, v), mod, "model variant %d" % v, tol=0.0)
        Hin = H.real.astype(np.float64) if real else H
        outs = {"gate.to_choi_from_hs": G.to_choi_from_hs(cs, L(Hin)),
                "gate.to_choi_from_hs_with_dict": G.to_choi_from_hs_with_dict(cs, L(Hin)),
                "gate.to_choi_from_hs_with_sparsity": G.to_choi_from_hs_with_sparsity(cs, L(Hin))}
        if real and not is_smoke(ctx, c.name):      # the methods are thin wrappers of the functions: skipped for the quick-tier d = 6 configuration
            g = G.Gate(cs, L(Hin), is_physicality_required=False, **opts_of(case))
            outs["Gate.to_choi_matrix"] = g.to_choi_matrix()
            outs["Gate.to_choi_matrix_with_dict"] = g.to_choi_matrix_with_dict()
            outs["Gate.to_choi_matrix_with_sparsity"] = g.to_choi_matrix_with_sparsity()
        if not is_smoke(ctx, c.name):      # an EQUAL but not identical CompositeSystem (same elemental bases, own caches) must give the same answers
            tw = twin(c.name)
            outs["gate.to_choi_from_hs[twin c_sys]"] = G.to_choi_from_hs(tw, L(Hin))
            outs["gate.to_choi_from_hs_with_sparsity[twin c_sys]"] = G.to_choi_from_hs_with_sparsity(tw, L(Hin))
        for site, val in outs.items():
            K.eq(site.split("[")[0], val, mod, "HS -> Choi" + (" on an equal but not identical CompositeSystem" if "[" in site else ""))
        ctx.count("gate_choi", key=(c.name, "hs", tuple(np.round(H.ravel(), 9))), label="hs->choi/%s" % case.get("gen", "?"))
        ch = outs["gate.to_choi_from_hs"]
        if c.orthonormal:                # isometry; Hermitian Choi for real HS; round trips through every inverse variant
            if abs(frob(ch) - frob(H)) > 1e-10 * (1 + frob(H)):
                K.bad("gate.to_choi_from_hs", "not-isometric", "||Choi||_F = %.12g, ||HS||_F = %.12g" % (frob(ch), frob(H)))
        if real and c.hermitian and np.abs(ch - ch.conj().T).max() > 1e-12:
            K.bad("gate.to_choi_from_hs", "not-hermitian", "Choi matrix of a real HS matrix is not Hermitian")
        if real and c.orthonormal and c.hermitian:
            for site, f in (("gate.to_hs_from_choi", G.to_hs_from_choi), ("gate.to_hs_from_choi_with_dict", G.to_hs_from_choi_with_dict),
                            ("gate.to_hs_from_choi_with_sparsity", G.to_hs_from_choi_with_sparsity)):
                r, back = call(f, cs, L(ch))
                if r == "err":
                    K.bad(site, "unexpected-raise", "raised %s on the Choi matrix of a real HS matrix" % back)
                else:
                    K.eq(site, back, H.real, "round trip HS->Choi->HS", tol=1e-11, sig="round-trip")
    elif kind == "choi":                 # Choi -> HS, three variants
        Ch = uj(case["Ch"])
        eps = case.get("eps")
        e = ATOL if eps is None else eps
        exact = m_chs(ctx, c, Ch, 0)
        exact_d = m_chs(ctx, c, Ch, 3)   # the dict route (no conjugate)
        if D <= 16 and case.get("allvariants"):
            K.eq("model-variants", m_chs(ctx, c, Ch, 1), exact, "model chs definition", tol=0.0)
            K.eq("model-variants", m_chs(ctx, c, Ch, 2), exact, "model chs sparse", tol=0.0)
            K.eq("model-variants", m_chs(ctx, c, Ch, 4), exact_d, "model chs dict lists", tol=0.0)
        K.eq("gate.to_hs_from_choi", G.to_hs_from_choi(cs, L(Ch)), exact.real, "Choi -> HS (plain, real part)")
        herm = bool(np.abs(Ch - Ch.conj().T).max() == 0)
        for site, f, ex, dictv in (("gate.to_hs_from_choi_with_sparsity", G.to_hs_from_choi_with_sparsity, exact, False),
                                   ("gate.to_hs_from_choi_with_dict", G.to_hs_from_choi_with_dict, exact_d, True)):
            inband_ = inband(ex, e)
            ms, mv = m_hs_of_choi_impl(ctx, c, Ch, e, dictv)
            r, iv = call(f, cs, L(Ch), eps)
            ctx.count("gate_choi", key=(c.name, site, case.get("gen"), tuple(np.round(Ch.ravel(), 9))), nontrivial=not inband_,
                      label="choi->hs/%s/%s" % (case.get("gen", "?"), "in-band" if inband_ else ms))
            if inband_:
                continue
            if ms == "err":
                if not (r == "err" and iv == "ValueError"):
                    K.bad(site, "error-kind", "model: ValueError (imaginary part %.3g), implementation %s" % (np.abs(ex.imag).max(), (r, iv if r == "err" else "value")))
            elif r == "err":
                K.bad(site, "unexpected-raise", "implementation raised %s, model returns a value" % iv)
            else:
                K.eq(site, iv, mv, "Choi -> HS")
                if herm and c.complete and c.hermitian:      # round trip Choi -> HS -> Choi
                    K.eq(site, G.to_choi_from_hs(cs, np.asarray(iv, dtype=float)), Ch, "round trip Choi->HS->Choi", tol=max(1e-11, D * D * e), sig="round-trip")
        if c.hermitian:                  # for a Hermitian basis the dict route equals the plain formula
            K.eq("gate.to_hs_from_choi_with_dict", exact_d, exact, "dict formula vs plain formula (Hermitian basis)", tol=1e-11, sig="variants-differ")


def gate_choi_cases(ctx, name, n_rand):
    c = cfg(name)
    rng = ctx.rng
    D = c.D
    cases = []
    smoke = is_smoke(ctx, name)
    pairs = list(itertools.product(range(D), range(D)))
    # complete basis: all d^4 matrix units for d <= 3; a seeded sample for d = 4 (16 quick / 96 thorough) and d = 6 (12) - the cache-table
    # sub-check compares every B_a (x) conj B_b, i.e. the image of every unit HS matrix, entrywise on every run (d <= 4; sampled rows for d = 6)
    nsel = 0 if smoke else (12 if D >= 36 else ((16 if ctx.quick else 96) if D >= 16 else len(pairs)))
    sel = pairs if nsel >= len(pairs) else rng.sample(pairs, nsel)
    for t, (a, b) in enumerate(sel):                               # complete basis of the HS space
        cases.append({"cfg": name, "kind": "hs", "gen": "unit", "H": jc(unit(D * D, a * D + b, (D, D))), "allvariants": t % 20 == 0})
    for t in range(n_rand):
        cases.append({"cfg": name, "kind": "hs", "gen": "real", "H": jc(rand_real(rng, D, D)), "allvariants": t < 1})
        if not smoke:
            cases.append({"cfg": name, "kind": "hs", "gen": "complex", "H": jc(rand_cplx(rng, D, D))})
    sel = pairs if nsel >= len(pairs) else rng.sample(pairs, nsel)
    for t, (i, j) in enumerate(sel):                               # complete basis of the Choi space
        cases.append({"cfg": name, "kind": "choi", "gen": "unit", "Ch": jc(unit(D * D, i * D + j, (D, D))), "allvariants": t % 20 == 0})
    for t in range(n_rand):
        cases.append({"cfg": name, "kind": "choi", "gen": "hermitian", "Ch": jc(rand_herm(rng, D)), "allvariants": t < 1})
        if not smoke:
            cases.append({"cfg": name, "kind": "choi", "gen": "complex", "Ch": jc(rand_cplx(rng, D, D))})
    for _ in range(1 if smoke else max(2, n_rand // 2)):
        H = rand_herm(rng, D)
        eps = rng.choice([1e-13, 1e-6, 1e-3])
        i, j = rng.randrange(D), rng.randrange(D)
        H[i, j] += rng.choice([0.01, 1000.0]) * eps * 1j
        cases.append({"cfg": name, "kind": "choi", "gen": "near-eps", "Ch": jc(H), "eps": eps})
    return cases


def sub_gate_choi(ctx):
    cases = []
    for n in active_configs(ctx):
        cases += gate_choi_cases(ctx, n, 1 if is_smoke(ctx, n) else nn(ctx, n, 4, 30))
    ctx.sample("gate_choi", cases[len(cases) // 3])
    ctx.run_cases("gate_choi", chk_gate_choi, decorate(ctx, cases))


# ================================================================================================ gates: basis change, process matrix
def comm_matrix(d):
    Kc = np.zeros((d * d, d * d))
    for r in range(d * d):
        Kc[r, (r % d) * d + r // d] = 1
    return Kc


def chk_gate_basis(ctx, case):
    from quara.objects import gate as G
    c = cfg(case["cfg"])
    L = Lay(case)
    K = Cmp(ctx, "gate_basis", case, L)
    d, D, cs = c.d, c.D, c.c_sys
    H = uj(case["H"])
    real = bool(np.abs(H.imag).max() == 0)
    Hin = H.real.astype(np.float64) if real else H
    X = uj(case["X"])
    g = G.Gate(cs, L(Hin), is_physicality_required=False, **opts_of(case)) if real else None
    ctx.count("gate_basis", key=(c.name, tuple(np.round(H.ravel(), 9))), label="%s/%s" % ("real" if real else "complex", case.get("gen", "?")))
    img = m_capply(ctx, c, H, X)                                  # the operator the gate maps X to (model, original basis)
    got = {}
    for tname, tb in other_bases(c):
        Bt = np.array([dense(b) for b in tb])
        mod = m_convert_hs(ctx, c, Bt, H)
        impl = G.convert_hs(L(Hin), cs.basis(), tb)
        got[tname] = impl
        K.eq("gate.convert_hs", impl, mod, "convert_hs -> %s" % tname)
        if g is not None:
            K.eq("Gate.convert_basis", g.convert_basis(tb), mod, "convert_basis -> %s" % tname)
            if tname == "comp-row":
                K.eq("Gate.convert_to_comp_basis", g.convert_to_comp_basis(), mod, "convert_to_comp_basis()")
                K.eq("Gate.convert_to_comp_basis", g.convert_to_comp_basis(mode="row_major"), mod, "convert_to_comp_basis(row_major)")
            if tname == "comp-col":
                K.eq("Gate.convert_to_comp_basis", g.convert_to_comp_basis(mode="column_major"), mod, "convert_to_comp_basis(column_major)")
        if c.orthonormal and c.complete:
            # SAME OPERATOR: apply the converted matrix through the target basis (numpy) and compare with the model's image
            cv = np.array([np.vdot(Bt[a], X) for a in range(D)])
            out = np.tensordot(np.asarray(impl) @ cv, Bt, axes=(0, 0))
            K.eq("gate.convert_hs", out, img, "operator G(X) after convert_hs -> %s" % tname, tol=1e-10, sig="different-operator")
            back = G.convert_hs(np.asarray(impl), tb, cs.basis())
            K.eq("gate.convert_hs", back, H, "round trip B -> %s -> B" % tname, tol=1e-10, sig="round-trip")
    # row- versus column-major: commutation matrix
    Kc = comm_matrix(d)
    K.eq("Gate.convert_to_comp_basis", got["comp-col"], Kc @ got["comp-row"] @ Kc.T, "column-major = K . row-major . K^T", tol=1e-11, sig="row-col-major")
    if c.orthonormal and c.complete:     # computational basis, row-major: HS_cb . vec_row(X) = vec_row(G(X))
        K.eq("Gate.convert_to_comp_basis", (got["comp-row"] @ X.reshape(-1)).reshape(d, d), img, "HS_cb vec(X) = vec(G(X))", tol=1e-10, sig="different-operator")
        K.eq("Gate.convert_to_comp_basis", (got["comp-col"] @ X.T.reshape(-1)).reshape(d, d).T, img, "column-major: HS_cb vec_col(X) = vec_col(G(X))", tol=1e-10, sig="different-operator")
    # process matrix
    mod = m_cmat(M(ctx).call("c02.process_matrix", [d], c.bf + cflat(H)), D, D)      # executed through the Choi route (theorem C02_process_matrix_is_choi)
    if d <= 3:       # ... cross-checked against the executed definition Tr[(E_a^dag (x) E_b^T) HS_cb] where that is cheap
        K.eq("model-variants", m_cmat(M(ctx).call("c02.process_matrix", [d, 1], c.bf + cflat(H)), D, D), mod, "model: process matrix, definition route vs Choi route", tol=0.0)
    impl = G.to_process_matrix_from_hs(cs, L(Hin))
    K.eq("gate.to_process_matrix_from_hs", impl, mod, "process matrix")
    if g is not None:
        K.eq("Gate.to_process_matrix", g.to_process_matrix(), mod, "to_process_matrix()")
    if real and c.hermitian and np.abs(np.asarray(impl) - np.asarray(impl).conj().T).max() > 1e-12:      # theorem C02_hermiticity
        K.bad("gate.to_process_matrix_from_hs", "not-hermitian", "process matrix of a real HS matrix is not Hermitian")
    if c.orthonormal and c.complete:     # defining formula sum chi_ab E_a X E_b^dag = G(X)
        E = [np.asarray(dense(b)) for b in cs.comp_basis()]
        out = sum(impl[a, b] * (E[a] @ X @ E[b].conj().T) for a in range(D) for b in range(D) if impl[a, b] != 0)
        K.eq("gate.to_process_matrix_from_hs", out, img, "sum chi E X E^dag = G(X)", tol=1e-10, sig="different-operator")
    st, _ = call(G.convert_hs, np.zeros((D, D + 1)), cs.basis(), cs.comp_basis())
    if st != "err":
        K.bad("gate.convert_hs", "error-branch", "non-square HS accepted")


def sub_gate_basis(ctx):
    rng = ctx.rng
    cases = []
    for n in active_configs(ctx):
        c = cfg(n)
        smoke = is_smoke(ctx, n)
        k = 1 if smoke else nn(ctx, n, 3, 25)
        units = [] if smoke else rng.sample(range(c.D * c.D), min(c.D * c.D, nn(ctx, n, 6, 60)))
        for u in units:
            cases.append({"cfg": n, "gen": "unit", "H": jc(unit(c.D * c.D, u, (c.D, c.D))), "X": jc(rand_cplx(rng, c.d, c.d))})
        for _ in range(k):
            cases.append({"cfg": n, "gen": "random", "H": jc(rand_real(rng, c.D, c.D)), "X": jc(rand_cplx(rng, c.d, c.d))})
            if not smoke:
                cases.append({"cfg": n, "gen": "random", "H": jc(rand_cplx(rng, c.D, c.D)), "X": jc(rand_cplx(rng, c.d, c.d))})
    ctx.sample("gate_basis", cases[-1])
    ctx.run_cases("gate_basis", chk_gate_basis, decorate(ctx, cases))


# ================================================================================================ Kraus
def kraus_flat(Ks):
    out = []
    for k in Ks:
        out += cflat(k)
    return out


def chk_gate_kraus(ctx, case):
    from quara.objects import gate as G
    c = cfg(case["cfg"])
    L = Lay(case)
    K = Cmp(ctx, "gate_kraus", case, L)
    d, D, cs = c.d, c.D, c.c_sys
    Ks = [uj(k) for k in case["Ks"]]
    n = len(Ks)
    # Kraus -> HS: implementation vs model of the implementation route vs specification sum_K <B_a, K B_b K^dag>
    spec = m_cmat(M(ctx).call("c02.chs_of_kraus", [d, n, 0], c.bf + kraus_flat(Ks)), D, D)
    route = m_cmat(M(ctx).call("c02.chs_of_kraus", [d, n, 1], c.bf + kraus_flat(Ks)), D, D)
    K.eq("model-variants", route, spec, "model: implementation route vs specification (theorem C02_kraus_impl_is_spec)", tol=0.0)
    inband_ = inband(spec, ATOL)
    st, val = M(ctx).try_call("c02.hs_of_kraus_impl", [d, n], [ATOL] + c.bf + kraus_flat(Ks))
    r, hs = call(G.to_hs_from_kraus_matrices, cs, L.many(Ks))
    ctx.count("gate_kraus", key=(c.name, case.get("gen"), tuple(np.round(np.concatenate([k.ravel() for k in Ks]), 9)) if Ks else ()),
              nontrivial=not inband_, label="kraus->hs/%s/n=%d/%s" % (case.get("gen", "?"), n, "in-band" if inband_ else st))
    if n == 0:
        return
    if inband_:
        return
    if st == "err":
        if not (r == "err" and hs == "ValueError"):
            K.bad("gate.to_hs_from_kraus_matrices", "error-kind", "model: ValueError, implementation %s" % ((r, hs if r == "err" else "value"),))
        return
    if r == "err":
        K.bad("gate.to_hs_from_kraus_matrices", "unexpected-raise", "raised %s" % hs)
        return
    K.eq("gate.to_hs_from_kraus_matrices", hs, np.array([float(x) for x in val]).reshape(D, D), "Kraus -> HS")
    # the MAP: HS applied to X equals sum K X K^dag
    X = uj(case["X"])
    if c.complete and c.hermitian:
        want = m_cmat(M(ctx).call("c02.kraus_apply", [d, n], kraus_flat(Ks) + cflat(X)), d, d)
        got = m_capply(ctx, c, np.asarray(hs, dtype=complex), X)
        K.eq("gate.to_hs_from_kraus_matrices", got, want, "HS(Kraus) applied to X vs sum K X K^dag", tol=1e-10, sig="different-operator")
    # HS -> Kraus (eigendecomposition): certificate sum K (x) conj K  <->  HS, never the Kraus set itself
    if c.orthonormal and c.complete and c.hermitian:
        hsr = np.asarray(hs, dtype=np.float64)
        choi = G.to_choi_from_hs(cs, hsr)
        ev = np.linalg.eigvalsh((choi + choi.conj().T) / 2)
        # non-default tolerances (explicit atol argument; eps_proj_physical of the object, which Gate.to_kraus_matrices hands to the function):
        # they govern the CP verdict only - the returned set must still denote the same map (all eigenvalues of the Choi matrix above
        # Settings.get_atol() contribute), whatever tolerance the object or the caller uses
        runs = []
        for tol_ in case.get("tols") or [None]:
            o = opts_of(case)
            o["eps_proj_physical"] = tol_
            g = G.Gate(cs, L(hsr), is_physicality_required=False, **o)
            runs.append(("gate.to_kraus_matrices_from_hs", tol_, (lambda t=tol_: G.to_kraus_matrices_from_hs(cs, L(hsr)) if t is None else G.to_kraus_matrices_from_hs(cs, L(hsr), t))))
            runs.append(("Gate.to_kraus_matrices", tol_, g.to_kraus_matrices))
        for site, tol_, f in runs:
            r2, ks2 = call(f)
            if r2 == "err":
                K.bad(site, "unexpected-raise", "raised %s on a CP map" % ks2)
                continue
            if ev.min() < -1e-9:
                continue      # cannot happen for sum K (x) conj K up to rounding; verdict semantics belong to C01
            rank = int((ev > 1e-9).sum())
            if any(1e-15 < abs(x) < 1e-9 for x in ev):
                ctx.count("gate_kraus", key=(c.name, "rank-band", tuple(np.round(ev, 12))), nontrivial=False, label="hs->kraus/eigenvalue-in-band")
            elif len(ks2) != rank:
                K.bad(site, "kraus-count", "returned %d Kraus operators for a Choi matrix of rank %d (eigenvalues %s; tolerance argument / eps_proj_physical = %s)" % (
                    len(ks2), rank, np.array2string(ev[ev > 1e-9], precision=3), tol_))
            if len(ks2) == 0:
                continue
            back = m_cmat(M(ctx).call("c02.chs_of_kraus", [d, len(ks2), 0], c.bf + kraus_flat(ks2)), D, D)
            K.eq(site, back, hsr, "certificate: HS of the returned Kraus set vs input HS (tolerance argument / eps_proj_physical = %s)" % tol_, tol=1e-8, sig="kraus-certificate")
            ctx.count("gate_kraus", key=(c.name, site, tol_, tuple(np.round(hsr.ravel(), 9))), label="hs->kraus/rank=%d/tol=%s" % (rank, tol_))


def chk_gate_noncp(ctx, case):
    """non-CP input: to_kraus_matrices_from_hs returns [] (documented)"""
    from quara.objects import gate as G
    c = cfg(case["cfg"])
    L = Lay(case)
    K = Cmp(ctx, "gate_kraus", case, L)
    H = np.array(case["H"], dtype=np.float64)
    choi = G.to_choi_from_hs(c.c_sys, H)
    ev = np.linalg.eigvalsh((choi + choi.conj().T) / 2)
    ctx.count("gate_kraus", key=(c.name, "noncp", tuple(H.ravel())), nontrivial=ev.min() < -1e-3, label="hs->kraus/non-CP")
    if ev.min() < -1e-3:
        r, ks = call(G.to_kraus_matrices_from_hs, c.c_sys, L(H))
        if r == "err" or len(ks) != 0:
            K.bad("gate.to_kraus_matrices_from_hs", "non-cp-branch", "lambda_min(Choi) = %.3g but result is %s" % (ev.min(), ks if r == "err" else "%d operators" % len(ks)))


def sub_gate_kraus(ctx):
    rng = ctx.rng
    cases, noncp = [], []
    for n in active_configs(ctx):
        c = cfg(n)
        if not c.hermitian and c.name != "1q-comp":
            continue
        d = c.d
        k = 1 if is_smoke(ctx, n) else nn(ctx, n, 8, 40)
        for t in range(k):
            nk = rng.choice([1, 1, 2, 3, d * d])
            Ks = [rand_cplx(rng, d, d) / 4 for _ in range(nk)]
            gen = "random"
            if t % 4 == 1:       # degenerate spectrum: equal-weight orthogonal Kraus operators (matrix units)
                idx = rng.sample(range(d * d), min(d * d, rng.choice([2, 3])))
                Ks = [unit(d * d, i, (d, d)).astype(complex) / 2 for i in idx]; gen = "degenerate"
            if t % 4 == 2:       # unitary-like single operator (identity with a phase pattern), rank one
                Ks = [np.diag([1, 1j, -1, -1j, 1, 1j][:d]).astype(complex)]; gen = "unitary"
            if t % 4 == 3:       # linearly dependent list (rank smaller than the list)
                A = rand_cplx(rng, d, d) / 4
                Ks = [A, 2 * A, rand_cplx(rng, d, d) / 4]; gen = "dependent"
            tols = [None, rng.choice([1e-4, 1e-6])]
            cases.append({"cfg": n, "gen": gen, "Ks": [jc(x) for x in Ks], "X": jc(rand_cplx(rng, d, d)), "tols": tols})
        for t in range(1 if is_smoke(ctx, n) else nn(ctx, n, 3, 12)):
            # weak noise: a dominant operator plus small ones (scale 2^-8 / 2^-10, exactly representable), so the Choi matrix has non-zero
            # eigenvalues of order 1e-5 .. 1e-6 - far above Settings.get_atol(), below commonly used non-default tolerances
            A = np.eye(d, dtype=complex) + rand_cplx(rng, d, d) / 16
            Ks = [A] + [rand_cplx(rng, d, d) * (2.0 ** -rng.choice([8, 10])) for _ in range(rng.choice([1, 2]))]
            cases.append({"cfg": n, "gen": "weak-noise", "Ks": [jc(x) for x in Ks], "X": jc(rand_cplx(rng, d, d)), "tols": [None, 1e-4, 1e-6]})
        if not is_smoke(ctx, n):
            # the Kraus rank (number of non-zero Choi eigenvalues) as a DETERMINISTIC dimension: 1, 2, d^2 - 1 and the full rank d^2 (generic
            # operators), full rank with a completely degenerate spectrum (all d^2 matrix units, equal weights: Choi = I/4) and full rank with
            # weak noise (smallest eigenvalues of order 1e-5) - every eigenvalue above Settings.get_atol() must contribute an operator
            for r in (sorted({1, 2, d * d - 1, d * d}) if (d < 4 or not ctx.quick) else [1, d * d]):      # d = 4 in the quick tier: rank 1 and the full rank only
                Ks = [rand_cplx(rng, d, d) / 4 for _ in range(r)]
                cases.append({"cfg": n, "gen": "rank=%s" % ("d^2" if r == d * d else ("d^2-1" if r == d * d - 1 else r)), "Ks": [jc(x) for x in Ks],
                              "X": jc(rand_cplx(rng, d, d)), "tols": [None, 1e-6]})
            Ks = [unit(d * d, i, (d, d)).astype(complex) / 2 for i in range(d * d)]
            if d < 4 or not ctx.quick:
                cases.append({"cfg": n, "gen": "full-rank-degenerate", "Ks": [jc(x) for x in Ks], "X": jc(rand_cplx(rng, d, d)), "tols": [None, 1e-6]})
            Ks = [np.eye(d, dtype=complex) + rand_cplx(rng, d, d) / 16] + [rand_cplx(rng, d, d) * 2.0 ** -8 for _ in range(d * d - 1)]
            cases.append({"cfg": n, "gen": "full-rank-weak", "Ks": [jc(x) for x in Ks], "X": jc(rand_cplx(rng, d, d)), "tols": [None, 1e-4]})
        if not is_smoke(ctx, n) and c.hermitian and c.orthonormal:
            for _ in range(nn(ctx, n, 2, 8)):
                noncp.append({"cfg": n, "H": rand_real(rng, c.D, c.D).tolist()})
    ctx.sample("gate_kraus", cases[0])
    ctx.run_cases("gate_kraus", chk_gate_kraus, decorate(ctx, cases))
    ctx.run_cases("gate_kraus", chk_gate_noncp, decorate(ctx, noncp, opts=False))


# ================================================================================================ EffectiveLindbladian: spectral ("Kraus") form
def chk_lindbladian_kraus(ctx, case):
    """EffectiveLindbladian (a Gate subclass whose HS matrix is a generator) overrides to_kraus_matrices: it returns pairs (a_i, A_i) with
    L(X) = sum_i a_i^2 A_i X A_i^dagger (a_i^2 real, possibly negative).  Certificate: sum_i a_i^2 vec(A_i) vec(A_i)^dagger (row-major vec) equals
    the Choi matrix of the HS matrix (computed by the MODEL), and the decomposition applied to a generic X equals the model's image of X.
    Generators with degenerate Choi spectra (K = I, repeated / zero rates, H = 0) are the point: eigenvectors inside a degenerate eigenspace
    must be orthonormal for the certificate to hold."""
    from quara.objects import effective_lindbladian as EL
    c = cfg(case["cfg"])
    L = Lay(case)
    K = Cmp(ctx, "lindbladian_kraus", case, L)
    d, D, cs = c.d, c.D, c.c_sys
    h = uj(case["h"]) if case.get("h") is not None else None
    k = uj(case["k"]) if case.get("k") is not None else None
    o = opts_of(case)
    if h is not None and k is not None:
        lind = EL.generate_effective_lindbladian_from_hk(cs, L(h), L(k), is_physicality_required=False, **o)
    elif k is not None:
        lind = EL.generate_effective_lindbladian_from_k(cs, L(k), is_physicality_required=False, **o)
    else:
        lind = EL.generate_effective_lindbladian_from_h(cs, L(h), is_physicality_required=False, **o)
    hs = np.asarray(lind.hs, dtype=float)
    mch = m_choi(ctx, c, hs)
    K.eq("EffectiveLindbladian.to_choi_matrix", np.asarray(dense(lind.to_choi_matrix())), mch, "to_choi_matrix() vs model Choi of the HS matrix")
    ev = np.linalg.eigvalsh((mch + mch.conj().T) / 2)
    gaps = np.diff(np.sort(ev))
    degenerate = bool((gaps < 1e-9).any())
    ctx.count("lindbladian_kraus", key=(c.name, case.get("gen"), tuple(np.round(hs.ravel(), 9))), label="%s/%s" % (case.get("gen", "?"), "degenerate" if degenerate else "simple"))
    site = "EffectiveLindbladian.to_kraus_matrices"
    suffix = ":degenerate-spectrum" if degenerate else ""
    r, ks = call(lind.to_kraus_matrices)
    if r == "err":
        K.bad(site, "unexpected-raise", "raised %s" % ks)
        return
    a2 = np.array([complex(a) ** 2 for a, _ in ks])
    if a2.size and np.abs(a2.imag).max() > 1e-10:
        K.bad(site, "weights-not-real" + suffix, "a_i^2 must be real (L is Hermiticity preserving): max |Im a_i^2| = %.3g" % np.abs(a2.imag).max())
    if not any(1e-15 < abs(x) < 1e-9 for x in ev):
        rank = int((np.abs(ev) > 1e-9).sum())
        if len(ks) != rank:
            K.bad(site, "kraus-count" + suffix, "returned %d terms for a Choi matrix with %d non-zero eigenvalues" % (len(ks), rank))
    rec = sum((w * np.outer(np.asarray(A).reshape(-1), np.asarray(A).reshape(-1).conj()) for w, (_, A) in zip(a2, ks)), np.zeros((D, D), dtype=complex))
    K.eq(site, rec, mch, "certificate: sum_i a_i^2 vec(A_i) vec(A_i)^dagger vs the model's Choi matrix", tol=1e-9, sig="kraus-certificate" + suffix)
    if c.complete and c.hermitian:          # the same statement in the property's words: the decomposition denotes the map the HS matrix denotes
        X = uj(case["X"])
        img = m_capply(ctx, c, hs.astype(complex), X)
        got = sum((w * (np.asarray(A) @ X @ np.asarray(A).conj().T) for w, (_, A) in zip(a2, ks)), np.zeros((d, d), dtype=complex))
        K.eq(site, got, img, "sum_i a_i^2 A_i X A_i^dagger vs the model's image of X", tol=1e-9, sig="different-operator" + suffix)


def sub_lindbladian_kraus(ctx):
    rng = ctx.rng
    cases = []
    for n in active_configs(ctx):
        c = cfg(n)
        if not CONFIGS[n][2] or is_smoke(ctx, n):
            continue
        d, m = c.d, c.D - 1

        def herm():
            return rand_herm(rng, d)

        def add(gen, h, k):
            cases.append({"cfg": n, "gen": gen, "h": None if h is None else jc(h), "k": None if k is None else jc(k), "X": jc(rand_cplx(rng, d, d))})
        add("k=identity", None, np.eye(m, dtype=complex))
        add("h+k=identity", herm(), np.eye(m, dtype=complex))
        add("h-only", herm(), None)
        rates = np.array([rng.choice([0.0, 0.5, 0.5, 1.0, 2.0]) for _ in range(m)])
        add("k=repeated-rates", None, np.diag(rates).astype(complex))
        add("h+k=repeated-rates", herm(), np.diag(rates).astype(complex))
        for _ in range(nn(ctx, n, 1, 6)):
            A = rand_cplx(rng, m, m) / 4
            add("h+k=generic", herm(), A @ A.conj().T)
    ctx.sample("lindbladian_kraus", cases[0])
    ctx.run_cases("lindbladian_kraus", chk_lindbladian_kraus, decorate(ctx, cases))


# ================================================================================================ variables <-> Choi
def chk_gate_var(ctx, case):
    """gate.to_choi_from_var and gate.to_var_from_choi.  The model of to_var_from_choi is the REPAIRED code (fix gate-to-var-from-choi-inverse-map):
    to_hs_from_choi_with_sparsity (formula, truncation, ValueError branch) followed by convert_hs_to_var - theorem C02_to_var_from_choi_round_trip."""
    from quara.objects import gate as G
    c = cfg(case["cfg"])
    L = Lay(case)
    K = Cmp(ctx, "gate_var", case, L)
    d, D, cs = c.d, c.D, c.c_sys
    para = bool(case["para"])
    site = "gate.to_var_from_choi"

    def fixed(ch):
        st, v = M(ctx).try_call("c02.var_of_choi_fixed", [d, int(para)], [ATOL] + c.bf + cflat(ch))
        return st, (np.array([float(x) for x in v]) if st == "ok" else v)

    def old_behaviour(ch, back):
        """does the value look like the code before the fix (forward map applied to the Choi matrix)? only used in the message"""
        try:
            mold = np.array(to_c(M(ctx).call("c02.var_of_choi_before_fix", [d, int(para)], c.bf + cflat(ch))), dtype=complex)
            b = np.asarray(back, dtype=complex).ravel()
            return b.shape == mold.shape and np.abs(b - mold).max() <= 1e-9 * (1 + np.abs(mold).max())
        except Exception:       # noqa
            return False

    if case.get("kind") == "choi":         # arbitrary Choi matrices (not produced from variables): value / error branch
        Ch = uj(case["Ch"])
        exact = m_chs(ctx, c, Ch, 0)
        inband_ = inband(exact, ATOL)
        ms, mv = fixed(Ch)
        r, back = call(G.to_var_from_choi, cs, L(Ch), para)
        ctx.count("gate_var", key=(c.name, para, "choi", tuple(np.round(Ch.ravel(), 9))), nontrivial=not inband_,
                  label="choi->var/%s/%s" % (case.get("gen", "?"), "in-band" if inband_ else ms))
        if inband_:
            return
        if ms == "err":
            if not (r == "err" and back == "ValueError"):
                K.bad(site, "error-kind", "model (Choi -> HS has imaginary part %.3g): ValueError, implementation %s%s" % (
                    np.abs(exact.imag).max(), (r, back if r == "err" else "value"), " = the forward map applied to the Choi matrix (code before the fix)" if r == "ok" and old_behaviour(Ch, back) else ""))
        elif r == "err":
            K.bad(site, "unexpected-raise", "raised %s on a Hermitian Choi matrix, model returns the variables" % back)
        else:
            K.eq(site, back, mv, "to_var_from_choi(Choi) vs model (Choi -> HS -> var)%s" % (" [value = forward map applied to the Choi matrix, the code before the fix]" if old_behaviour(Ch, back) else ""), sig="model-mismatch")
        return

    var = np.array(case["var"], dtype=float)
    ctx.count("gate_var", key=(c.name, para, tuple(var)), label="para=%s/%s" % (para, case.get("gen", "?")))
    mch = m_cmat(M(ctx).call("c02.choi_of_var", [d, int(para)], c.bf + [float(x) for x in var]), D, D)
    ch = G.to_choi_from_var(cs, L(var), para)
    if not K.eq("gate.to_choi_from_var", ch, mch, "to_choi_from_var"):
        return
    ms, mv = fixed(np.asarray(ch))
    if c.orthonormal:
        if ms != "ok":
            K.bad("model-variants", "value", "model: repaired to_var_from_choi raises on the Choi matrix of a variable vector (contradicts theorem C02_to_var_from_choi_round_trip)")
            return
        K.eq("model-variants", mv, var, "model: repaired to_var_from_choi recovers the variables (theorem C02_to_var_from_choi_round_trip)", tol=1e-11)
    r, back = call(G.to_var_from_choi, cs, L(ch), para)
    if r == "err":
        K.bad(site, "unexpected-raise", "raised %s on the Choi matrix of a variable vector" % back)
        return
    note = " [value = forward map HS->Choi applied to the Choi matrix, i.e. the code before fix gate-to-var-from-choi-inverse-map]" if old_behaviour(np.asarray(ch), back) else ""
    if c.orthonormal:      # what the property requires: the inverse of to_choi_from_var
        if not K.eq(site, back, var, "round trip var -> Choi -> var" + note, tol=1e-10, sig="round-trip"):
            return
    if ms == "ok":
        K.eq(site, back, mv, "to_var_from_choi vs model (Choi -> HS -> var)" + note, sig="model-mismatch")


def hadamard_var(c, para):
    from quara.objects import gate as G
    if c.d == 2:
        hs = np.array([[1, 0, 0, 0], [0, 0, 0, 1], [0, 0, -1, 0], [0, 1, 0, 0]], dtype=float)
        hs = np.asarray(G.convert_hs(hs, __import__("quara.objects.matrix_basis", fromlist=["x"]).get_normalized_pauli_basis(), c.c_sys.basis())).real
    elif c.name == "2q-pauli":
        hs = np.kron(np.array([[1, 0, 0, 0], [0, 0, 0, 1], [0, 0, -1, 0], [0, 1, 0, 0]], dtype=float), np.eye(4))
    else:
        return None
    return (hs[1:] if para else hs).reshape(-1)


def sub_gate_var(ctx):
    rng = ctx.rng
    cases = []
    for n in active_configs(ctx):
        c = cfg(n)
        for para in (True, False):
            ln = (c.D - (1 if para else 0)) * c.D
            hv = hadamard_var(c, para)
            if hv is not None:       # the witness of theorem C02_to_var_from_choi_refuted (H resp. H (x) I), replayed on the real code
                cases.append({"cfg": n, "gen": "hadamard", "para": para, "var": [float(x) for x in hv]})
            k = 1 if is_smoke(ctx, n) else nn(ctx, n, 3, 12)
            for _ in range(k):
                cases.append({"cfg": n, "gen": "random", "para": para, "var": rand_real(rng, ln).tolist()})
            if not is_smoke(ctx, n):
                for u in rng.sample(range(ln), min(ln, nn(ctx, n, 4, 16))):
                    cases.append({"cfg": n, "gen": "unit", "para": para, "var": unit(ln, u).tolist()})
                for t in range(nn(ctx, n, 2, 6)):       # Choi matrices that do not come from variables: Hermitian (value) / complex (ValueError)
                    herm = t % 2 == 0
                    cases.append({"cfg": n, "kind": "choi", "gen": "hermitian" if herm else "complex", "para": para,
                                  "Ch": jc(rand_herm(rng, c.D) if herm else rand_cplx(rng, c.D, c.D))})
    ctx.sample("gate_var", cases[0])
    ctx.run_cases("gate_var", chk_gate_var, decorate(ctx, cases))


# ================================================================================================ MProcess
def chk_mprocess(ctx, case):
    from quara.objects import mprocess as MP
    from quara.objects import gate as G
    c = cfg(case["cfg"])
    L = Lay(case)
    K = Cmp(ctx, "mprocess", case, L)
    d, D, cs = c.d, c.D, c.c_sys
    hss = [np.array(h, dtype=np.float64) for h in case["hss"]]
    shape = tuple(case["shape"])
    mp = MP.MProcess(cs, L.many(hss), shape=shape, is_physicality_required=False, **opts_of(case))
    ctx.count("mprocess", key=(c.name, shape, tuple(np.concatenate([h.ravel() for h in hss]))), label="shape=%s" % (shape,))
    multi = list(itertools.product(*[range(s) for s in shape]))
    light = bool(case.get("light"))      # quick-tier smoke configuration (d = 6): layout of every outcome, the conversions of the LAST outcome only
    for serial, idx in enumerate(multi):
        H = hss[serial]
        if light and serial != len(multi) - 1:
            for key in (serial, tuple(idx)):
                K.eq("MProcess.hs", mp.hs(key), H, "hs(%s)" % (key,), tol=0.0, sig="layout")
            continue
        mch = m_choi(ctx, c, H)
        for key in (serial, tuple(idx)):
            K.eq("MProcess.hs", mp.hs(key), H, "hs(%s)" % (key,), tol=0.0, sig="layout")
            K.eq("MProcess.to_choi_matrix", mp.to_choi_matrix(key), mch, "to_choi_matrix(%s)" % (key,))
            K.eq("MProcess.to_choi_matrix_with_dict", mp.to_choi_matrix_with_dict(key), mch, "with_dict(%s)" % (key,))
            K.eq("MProcess.to_choi_matrix_with_sparsity", mp.to_choi_matrix_with_sparsity(key), mch, "with_sparsity(%s)" % (key,))
        mpm = m_cmat(M(ctx).call("c02.process_matrix", [d], c.bf + cflat(H)), D, D)
        K.eq("MProcess.to_process_matrix", mp.to_process_matrix(tuple(idx)), mpm, "to_process_matrix(%s)" % (idx,))
        # Kraus certificate per outcome (only when the outcome is CP with a clear margin)
        ev = np.linalg.eigvalsh((mch + mch.conj().T) / 2)
        if ev.min() > -1e-12 and not any(1e-15 < abs(x) < 1e-9 for x in ev):
            r, ks = call(mp.to_kraus_matrices, tuple(idx))
            if r == "err":
                K.bad("MProcess.to_kraus_matrices", "unexpected-raise", "raised %s" % ks)
            elif len(ks) > 0:
                back = m_cmat(M(ctx).call("c02.chs_of_kraus", [d, len(ks), 0], c.bf + kraus_flat(ks)), D, D)
                K.eq("MProcess.to_kraus_matrices", back, H, "certificate HS(Kraus(outcome %s)) vs HS" % (idx,), tol=1e-8, sig="kraus-certificate")
    for tname, tb in other_bases(c)[:(1 if light else 3)]:
        Bt = np.array([dense(b) for b in tb])
        impl = mp.convert_basis(tb)
        for serial in (range(len(hss)) if not light else [len(hss) - 1]):
            mod = m_convert_hs(ctx, c, Bt, hss[serial])
            K.eq("MProcess.convert_basis", impl[serial], mod, "convert_basis -> %s (%d)" % (tname, serial))
            if tname == "comp-row":
                K.eq("MProcess.convert_to_comp_basis", mp.convert_to_comp_basis()[serial], mod, "convert_to_comp_basis() (%d)" % serial)
            if tname == "comp-col":
                K.eq("MProcess.convert_to_comp_basis", mp.convert_to_comp_basis(mode="column_major")[serial], mod, "convert_to_comp_basis(column_major) (%d)" % serial)
    st, _ = call(mp.hs, tuple([0] * (len(shape) + 1)))
    if st != "err":
        K.bad("MProcess.hs", "error-branch", "multi-index of wrong length accepted")


def sub_mprocess(ctx):
    rng = ctx.rng
    cases = []
    for n in active_configs(ctx):
        c = cfg(n)
        if not CONFIGS[n][2]:
            continue          # MProcess requires an orthonormal Hermitian basis with B_0 ~ I (constructor raises otherwise)
        k = 1 if is_smoke(ctx, n) else nn(ctx, n, 2 if c.D >= 16 else 3, 12)
        for t in range(k):
            shape = rng.choice([(1,), (2,), (3,), (2, 2), (2, 3), (3, 2)]) if c.D <= 16 else rng.choice([(2,), (1, 2)])
            m = int(np.prod(shape))
            hss = []
            for x in range(m):
                if t % 2 == 0:
                    hss.append(rand_real(rng, c.D, c.D))
                else:        # CP outcomes built from random Kraus lists through the implementation's own basis (values via numpy)
                    Ks = [rand_cplx(rng, c.d, c.d) / 4 for _ in range(rng.choice([1, 2]))]
                    cb = sum(np.kron(kk, kk.conj()) for kk in Ks)
                    U = np.array([[np.vdot(c.B[a], unit(c.D, r, (c.d, c.d))) for r in range(c.D)] for a in range(c.D)])
                    hss.append(np.ascontiguousarray((U @ cb @ U.conj().T).real))
            cases.append({"cfg": n, "shape": list(shape), "hss": [h.tolist() for h in hss], "light": is_smoke(ctx, n)})
    ctx.sample("mprocess", cases[0])
    ctx.run_cases("mprocess", chk_mprocess, decorate(ctx, cases))


# ================================================================================================ returned arrays modified by the caller
def scribble(x):
    """overwrite a returned value in place where Python lets the caller do so (arrays, lists / tuples of arrays, (weight, array) pairs)"""
    if isinstance(x, (list, tuple)):
        for y in x:
            scribble(y)
    elif isinstance(x, np.ndarray) and x.flags.writeable and x.size:
        x[...] = 7.25
    elif hasattr(x, "data") and hasattr(x, "toarray") and getattr(x.data, "flags", None) is not None and x.data.flags.writeable and x.data.size:
        x.data[...] = 7.25


def chk_returned_arrays(ctx, case):
    """The array a conversion METHOD returns belongs to the caller: overwriting it must not change what the object (or the CompositeSystem) returns
    the next time - every conversion is called, its result overwritten in place, then all conversions are called again and compared with the model."""
    from quara.objects import state as S, povm as P, gate as G, mprocess as MP
    c = cfg(case["cfg"])
    L = Lay(case)
    K = Cmp(ctx, "returned_arrays", case, L)
    d, D = c.d, c.D
    cs = new_csys(case["cfg"])           # own system: its caches are part of the history
    v = np.array(case["v"], dtype=float)
    vecs = [np.array(x, dtype=float) for x in case["vecs"]]
    H = np.array(case["H"], dtype=float)
    hss = [np.array(x, dtype=float) for x in case["hss"]]
    st = S.State(cs, L(v), is_physicality_required=False)
    pv = P.Povm(cs, L.many(vecs), is_physicality_required=False)
    g = G.Gate(cs, L(H), is_physicality_required=False)
    mp = MP.MProcess(cs, L.many(hss), is_physicality_required=False)
    rho = m_op_of_cvec(ctx, c, v)
    mats = [m_op_of_cvec(ctx, c, x) for x in vecs]
    choi = m_choi(ctx, c, H)
    chois = [m_choi(ctx, c, h) for h in hss]
    pm = m_cmat(M(ctx).call("c02.process_matrix", [d], c.bf + cflat(H)), D, D)
    Bt = np.array([dense(b) for b in cs.comp_basis()])
    conv = m_convert_hs(ctx, c, Bt, H)
    calls = [
        ("State.to_density_matrix", st.to_density_matrix, rho), ("State.to_density_matrix_with_sparsity", st.to_density_matrix_with_sparsity, rho),
        ("Povm.matrices", pv.matrices, mats), ("Povm.matrices_with_sparsity", pv.matrices_with_sparsity, mats),
        ("Povm.matrix", lambda: pv.matrix(len(vecs) - 1), mats[-1]), ("Povm.matrix_with_sparsity", lambda: pv.matrix_with_sparsity(len(vecs) - 1), mats[-1]),
        ("Gate.to_choi_matrix", g.to_choi_matrix, choi), ("Gate.to_choi_matrix_with_dict", g.to_choi_matrix_with_dict, choi),
        ("Gate.to_choi_matrix_with_sparsity", g.to_choi_matrix_with_sparsity, choi), ("Gate.to_process_matrix", g.to_process_matrix, pm),
        ("Gate.convert_to_comp_basis", g.convert_to_comp_basis, conv),
        ("MProcess.to_choi_matrix", lambda: mp.to_choi_matrix(len(hss) - 1), chois[-1]),
        ("MProcess.to_choi_matrix_with_sparsity", lambda: mp.to_choi_matrix_with_sparsity(0), chois[0]),
        ("gate.to_choi_from_hs", lambda: G.to_choi_from_hs(cs, H.copy()), choi),
        ("gate.to_hs_from_choi", lambda: G.to_hs_from_choi(cs, np.array(choi)), H),
    ]
    order = list(case["order"])
    for rnd in (0, 1):          # round 0: call + overwrite ; round 1: call again, compare, overwrite again ; finally everything once more
        for k in order:
            site, f, exp = calls[k % len(calls)]
            r, val = call(f)
            if r == "err":
                K.bad(site, "unexpected-raise", "raised %s after returned arrays were overwritten by the caller" % val)
                continue
            if rnd == 1:
                K.eq(site, np.array([np.asarray(dense(x)) for x in val]) if isinstance(val, (list, tuple)) else np.asarray(dense(val)),
                     np.array(exp) if isinstance(exp, list) else exp, "%s after the caller overwrote previously returned arrays in place" % site, tol=1e-9, sig="value-after-caller-wrote-result")
            scribble(val)
    for site, f, exp in calls:
        r, val = call(f)
        if r == "ok":
            K.eq(site, np.array([np.asarray(dense(x)) for x in val]) if isinstance(val, (list, tuple)) else np.asarray(dense(val)),
                 np.array(exp) if isinstance(exp, list) else exp, "%s (final pass) after the caller overwrote returned arrays in place" % site, tol=1e-9, sig="value-after-caller-wrote-result")
    ctx.count("returned_arrays", key=(c.name, tuple(order), tuple(v)), label=c.name)


def sub_returned_arrays(ctx):
    rng = ctx.rng
    cases = []
    for n in active_configs(ctx):
        c = cfg(n)
        if not CONFIGS[n][2] or is_smoke(ctx, n) or (c.d >= 6):
            continue
        for _ in range(nn(ctx, n, 2, 6)):
            cases.append({"cfg": n, "v": rand_real(rng, c.D).tolist(), "vecs": [rand_real(rng, c.D).tolist() for _ in range(3)],
                          "H": rand_real(rng, c.D, c.D).tolist(), "hss": [rand_real(rng, c.D, c.D).tolist() for _ in range(2)],
                          "order": rng.sample(range(15), 15)})
    ctx.sample("returned_arrays", {k: cases[0][k] for k in ("cfg", "order")})
    ctx.run_cases("returned_arrays", chk_returned_arrays, decorate(ctx, cases, opts=False))


# ================================================================================================ truncate_hs
def chk_truncate(ctx, case):
    from quara.utils import matrix_util as mu
    L = Lay(case)
    K = Cmp(ctx, "truncate", case, L)
    A = uj(case["A"])
    eps = case.get("eps")
    if case.get("atol") is not None:      # history on the global Settings object: the default threshold is Settings.get_atol() AT CALL TIME
        from quara.settings import Settings
        old_atol = Settings.get_atol()
        Settings.set_atol(case["atol"])
        try:
            return _chk_truncate(ctx, case, K, L, A, eps, case["atol"])
        finally:
            Settings.set_atol(old_atol)
    return _chk_truncate(ctx, case, K, L, A, eps, ATOL)


def _chk_truncate(ctx, case, K, L, A, eps, atol):
    from quara.utils import matrix_util as mu
    e = atol if eps is None else eps
    inband_ = inband(A, e) and not case.get("exact")      # 'exact': every number is a small dyadic, |x| < eps is decided without rounding on both sides
    m, n = A.shape
    st, val = M(ctx).try_call("c02.truncate", [m, n], [float(e)] + cflat(A))
    arg = L(A) if case.get("complex", True) else L(A.real)
    r, iv = call(mu.truncate_hs, arg, eps)
    ctx.count("truncate", key=(tuple(np.round(A.ravel(), 18)), eps), nontrivial=not inband_, label=("in-band" if inband_ else st) + "/" + case.get("gen", "?"))
    if inband_:
        return
    if st == "err":
        if not (r == "err" and iv == "ValueError"):
            K.bad("matrix_util.truncate_hs", "error-kind", "model: ValueError, implementation: %s" % ((r, iv if r == "err" else "value"),))
    elif r == "err":
        K.bad("matrix_util.truncate_hs", "unexpected-raise", "raised %s" % iv)
    else:
        K.eq("matrix_util.truncate_hs", iv, np.array([float(x) for x in val]).reshape(m, n), "truncate_hs", tol=0.0)
        if np.asarray(iv).dtype != np.float64:
            K.bad("matrix_util.truncate_hs", "dtype", "dtype %s" % np.asarray(iv).dtype)


def sub_truncate(ctx):
    rng = ctx.rng
    cases = []
    for _ in range(ctx.n(60, 400)):
        m, n = rng.choice([(1, 4), (2, 2), (3, 3), (4, 4)])
        eps = rng.choice([None, 1e-13, 1e-6, 1e-3, 0.0])
        e = ATOL if eps is None else eps
        A = rand_cplx(rng, m, n)
        kind = rng.choice(["real", "tiny-im", "big-im", "tiny-re", "mixed", "large-re"])
        if kind == "real":
            A = A.real + 0j
        elif kind == "tiny-im":
            A = A.real + 1j * np.array([rng.choice([0, 0.01, -0.05]) * e for _ in range(m * n)]).reshape(m, n)
        elif kind == "big-im":
            A = A.real + 0j
            A[rng.randrange(m), rng.randrange(n)] += 1j * rng.choice([200 * e if e > 0 else 0.5, 0.25, -1.0])
        elif kind == "tiny-re":
            A = np.array([rng.choice([0, 0.02, -0.1, 50, -300]) * (e if e > 0 else 1e-9) for _ in range(m * n)]).reshape(m, n) + 0j
        elif kind == "large-re":     # real parts up to 128: imaginary parts far below / far above both the absolute and the relative threshold
            A = 64 * A.real + 1j * np.array([rng.choice([0, 0.01, -0.05]) * e for _ in range(m * n)]).reshape(m, n)
            if rng.random() < 0.5:
                A[rng.randrange(m), rng.randrange(n)] += 1j * (1e5 * e if e > 0 else 0.5)
        cases.append({"A": jc(A), "eps": eps, "gen": kind, "complex": not (kind in ("real", "tiny-re") and rng.random() < 0.5)})
    for _ in range(ctx.n(24, 120)):
        # exactly AT the thresholds with exactly representable numbers (eps = 2^-20, entries eps, eps(1 +- 2^-20), real parts <= 1 so that the
        # imaginary threshold is eps itself before and after fix truncate-hs-relative-imag-threshold): |x| < eps is strict
        m, n = rng.choice([(1, 3), (2, 2), (3, 3)])
        eps = 2.0 ** -20
        A = (rand_real(rng, m, n) / 2).astype(complex)
        i, j = rng.randrange(m), rng.randrange(n)
        which = rng.choice(["im=eps", "im<eps", "im>eps", "re=eps", "re<eps", "re>eps"])
        val = {"=": eps, "<": eps * (1 - 2.0 ** -20), ">": eps * (1 + 2.0 ** -20)}[which[2]] * rng.choice([1, -1])
        if which.startswith("im"):
            A[i, j] = A[i, j].real + 1j * val
        else:
            A[i, j] = val
        if rng.random() < 0.4:      # the same probe through the DEFAULT threshold after Settings.set_atol(2^-20) (restored afterwards)
            cases.append({"A": jc(A), "eps": None, "atol": eps, "gen": "exact-settings-" + which, "complex": True, "exact": True})
        else:
            cases.append({"A": jc(A), "eps": eps, "gen": "exact-" + which, "complex": True, "exact": True})
    ctx.sample("truncate", cases[0])
    ctx.run_cases("truncate", chk_truncate, decorate(ctx, cases, opts=False))


# ================================================================================================ linearity (implementation only)
def chk_linearity(ctx, case):
    from quara.objects import gate as G, state as S, povm as P
    from quara.objects import matrix_basis as mb
    c = cfg(case["cfg"])
    K = Cmp(ctx, "linearity", case)
    d, D, cs = c.d, c.D, c.c_sys
    al, be = case["al"], case["be"]
    cal, cbe = complex(*case["cal"]), complex(*case["cbe"])
    v, w = np.array(case["v"]), np.array(case["w"])
    H1, H2 = uj(case["H1"]), uj(case["H2"])
    tb = cs.comp_basis()
    ctx.count("linearity", key=(c.name, al, be, tuple(v)), label="d=%d" % d)

    L = Lay(case)
    K.lay = L

    def lin(site, f, x, y, a, b):
        K.eq(site, f(L(a * x + b * y)), a * np.asarray(f(L(x))) + b * np.asarray(f(L(y))), "f(ax+by) = a f(x) + b f(y)", tol=1e-10, sig="not-linear")
    lin("state.to_density_matrix_from_vec", lambda x: S.to_density_matrix_from_vec(cs, x), v, w, al, be)
    lin("povm.to_matrices_from_vecs", lambda x: P.to_matrices_from_vecs(cs, [x])[0], v, w, al, be)
    lin("matrix_basis.convert_vec", lambda x: mb.convert_vec(x, cs.basis(), tb), v, w, al, be)
    for site, f in (("gate.to_choi_from_hs", G.to_choi_from_hs), ("gate.to_choi_from_hs_with_dict", G.to_choi_from_hs_with_dict),
                    ("gate.to_choi_from_hs_with_sparsity", G.to_choi_from_hs_with_sparsity)):
        lin(site, lambda x, f=f: f(cs, x), H1, H2, cal, cbe)
    lin("gate.convert_hs", lambda x: G.convert_hs(x, cs.basis(), tb), H1, H2, cal, cbe)
    lin("gate.to_process_matrix_from_hs", lambda x: G.to_process_matrix_from_hs(cs, x), H1, H2, cal, cbe)
    lin("gate.to_hs_from_choi", lambda x: G.to_hs_from_choi(cs, x), H1, H2, al, be)          # real-linear (takes the real part)
    if c.hermitian:
        C1, C2 = (H1 + H1.conj().T) / 2, (H2 + H2.conj().T) / 2
        lin("gate.to_hs_from_choi_with_sparsity", lambda x: G.to_hs_from_choi_with_sparsity(cs, x), C1, C2, al, be)
        lin("gate.to_hs_from_choi_with_dict", lambda x: G.to_hs_from_choi_with_dict(cs, x), C1, C2, al, be)
        X1, X2 = uj(case["X1"]), uj(case["X2"])
        lin("state.to_vec_from_density_matrix_with_sparsity", lambda x: S.to_vec_from_density_matrix_with_sparsity(cs, x), X1, X2, al, be)


def sub_linearity(ctx):
    rng = ctx.rng
    cases = []
    for n in active_configs(ctx):
        c = cfg(n)
        for _ in range(1 if is_smoke(ctx, n) else nn(ctx, n, 4, 20)):
            cases.append({"cfg": n, "al": dy(rng, 4), "be": dy(rng, 4), "cal": [dy(rng, 4), dy(rng, 4)], "cbe": [dy(rng, 4), dy(rng, 4)],
                          "v": rand_real(rng, c.D).tolist(), "w": rand_real(rng, c.D).tolist(),
                          "H1": jc(rand_cplx(rng, c.D, c.D)), "H2": jc(rand_cplx(rng, c.D, c.D)),
                          "X1": jc(rand_herm(rng, c.d)), "X2": jc(rand_herm(rng, c.d))})
    ctx.sample("linearity", cases[0])
    ctx.run_cases("linearity", chk_linearity, decorate(ctx, cases, opts=False))


SUBS = [("basis", sub_basis), ("tables", sub_tables), ("table_history", sub_table_history), ("state", sub_state), ("povm", sub_povm), ("povm_product", sub_povm_product), ("gate_choi", sub_gate_choi),
        ("gate_basis", sub_gate_basis), ("gate_kraus", sub_gate_kraus), ("lindbladian_kraus", sub_lindbladian_kraus), ("gate_var", sub_gate_var), ("mprocess", sub_mprocess), ("returned_arrays", sub_returned_arrays),
        ("truncate", sub_truncate), ("linearity", sub_linearity)]
FNS = {"basis": chk_basis, "tables": chk_tables, "table_history": chk_table_history, "state": chk_state, "povm": chk_povm, "povm_product": chk_povm_product, "gate_choi": chk_gate_choi,
       "gate_basis": chk_gate_basis, "gate_kraus": chk_gate_kraus, "lindbladian_kraus": chk_lindbladian_kraus, "gate_var": chk_gate_var, "mprocess": chk_mprocess, "returned_arrays": chk_returned_arrays,
       "truncate": chk_truncate, "linearity": chk_linearity}


def _timed(name, fn):
    def g(ctx):
        import time
        t = time.time()
        fn(ctx)
        ctx.note("wall %s: %.1f s" % (name, time.time() - t))
    return g


WIDEN_ON_BROKEN_TIE = ("state", "povm", "povm_product", "gate_var", "mprocess", "truncate")


def regen_glue(ctx):
    """translator tie (protocol of flow.regen_check, with this property's own translator gen/c02_py2coq.py): regenerate the Gallina text of the 33
    glue functions (wrappers, call skeletons, truncate_hs threshold logic - list TARGETS in the translator) from the CURRENT source, compile it and
    re-check coq/gen/C02_Equiv.v (call skeletons; transported round trips; regenerated truncate_hs = model).  returns (ok, info)"""
    import os, re, shutil, subprocess, sys
    import runner
    V = runner.V
    scratch = os.path.join(ctx.scratch, "gen")
    os.makedirs(scratch, exist_ok=True)
    gen_v = os.path.join(scratch, "Gen_c02_glue.v")
    equiv = os.path.join(V, "coq", "gen", "C02_Equiv.v")
    src = open(equiv).read()
    src_nc = re.sub(r"\(\*.*?\*\)", " ", src, flags=re.S)
    thms = re.findall(r"^\s*Theorem\s+([\w']+)", src_nc, flags=re.M)
    box = {"thms": thms, "ok": False, "axioms": {}}
    r = subprocess.run([sys.executable, os.path.join(V, "gen", "c02_py2coq.py"), os.environ.get("VERIF_REPO", "/repo"), gen_v],
                       capture_output=True, text=True, timeout=120)
    if r.returncode != 0:
        return box, {"theorem": thms[0], "error": "translator rejected the source (outside its subset): " + (r.stdout + r.stderr)[-600:]}
    q = ["-Q", os.path.join(V, "coq", "theories"), "QV", "-Q", scratch, "QVGen"]
    r = subprocess.run(["timeout", "300", "coqc"] + q + [gen_v], capture_output=True, text=True)
    if r.returncode != 0:
        return box, {"theorem": thms[0], "error": "regenerated glue does not compile: " + (r.stdout + r.stderr)[-600:]}
    dst = os.path.join(scratch, "C02_Equiv.v")
    shutil.copy(equiv, dst)
    r = subprocess.run(["timeout", "600", "coqc"] + q + [dst], capture_output=True, text=True)
    out = r.stdout + r.stderr
    if r.returncode != 0:
        m_ = re.search(r"line (\d+), characters", out)
        thm = None
        if m_:
            upto = "\n".join(src.splitlines()[:int(m_.group(1))])
            names = re.findall(r"^\s*(?:Theorem|Lemma|Definition)\s+([\w']+)", upto, flags=re.M)
            thm = names[-1] if names else None
        return box, {"theorem": thm, "error": out[-800:]}
    blocks = runner.parse_assumptions(out)
    bad = [a for closed, axs in blocks for a in axs if a not in runner.ALLOWED_AXIOMS and a.split(".")[-1] not in runner.ALLOWED_AXIOMS]
    if len(blocks) != len(thms) or bad:
        return box, {"theorem": thms[0], "error": "assumption gate on regenerated proofs: %d blocks / %d theorems, disallowed %s" % (len(blocks), len(thms), bad)}
    box["ok"] = True
    box["axioms"] = {t: ("closed" if closed else sorted(set(axs))) for t, (closed, axs) in zip(thms, blocks)}
    return box, {}


def _run(ctx, subchecks):
    """flow.standard_run with the recompilation of Props/C02.v (a coqc subprocess; runner.check_props only writes ctx.theorems / obligations /
    discharged / axioms, which no sub-check touches) running in a thread WHILE the correspondences run; the outcome is handled exactly as in
    flow.standard_run: a theorem that no longer checks is a violation (no-failing-input-found unless a sub-check found the failing input)."""
    import threading
    import runner
    box = {}
    # the translator tie first (about 3 s): if it is broken the sub-checks that exercise the translated glue run with the thorough-tier counts
    gbox, ginfo = regen_glue(ctx)
    ctx.tie_broken = not gbox["ok"]
    if ctx.tie_broken:
        ctx.note("regenerated-glue obligations (gen/c02_py2coq.py / coq/gen/C02_Equiv.v) not discharged: %s - sweeps of %s widened" % (str(ginfo)[:400], ", ".join(WIDEN_ON_BROKEN_TIE)))

    def props():
        try:
            box["res"] = runner.check_props(ctx)
        except Exception as e:      # noqa
            box["res"] = (False, {"theorem": None, "error": "check_props failed: %r" % (e,)})
    th = threading.Thread(target=props)
    t0 = __import__("time").time()
    th.start()
    try:
        for name, fn in subchecks:
            if ctx.only is None or name in ctx.only:
                if ctx.tie_broken and name in WIDEN_ON_BROKEN_TIE and ctx.tier == "quick":
                    ctx.tier = "thorough"
                    try:
                        fn(ctx)
                    finally:
                        ctx.tier = "quick"
                else:
                    fn(ctx)
    finally:
        th.join()
    # account for the regenerated obligations (after check_props has set the static counts)
    ctx.theorems = list(ctx.theorems) + [t for t in gbox["thms"] if t not in ctx.theorems]
    ctx.obligations += len(gbox["thms"])
    if gbox["ok"]:
        ctx.discharged += len(gbox["thms"])
        ctx.axioms.update(gbox["axioms"])
    ctx.note("wall theorems (concurrent with the sub-checks): finished after %.1f s" % (__import__("time").time() - t0))
    ok, info = box["res"]
    if ok and ctx.tie_broken:
        ok, info = False, ginfo
    if not ok:
        ctx.discharged = min(ctx.discharged, ctx.obligations - 1)
    if not ok and not ctx.violations:
        ctx.violation("theorems", "Props/%s.v" % ctx.prop_id, "theorem-broken:%s" % info.get("theorem"),
                      "theorem %s no longer checks: %s" % (info.get("theorem"), info.get("error", "")[-400:]),
                      {"theorem": info.get("theorem"), "error": info.get("error")}, no_input=True)
    elif not ok:
        ctx.note("theorem obligations not discharged: %s" % info)


def run(ctx):
    ctx.rule = ("per configuration (1 qubit, qutrit, 2 qubits [+ qubit x qutrit smoke; thorough: qutrit x qubit, ququart, generalised Gell-Mann] x normalised "
                "Pauli / Gell-Mann / generalised Gell-Mann bases, plus computational and unnormalised Pauli bases for the model correspondence only): "
                "every unit vector / matrix unit of the input space of each conversion (complete basis) and seeded random dyadic complex, "
                "asymmetric, non-physical inputs (d = 4: seeded sample of the matrix units, d = 6: thin); thresholds of truncate_hs probed at 0.01*eps and 1000*eps; "
                "inputs with an entry within a factor 8 of a threshold (imaginary parts: of eps .. eps*max(1,max|re|), covering the code before and after fix "
                "truncate-hs-relative-imag-threshold) are counted as trivial (in-band) and no decision is compared; distinct = distinct (configuration, input)")
    ctx.assumptions = ["bases are read from the implementation (c_sys.basis()) and sent to the model as exact dyadic rationals; their orthonormality / "
                       "completeness / Hermiticity is checked numerically (1e-12) per configuration and exactly (Coq, rounded entries) for the 2-qubit Pauli basis",
                       "eigh inside to_kraus_matrices_from_hs is an oracle: its output is checked by the certificate sum_K <B_a, K B_b K^dag> = HS (1e-8)"]
    _run(ctx, [(name, _timed(name, fn)) for name, fn in SUBS])


def replay(ctx, doc):
    sub = doc["sub"]
    case = doc["case"]
    if isinstance(case, dict) and "traceback" in case and "case" in case:
        case = case["case"]
    if sub == "gate_kraus" and isinstance(case, dict) and "Ks" not in case:
        import runner
        runner.check_props(ctx)
        ctx.run_cases(sub, chk_gate_noncp, [case])
        return
    flow.standard_replay(ctx, doc, FNS)
