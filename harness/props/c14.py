"""C14 — sampled data and empirical distributions are valid and reproducible.

Sub-checks (each compares the real quara code with the extracted Coq model on the same inputs and evaluates the
property's own predicates on the implementation's outputs):
  rn2data        _random_number_to_data vs model (exact rationals), interval / p_i>0 predicates
  fallback       the loop-runs-to-its-end branch (random number >= accumulated float sum): binary64 / exact witnesses with trailing,
                 interior and leading zeros - the outcome must be the LAST index of POSITIVE probability (fix C14-rn2data-fallback-zero-probability)
  gen_data       generate_data_from_prob_dist / generate_dataset_from_prob_dists vs model fed with the oracle's random numbers
  empi_seq       calc_empi_dist_sequence(s): exhaustive short data x request patterns, random long data, malformed stream
  flow           session histories (global seeding, unrelated draws, shared generators, int seeds) through data_generator,
                 Experiment, MultinomialDistribution and the four tomography classes vs the stream-dataflow model
  exp_hist       ONE Experiment object used over a history: generate_* / calc_prob_dist interleaved with in-place replacement of
                 list elements (experiment.states[0] = s), whole-list / schedule assignment, copy(), reset_seed_data: actual contents
                 vs model, values bit-identical to the predicted draws FROM THE CURRENT CIRCUIT's distribution, no outcome of Born-rule
                 probability 0 under the current circuit, seeded value = value of a fresh Experiment built from the current lists
  big_records    records of 10^4 .. 10^6 data through every data-record entry point x seed kind (size-dependent code paths): seeded record
                 independent of the global numpy state, global state untouched, record = inversion of the predicted stream's numbers
  seed_types     direct predicates for reset_seed(z) (z = 0 included; fix C14-reset-seed-zero) and numpy-integer seeds (fix
                 C14-to-stream-numpy-integer-seed): function of the seed only, same as the int seed, members of a sequence advance
  chi2           (thorough tier, a TEST, not a proof obligation) fixed-seed chi-square of the two samplers
MT19937 / numpy RandomState / scipy.stats.multinomial.rvs are ORACLES: the harness re-creates the generator the
model names (kind, seed), replays the requests the model predicts in the predicted order and expects bit-identical
values.
Translator ties, re-proved on every run: _random_number_to_data (gen/py2coq.py, coq/gen/C14_Equiv.v); calc_empi_dist_sequence, to_stream,
Experiment.reset_seed_data / .seed_data, QTomography.reset_seed, the three loop functions of data_generator around the draws and the
12 tomography entry points (gen/c14_py2coq.py, coq/gen/C14_Equiv2.v).  When a tie breaks, the sub-checks
that exercise the function sweep with the thorough counts (search for a concrete failing input).
The model is the code AS REPAIRED by /verif/fixes/C14-*.diff: on a tree without those repairs the sub-checks raise violations
(each with a concrete replay) and the regenerated-model equivalence (coq/gen/C14_Equiv.v) does not compile."""
import itertools, math, warnings
from fractions import Fraction
import numpy as np
from common import flow

LEVEL = "proof"
BAND = 1e-9          # decisions closer than this to a cumulative-sum threshold are not compared unless sums are exact


def F(x):
    return Fraction(*float(x).as_integer_ratio())


def cn(ctx, quick, thorough):
    """case counts; when a translator tie is broken (the regenerated function no longer equals the model) the sub-checks that exercise
    the translated function sweep with the thorough counts in the quick tier too: they are then the search for a concrete failing input"""
    return thorough if getattr(ctx, "cur_sub", None) in getattr(ctx, "widen", ()) else ctx.n(quick, thorough)


# ====================================================================== probability vectors
def rand_probvec(rng, k=None, dyadic=None):
    """probability vector with exact zeros / tiny entries; dyadic ones have exactly representable partial sums"""
    k = k or rng.randint(2, 16)
    dyadic = rng.random() < 0.5 if dyadic is None else dyadic
    if dyadic:
        den = 2 ** rng.choice([3, 4, 6, 10, 20, 40])
        w = [0] * k
        left = den
        idx = list(range(k)); rng.shuffle(idx)
        for j in idx[:-1]:
            if rng.random() < 0.3:
                continue
            t = rng.randint(0, left) if rng.random() < 0.6 else min(left, rng.choice([1, 1, 2, 3]))
            w[j] = t; left -= t
        w[idx[-1]] = left
        return [x / den for x in w], True
    w = []
    for _ in range(k):
        u = rng.random()
        if u < 0.25:
            w.append(0.0)
        elif u < 0.4:
            w.append(rng.choice([1e-300, 1e-17, 1e-12, 1e-9]))
        else:
            w.append(rng.randint(1, 50) / 7.0)
    if sum(1 for x in w if x > 1e-6) == 0:
        w[rng.randrange(k)] = 1.0
    arr = np.array(w)
    arr = arr / arr.sum()
    return [float(x) for x in arr], False


def float_cums(ps):
    c = 0.0; out = []
    for p in ps:
        c += p; out.append(c)
    return out


def exact_sums(ps):
    c = Fraction(0); cf = 0.0
    for p in ps:
        c += F(p); cf += p
        if F(cf) != c:
            return False
    return True


def last_pos(ps):
    """the last index of positive probability (len-1 if there is none)"""
    lp = len(ps) - 1
    for i, p in enumerate(ps):
        if p > 0.0:
            lp = i
    return lp


def margin(ps, r):
    c = Fraction(0); m = None
    for p in ps:
        c += F(p)
        d = abs(F(r) - c)
        m = d if m is None or d < m else m
    return float(m)


# ====================================================================== rn2data
def chk_rn2data(ctx, case):
    from quara.qcircuit import data_generator as dg
    m = ctx.get_model()
    ps = [float(x) for x in case["ps"]]
    exact = exact_sums(ps)
    arr = np.array(ps, dtype=np.float64)
    cums = float_cums(ps)
    for r in case["rs"]:
        r = float(r)
        impl = dg._random_number_to_data(arr, np.float64(r))
        mod = int(m.call("c14.rn2data", [], [r] + ps)[0])
        mg = margin(ps, r)
        inband = (not exact) and mg < BAND
        zero_hit = 0 <= impl < len(ps) and ps[impl] == 0.0
        ctx.count("rn2data", key=(tuple(ps), r), nontrivial=(not inband) and any(p == 0.0 for p in ps),
                  label=("exact-sums" if exact else ("in-band" if inband else "generic")) + ("/boundary" if mg == 0 else ""))
        rc = {"ps": ps, "rs": [r]}
        if not inband and impl != mod:
            ctx.violation("rn2data", "data_generator._random_number_to_data", "value",
                          "index %s, model %s for r=%r ps=%s" % (impl, mod, r, ps), rc)
            continue
        # property predicates on the implementation's own output (they hold in FLOAT arithmetic too - theorem
        # C14_only_positive_probability_outcomes needs only monotone rounding - so they are checked inside the band as well)
        if not (0 <= impl < len(ps)):
            ctx.violation("rn2data", "data_generator._random_number_to_data", "out-of-range", "index %s of %d" % (impl, len(ps)), rc)
        elif 0 <= r < cums[-1]:
            lo = cums[impl - 1] if impl > 0 else 0.0
            if zero_hit or not (lo <= r < cums[impl]):
                ctx.violation("rn2data", "data_generator._random_number_to_data", "not-in-interval",
                              "r=%r returned %d: p_i=%r interval [%r,%r)" % (r, impl, ps[impl], lo, cums[impl]), rc)
        elif r >= cums[-1]:
            if zero_hit and any(p > 0.0 for p in ps):
                ctx.violation("rn2data", "data_generator._random_number_to_data", "zero-probability-outcome-at-fallback",
                              "r=%r >= accumulated sum %r returned outcome %d whose probability is exactly 0 (ps=%s)" % (r, cums[-1], impl, ps), rc)
            elif impl != last_pos(ps):
                ctx.violation("rn2data", "data_generator._random_number_to_data", "fallback-not-last-positive",
                              "r=%r >= accumulated sum returned %d, the last outcome of positive probability is %d" % (r, impl, last_pos(ps)), rc)
            # the single-loop transcription of the model agrees with the split model (C14_single_loop_is_model; extraction cross-check)
            if int(m.call("c14.rn2data_r", [], [r] + ps)[0]) != mod:
                raise RuntimeError("extracted rn2data_r and rn2data disagree on %s %r" % (ps, r))


def sub_rn2data(ctx):
    rng = ctx.rng
    cases = []
    for _ in range(cn(ctx, 150, 1500)):
        ps, dy = rand_probvec(rng)
        cums = float_cums(ps)
        rs = [0.0, float(np.nextafter(1.0, 0.0)), rng.random(), rng.random(), rng.random()]
        for c in rng.sample(cums, min(len(cums), 4)):
            rs += [c, float(np.nextafter(c, 0.0)), float(np.nextafter(c, 2.0))]
        rs = [r for r in rs if 0.0 <= r < 1.0 or r == cums[-1]]
        if rng.random() < 0.2:
            rs += [1.0, 1.5]                      # outside what a generator returns: the fallback branch
        cases.append({"ps": ps, "rs": rs})
    # fixed corner cases: leading / trailing / interior zeros, single outcome
    for ps in ([0.0, 1.0], [1.0, 0.0], [0.0, 0.5, 0.0, 0.5, 0.0], [0.25, 0.0, 0.0, 0.75], [1.0], [0.5, 0.5], [2 ** -40, 1 - 2 ** -40],
               [0.5, 0.25, 0.0, 0.0], [0.0, 0.75, 0.0], [0.5, 0.0, 0.5 - 2.0 ** -30, 0.0, 0.0]):
        cums = float_cums(ps)
        rs = sorted(set([0.0, 0.25, 0.5, 0.75, float(np.nextafter(1.0, 0.0))] + cums + [float(np.nextafter(c, 0.0)) for c in cums if c > 0]))
        cases.append({"ps": ps, "rs": [r for r in rs if r < 1.0] + [1.0, 2.0]})
    ctx.sample("rn2data", cases[0])
    ctx.run_cases("rn2data", chk_rn2data, cases)


# ====================================================================== fallback witnesses (finding C14-1)
class _FixedStream:
    """a stand-in generator that returns prescribed random numbers (to_stream passes non-int objects through)"""
    def __init__(self, vals): self.vals = list(vals)
    def random(self, n): return np.array(self.vals[:n], dtype=np.float64)


def chk_fallback(ctx, case):
    from quara.qcircuit import data_generator as dg
    m = ctx.get_model()
    ps = [float(x) for x in case["ps"]]; r = float(case["r"])
    arr = np.array(ps, dtype=np.float64)
    kw = {"atol": case["atol"]} if case.get("atol") else {}
    st, val = m.try_call("c14.gen_data", [1], [case.get("atol") or 1e-13, r] + ps)
    try:
        data = dg.generate_data_from_prob_dist(arr, 1, _FixedStream([r]), **kw)
    except ValueError as e:
        ctx.count("fallback", key=(tuple(ps), r), nontrivial=False, label="rejected-by-validation")
        if st == "ok":
            ctx.violation("fallback", "data_generator.generate_data_from_prob_dist", "unexpected-raise",
                          "prob_dist %s with atol=%r is rejected (%s); validate_prob_dist with that tolerance accepts it" % (ps, case.get("atol"), str(e)[:80]), case)
        return
    impl = data[0]
    at_end = r >= float_cums(ps)[-1]                  # the float loop runs to its end
    ctx.count("fallback", key=(tuple(ps), r), label=case["kind"] + ("/loop-end" if at_end else "/early-return"), nontrivial=at_end)
    if 0 <= r < 1 and 0 <= impl < len(ps) and ps[impl] == 0.0:
        ctx.violation("fallback", "data_generator._random_number_to_data", "zero-probability-outcome-at-fallback",
                      "random number %r (in [0,1)) with prob_dist %s (accepted by validate_prob_dist) yields outcome %d whose probability is exactly 0"
                      % (r, ps, impl), case)
    elif at_end and impl != last_pos(ps):
        ctx.violation("fallback", "data_generator._random_number_to_data", "fallback-not-last-positive",
                      "random number %r >= accumulated sum: outcome %d, the last outcome of positive probability is %d" % (r, impl, last_pos(ps)), case)
    elif case["kind"] == "exact" and (st != "ok" or int(val[0]) != impl):
        ctx.violation("fallback", "data_generator.generate_data_from_prob_dist", "model-mismatch", "impl %s model %s %s" % (impl, st, val), case)


def sub_fallback(ctx):
    top = float(np.nextafter(1.0, 0.0))
    cases = [
        # the binary64 witness proved in Proofs/C14_Float.v: ten times 0.1 accumulates to 1 - 2^-53 = max Generator.random()
        {"kind": "float", "ps": [0.1] * 10 + [0.0], "r": top},
        # the exact-arithmetic witness of C14_only_positive_probability_outcomes_before_fix_refuted (dyadic, so float == exact)
        {"kind": "exact", "ps": [1 - 2.0 ** -44, 0.0], "r": 1 - 2.0 ** -44, "atol": 2.0 ** -44},
        {"kind": "exact", "ps": [0.0, 1 - 2.0 ** -44, 0.0, 0.0], "r": 1 - 2.0 ** -45, "atol": 2.0 ** -44},
        # controls: r just inside -> early return
        {"kind": "control", "ps": [0.1] * 10 + [0.0], "r": 0.95},
        {"kind": "control", "ps": [0.5, 0.5, 0.0], "r": top},
    ]
    # every uniform vector [1/k]*k whose binary64 running sum stays below 1, followed by 1..3 zero-probability outcomes
    # (and one with a zero in front): r = 1 - 2^-53 reaches the end of the loop
    for k in range(2, cn(ctx, 60, 400)):
        base = [1.0 / k] * k
        if float_cums(base)[-1] < 1.0:
            z = 1 + k % 3
            cases.append({"kind": "float", "ps": base + [0.0] * z, "r": top})
            cases.append({"kind": "float", "ps": [0.0] + base + [0.0] * z, "r": top})
            cases.append({"kind": "float", "ps": base, "r": top})        # no zero at all: the last index is right
    ctx.sample("fallback", cases[0])
    ctx.run_cases("fallback", chk_fallback, cases)


# ====================================================================== generate_data_from_prob_dist
GEN_ERR = {1: "each probability must be a non-negative", 3: "the sum of prob_dist must be 1"}


def chk_gen_data(ctx, case):
    from quara.qcircuit import data_generator as dg
    m = ctx.get_model()
    ps = [float(x) for x in case["ps"]]; n = case["n"]; seed = case["seed"]
    arr = np.array(ps, dtype=np.float64)
    # memory layout of the array argument: contiguous / a strided view / a reversed view of the reversed data / read-only
    lay = case.get("layout", "contig")
    if lay == "strided":
        big = np.zeros(2 * len(ps)); big[::2] = ps; big[1::2] = 0.5; arr = big[::2]
    elif lay == "reversed":
        arr = np.array(ps[::-1], dtype=np.float64)[::-1]
    elif lay == "readonly":
        arr.setflags(write=False)
    keep = arr.copy()
    rs = [float(x) for x in np.random.Generator(np.random.MT19937(seed)).random(n)]      # oracle
    # the tolerance: explicit argument (`atol if atol else Settings.get_atol()`: None and 0.0 mean "use the global setting") or the
    # global setting, which a case may change for the duration of the call
    from quara.settings import Settings
    atol_arg, atol_set = case.get("atol"), case.get("settings_atol")
    kw = {} if "atol" not in case else {"atol": atol_arg}
    old = Settings.get_atol()
    try:
        if atol_set is not None:
            Settings.set_atol(atol_set)
        eff_atol = atol_arg if atol_arg else Settings.get_atol()
        try:
            impl = ("ok", dg.generate_data_from_prob_dist(arr, n, seed, **kw))
        except ValueError as e:
            impl = ("err", str(e))
    finally:
        Settings.set_atol(old)
    st, val = m.try_call("c14.gen_data", [n], [eff_atol] + rs + ps)
    exact = exact_sums(ps)
    ctx.count("gen_data", key=(tuple(ps), n, seed), label="%s/%s" % (st, case.get("kind", "valid")), nontrivial=(st == "ok" and n > 0))
    if st == "err":
        if impl[0] != "err" or GEN_ERR.get(val, "?") not in impl[1]:
            ctx.violation("gen_data", "data_generator.generate_data_from_prob_dist", "error-kind", "model error %s, implementation %s" % (val, impl), case)
        return
    if impl[0] == "err":
        ctx.violation("gen_data", "data_generator.generate_data_from_prob_dist", "unexpected-raise", "implementation raised %s" % impl[1][:100], case)
        return
    data = impl[1]
    if len(data) != n or any(type(d) is not int for d in data):
        ctx.violation("gen_data", "data_generator.generate_data_from_prob_dist", "shape", "len %d (expected %d) / types" % (len(data), n), case)
        return
    for j, (d, r, dm) in enumerate(zip(data, rs, [int(v) for v in val])):
        if d != dm and (exact or margin(ps, r) >= BAND):
            ctx.violation("gen_data", "data_generator.generate_data_from_prob_dist", "value",
                          "datum %d is %d, model(oracle random number %r) gives %d" % (j, d, r, dm), case)
            return
        if not (0 <= d < len(ps)) or ps[d] <= 0.0:
            ctx.violation("gen_data", "data_generator.generate_data_from_prob_dist", "zero-probability-or-out-of-range-outcome",
                          "datum %d = %d with p = %r" % (j, d, ps[d] if 0 <= d < len(ps) else None), case)
            return
    # the same call again, after unrelated global activity: identical (int seed)
    np.random.seed(case["seed"] + 1); np.random.random(3)
    if not np.array_equal(arr, keep):
        ctx.violation("gen_data", "data_generator.generate_data_from_prob_dist", "mutates-argument", "prob_dist was changed by the call", case)
        return
    again = dg.generate_data_from_prob_dist(arr, n, seed, **kw) if atol_set is None else data
    if again != data:
        ctx.violation("gen_data", "data_generator.generate_data_from_prob_dist", "int-seed-not-reproducible", "second call differs", case)


def sub_gen_data(ctx):
    rng = ctx.rng
    cases = []
    for _ in range(cn(ctx, 80, 800)):
        ps, _ = rand_probvec(rng)
        cases.append({"ps": ps, "n": rng.choice([0, 1, 5, 40, 200]), "seed": rng.randint(0, 2 ** 31),
                      "layout": rng.choice(["contig", "contig", "strided", "reversed", "readonly"])})
    for _ in range(cn(ctx, 12, 60)):                # malformed stream
        ps, _ = rand_probvec(rng, dyadic=True)
        kind = rng.choice(["neg", "sum-high", "sum-low", "tiny-neg"])
        j = max(range(len(ps)), key=lambda t: ps[t])
        if kind == "neg":
            ps = list(ps); ps[j] -= 0.25; ps.append(-0.25 + 0.5)
            ps[-1] = 0.5; ps[0 if j else 1] = ps[0 if j else 1] - 0.25
        elif kind == "sum-high":
            ps = list(ps); ps[j] += 2.0 ** -20
        elif kind == "sum-low":
            ps = list(ps); ps[j] -= 2.0 ** -20
        else:
            ps = list(ps) + [-2.0 ** -60]        # inside the tolerance: accepted
        cases.append({"ps": ps, "n": 5, "seed": rng.randint(0, 2 ** 31), "kind": kind})
    # explicit atol argument / non-default global setting: a vector whose sum misses 1 by d is accepted iff d <= the EFFECTIVE tolerance
    for _ in range(cn(ctx, 16, 80)):
        ps, _ = rand_probvec(rng, dyadic=True)
        j = max(range(len(ps)), key=lambda t: ps[t])
        d = 2.0 ** -rng.choice([20, 30])
        ps = list(ps); ps[j] += rng.choice([d, -d])
        c = {"ps": ps, "n": 5, "seed": rng.randint(0, 2 ** 31), "kind": "atol"}
        u = rng.random()
        if u < 0.4: c["atol"] = rng.choice([2.0 ** -10, 2.0 ** -25, 2.0 ** -40])            # explicit argument decides
        elif u < 0.55: c["atol"] = rng.choice([None, 0.0]); c["settings_atol"] = 2.0 ** -10   # None / 0.0: the global setting decides
        elif u < 0.8: c["settings_atol"] = rng.choice([2.0 ** -10, 2.0 ** -25])               # no argument, non-default global setting
        else: c["atol"] = 2.0 ** -40; c["settings_atol"] = 2.0 ** -10                         # the argument wins over the setting
        cases.append(c)
    ctx.sample("gen_data", cases[0])
    ctx.run_cases("gen_data", chk_gen_data, cases)


# ====================================================================== calc_empi_dist_sequence
EMPI_ERR = {1: "measurement_num must be non-negative", 2: "each number of num_sums must be less than or equal to length of data",
            3: "for each data d, it must be 0 <= d", 4: "num_sums must be an increasing sequence",
            5: "the length of measurement_nums must equal the length of dataset", 6: "the length of measurement_nums must equal the length of list_num_sums"}


def empi_expected(m, data, ns):
    """independent specification: (n, counts(first n data)/n)"""
    out = []
    for n in ns:
        pre = data[:n]
        out.append((n, [Fraction(sum(1 for d in pre if d == x), n) for x in range(m)]))
    return out


def empi_wellformed(m, data, ns):
    if m < 0:
        return False
    if not ns:
        return True
    if ns[0] <= 0 or any(a >= b for a, b in zip(ns, ns[1:])) or ns[-1] > len(data):
        return False
    return all(0 <= d < m for d in data[:ns[-1]])


def cmp_empi_one(ctx, sub, site, m, data, ns, case):
    from quara.qcircuit import data_generator as dg
    mdl = ctx.get_model()
    # container type of the arguments: lists (as documented) / numpy integer arrays / tuples, chosen by the content (deterministic)
    ct = (len(data) + 3 * len(ns) + (sum(ns) if ns else 0)) % 4 if len(data) > 4 else 0
    d_arg = [list(data), np.array(data, dtype=np.int64), tuple(data), np.array(data, dtype=np.int32)[::1]][ct]
    n_arg = [list(ns), list(ns), tuple(ns), np.array(ns, dtype=np.int64) if ns else list(ns)][ct]
    try:
        impl = ("ok", dg.calc_empi_dist_sequence(m, d_arg, n_arg))
    except ValueError as e:
        impl = ("err", str(e))
    st, val = mdl.try_call("c14.empi_seq", [m, len(ns)] + list(ns) + list(data))
    wf = empi_wellformed(m, data, ns)
    label = ("ok" if st == "ok" else "err%s" % val) + ("" if wf else ("/first<=0" if ns and ns[0] <= 0 and m >= 0 else "/malformed"))
    ctx.count(sub, key=(m, tuple(data), tuple(ns)), label=label, nontrivial=(st == "ok" and len(ns) >= 2) or st == "err")
    if st == "err":
        if impl[0] == "ok" and val == 4 and ns and ns[0] <= 0 and len(impl[1]) != len(ns):
            # a first sample size <= 0 must be rejected (fix C14-empi-seq-nonpositive-first-num-sum)
            ctx.violation(sub, "data_generator.calc_empi_dist_sequence", "nonpositive-first-num-sum-silently-dropped",
                          "num_sums=%s returns %d distributions and no error: the first sample size %d is never matched and every later (valid) sample size is silently dropped"
                          % (list(ns), len(impl[1]), ns[0]), case)
        elif impl[0] == "err" and val == 4 and ns and ns[0] <= 0 and EMPI_ERR[4] not in impl[1]:
            ctx.violation(sub, "data_generator.calc_empi_dist_sequence", "nonpositive-first-num-sum-not-rejected-as-such",
                          "num_sums=%s: the non-positive first sample size %d is not rejected; the call fails later with `%s`" % (list(ns), ns[0], impl[1][:100]), case)
        elif impl[0] != "err" or EMPI_ERR[val] not in impl[1]:
            ctx.violation(sub, site, "error-kind", "model error %s (%s), implementation %s" % (val, EMPI_ERR[val], str(impl)[:200]), case)
        return
    if impl[0] == "err":
        ctx.violation(sub, site, "unexpected-raise", "implementation raised %s; model accepts" % impl[1][:120], case)
        return
    out = impl[1]
    if not wf:
        raise RuntimeError("model accepts a request that is not well-formed: %s" % case)      # cannot happen (C14_empi_seq_success_iff_wellformed)
    mm = max(m, 0)
    vals = list(val)
    mod = [(int(vals[i * (mm + 1)]), vals[i * (mm + 1) + 1:(i + 1) * (mm + 1)]) for i in range(len(vals) // (mm + 1))] if mm + 1 > 0 else []
    if len(out) != len(mod) or any(int(a[0]) != b[0] or len(a[1]) != len(b[1]) or any(float(x) != float(y) for x, y in zip(a[1], b[1])) for a, b in zip(out, mod)):
        ctx.violation(sub, site, "value", "implementation %s model %s" % (str(out)[:200], str([(n, [str(x) for x in e]) for n, e in mod])[:200]), case)
        return
    # property predicates on the implementation's output (independent specification: counts of the requested prefix / n)
    exp = empi_expected(m, data, ns)
    ok = len(out) == len(ns) and all(int(o[0]) == n and o[1].dtype == np.float64 and [float(x) for x in o[1]] == [float(x) for x in e] for o, (n, e) in zip(out, exp))
    if not ok:
        ctx.violation(sub, site, "not-prefix-counts", "well-formed request: got %s expected counts/n of the prefixes" % str(out)[:200], case)
        return
    for (n1, e1), (n2, e2) in zip(out, out[1:]):
        if any(round(a * n1) > round(b * n2) for a, b in zip(e1, e2)):
            ctx.violation(sub, site, "inconsistent-sequence", "counts decrease between n=%d and n=%d" % (n1, n2), case)
    for n, e in out:
        if m > 0 and (min(e) < 0 or abs(float(sum(e)) - 1.0) > 1e-12):
            ctx.violation(sub, site, "not-a-distribution", "n=%d e=%s" % (n, e), case)


def chk_empi_seq(ctx, case):
    cmp_empi_one(ctx, "empi_seq", "data_generator.calc_empi_dist_sequence", case["m"], case["data"], case["ns"], case)


def chk_empi_short(ctx, case):
    """exhaustive: every data sequence over {-1..m} up to the given length x every request pattern"""
    m = case["m"]; L = case["len"]
    for data in itertools.product(range(-1, m + 1), repeat=L):
        for ns in case["patterns"]:
            cmp_empi_one(ctx, "empi_seq", "data_generator.calc_empi_dist_sequence", m, list(data), ns, {"m": m, "data": list(data), "ns": ns})


PATTERNS = [[], [1], [2], [3], [4], [5], [1, 2], [1, 3], [2, 3], [1, 2, 3], [1, 2, 3, 4], [2, 4], [1, 4], [3, 4], [1, 5], [2, 2], [2, 1], [3, 1, 2], [1, 3, 2],
            [0], [0, 2], [-1], [-1, 1, 2], [0, 0], [1, 1]]


def chk_empi_seqs(ctx, case):
    from quara.qcircuit import data_generator as dg
    mdl = ctx.get_model()
    ms, ds, lns = case["ms"], case["dataset"], case["lns"]
    try:
        impl = ("ok", dg.calc_empi_dists_sequence(list(ms), [list(d) for d in ds], [list(x) for x in lns]))
    except ValueError as e:
        impl = ("err", str(e))
    zs = [len(ms)] + list(ms) + [len(ds)] + [v for d in ds for v in [len(d)] + list(d)] + [len(lns)] + [v for x in lns for v in [len(x)] + list(x)]
    st, val = mdl.try_call("c14.empi_seqs", zs)
    ctx.count("empi_seq", key=("seqs", tuple(ms), str(ds), str(lns)), label="seqs-" + (st if st == "ok" else "err%s" % val))
    site = "data_generator.calc_empi_dists_sequence"
    if st == "err":
        if impl[0] != "err" or EMPI_ERR[val] not in impl[1]:
            ctx.violation("empi_seq", site, "error-kind", "model error %s, implementation %s" % (val, str(impl)[:200]), case)
        return
    if impl[0] == "err":
        ctx.violation("empi_seq", site, "unexpected-raise", "implementation raised %s" % impl[1][:120], case)
        return
    vals = list(val); pos = 1; mod = []
    for _ in range(int(vals[0])):
        k = int(vals[pos]); m = int(vals[pos + 1]); pos += 2
        seq = []
        for _ in range(k):
            seq.append((int(vals[pos]), [float(x) for x in vals[pos + 1:pos + 1 + m]])); pos += 1 + m
        mod.append(seq)
    got = [[(int(n), [float(x) for x in e]) for n, e in seq] for seq in impl[1]]
    if got != mod:
        ctx.violation("empi_seq", site, "value", "implementation %s model %s" % (str(got)[:200], str(mod)[:200]), case)


def sub_empi_seq(ctx):
    rng = ctx.rng
    # (a) exhaustive short data
    short = [{"m": m, "len": L, "patterns": PATTERNS} for m in cn(ctx, [0, 1, 2], [0, 1, 2, 3]) for L in range(0, cn(ctx, 4, 5))]
    short.append({"m": -1, "len": 1, "patterns": [[], [1]]})
    ctx.run_cases("empi_seq", chk_empi_short, short)
    # (b) random long data, mostly valid
    cases = []
    for _ in range(cn(ctx, 60, 600)):
        m = rng.randint(1, 16); L = rng.choice([10, 50, 300, 2000, 5000])
        data = [rng.randrange(m) if rng.random() < 0.8 else rng.choice([0, m - 1]) for _ in range(L)]
        k = rng.randint(1, 6)
        ns = sorted(rng.sample(range(1, L + 1), min(k, L)))
        u = rng.random()
        if u < 0.08:
            data[rng.randrange(L)] = rng.choice([-1, m, m + 3])                 # may or may not lie inside the consumed prefix
        elif u < 0.14:
            ns.append(L + rng.randint(1, 3))
        elif u < 0.20 and len(ns) >= 2:
            j = rng.randrange(1, len(ns)); ns[j] = ns[j - 1] - rng.choice([0, 1])
        elif u < 0.24:
            ns = [rng.choice([0, -2])] + ns
        elif u < 0.27:
            m = -rng.randint(1, 3)
        cases.append({"m": m, "data": data, "ns": ns})
    ctx.sample("empi_seq", {"m": cases[0]["m"], "ns": cases[0]["ns"], "data_len": len(cases[0]["data"])})
    ctx.run_cases("empi_seq", chk_empi_seq, cases)
    # (c) the list version, with its own length checks
    lcases = []
    for _ in range(cn(ctx, 20, 200)):
        k = rng.randint(0, 3)
        ms = [rng.randint(1, 4) for _ in range(k)]
        ds = [[rng.randrange(mm) for _ in range(rng.randint(3, 12))] for mm in ms]
        lns = [sorted(rng.sample(range(1, len(d) + 1), rng.randint(1, 3))) for d in ds]
        u = rng.random()
        if u < 0.15:
            ds = ds + [[0]]
        elif u < 0.3:
            lns = lns[:-1] if lns else [[1]]
        elif u < 0.4 and k:
            ds[0][0] = 9
        elif u < 0.5 and k:
            lns[rng.randrange(k)][0] = rng.choice([0, -1])          # a non-positive first sample size somewhere in the list
        lcases.append({"ms": ms, "dataset": ds, "lns": lns})
    ctx.run_cases("empi_seq", chk_empi_seqs, lcases)


# ====================================================================== session histories (stream dataflow)
FLOW_ERR = {11: "ValueError", 12: "ValueError", 13: "ValueError", 14: "ValueError", 15: "IndexError", 16: "ValueError", 17: "IndexError"}
PDS = [[0.5, 0.5], [0.25, 0.0, 0.75], [0.0, 0.125, 0.0, 0.5, 0.375], [1.0, 0.0], [0.1, 0.2, 0.3, 0.4], [1 / 3, 1 / 3, 1 / 3], [0.0, 0.0, 1.0],
       [2.0 ** -30, 1 - 2.0 ** -30]]
_OBJ = {}


def objects():
    """real quara objects, built once: generic (non-symmetric) true objects, testers with unequal outcome counts"""
    if _OBJ:
        return _OBJ
    with warnings.catch_warnings():
        warnings.simplefilter("ignore")
        from quara.objects.composite_system_typical import generate_composite_system
        from quara.objects.state_typical import generate_state_from_name
        from quara.objects.povm_typical import generate_povm_from_name
        from quara.objects.povm import Povm
        from quara.objects.state import State
        from quara.objects.gate_typical import generate_gate_from_gate_name
        from quara.objects.mprocess_typical import generate_mprocess_from_name
        c = generate_composite_system("qubit", 1)
        s2 = math.sqrt(2)
        dirs = [(0, 0, 1), (math.sqrt(3) / 2, 0, -0.5), (-math.sqrt(3) / 2, 0, -0.5)]
        trine = Povm(c, [np.array([s2 / 3, s2 / 3 * a, s2 / 3 * b, s2 / 3 * d]) for a, b, d in dirs])
        povms = [generate_povm_from_name("x", c), trine, generate_povm_from_name("z", c)]
        povms2 = [generate_povm_from_name(n, c) for n in ("x", "y", "z")]
        st_true = State(c, np.array([1 / s2, 0.3 / s2, -0.2 / s2, 0.5 / s2]))
        states = [generate_state_from_name(c, n) for n in ("x0", "y0", "z0", "z1")]
        gate = generate_gate_from_gate_name("hadamard", c)
        gate_true = generate_gate_from_gate_name("piover8", c)
        _OBJ.update(c=c, povms=povms, povms2=povms2, st_true=st_true, states=states, gate=gate, gate_true=gate_true,
                    povm_true=trine, mp_true=generate_mprocess_from_name(c, "z-type1"))
    return _OBJ


# user-defined schedules (variant 1): a SUBSET of the default ones in a PERMUTED order, so that the schedule index differs from the
# index of the tester it uses (variant 0 = schedules="all")
CUSTOM_SCHED = {
    "qst": [[("state", 0), ("povm", 2)], [("state", 0), ("povm", 0)]],
    "povmt": [[("state", 3), ("povm", 0)], [("state", 1), ("povm", 0)], [("state", 0), ("povm", 0)]],
    "qpt": [[("state", 2), ("gate", 0), ("povm", 1)], [("state", 0), ("gate", 0), ("povm", 0)], [("state", 1), ("gate", 0), ("povm", 1)],
            [("state", 0), ("gate", 0), ("povm", 1)]],
    "qmpt": [[("state", 1), ("mprocess", 0), ("povm", 2)], [("state", 0), ("mprocess", 0), ("povm", 0)], [("state", 0), ("mprocess", 0), ("povm", 1)]],
}


def nsched(t, var=0):
    return len(CUSTOM_SCHED[t]) if var and t in CUSTOM_SCHED else NSCHED.get(t, 0)


def make_obj(cls, sd, var=0):
    """construct an Experiment / tomography object with seed_data = sd; var 1: user-defined schedules"""
    if var and cls in CUSTOM_SCHED:
        sch = [list(x) for x in CUSTOM_SCHED[cls]]
        o = objects()
        with warnings.catch_warnings():
            warnings.simplefilter("ignore")
            from quara.protocol.qtomography.standard.standard_qst import StandardQst
            from quara.protocol.qtomography.standard.standard_povmt import StandardPovmt
            from quara.protocol.qtomography.standard.standard_qpt import StandardQpt
            from quara.protocol.qtomography.standard.standard_qmpt import StandardQmpt
            if cls == "qst": return StandardQst(o["povms"], on_para_eq_constraint=True, schedules=sch, seed_data=sd)
            if cls == "povmt": return StandardPovmt(o["states"], 3, on_para_eq_constraint=True, schedules=sch, seed_data=sd)
            if cls == "qpt": return StandardQpt(o["states"][:3], o["povms2"][1:], on_para_eq_constraint=True, schedules=sch, seed_data=sd)
            if cls == "qmpt": return StandardQmpt(o["states"][:2], o["povms2"], 2, on_para_eq_constraint=True, schedules=sch, seed_data=sd)
    return make_obj0(cls, sd)


def make_obj0(cls, sd):
    """construct an Experiment / tomography object with seed_data = sd"""
    o = objects()
    with warnings.catch_warnings():
        warnings.simplefilter("ignore")
        from quara.qcircuit.experiment import Experiment
        from quara.protocol.qtomography.standard.standard_qst import StandardQst
        from quara.protocol.qtomography.standard.standard_povmt import StandardPovmt
        from quara.protocol.qtomography.standard.standard_qpt import StandardQpt
        from quara.protocol.qtomography.standard.standard_qmpt import StandardQmpt
        if cls == "ex":
            return Experiment(states=[o["st_true"], o["states"][2]], povms=o["povms"], gates=[o["gate"]], seed_data=sd,
                              schedules=[[("state", 0), ("povm", 1)], [("state", 1), ("gate", 0), ("povm", 0)], [("state", 0), ("gate", 0), ("povm", 2)]])
        if cls == "qst":
            return StandardQst(o["povms"], on_para_eq_constraint=True, schedules="all", seed_data=sd)
        if cls == "povmt":
            return StandardPovmt(o["states"], 3, on_para_eq_constraint=True, schedules="all", seed_data=sd)
        if cls == "qpt":
            return StandardQpt(o["states"][:3], o["povms2"][1:], on_para_eq_constraint=True, schedules="all", seed_data=sd)
        if cls == "qmpt":
            return StandardQmpt(o["states"][:2], o["povms2"], 2, on_para_eq_constraint=True, schedules="all", seed_data=sd)
    raise ValueError(cls)


NSCHED = {"ex": 3, "qst": 3, "povmt": 4, "qpt": 6, "qmpt": 6}
TRUE = {"qst": "st_true", "povmt": "povm_true", "qpt": "gate_true", "qmpt": "mp_true"}


def prob_dists_of(cls, obj):
    """the probability vectors the sampling is asked to follow (computed by quara itself: not C14's concern)"""
    with warnings.catch_warnings():
        warnings.simplefilter("ignore")
        if cls == "ex":
            return [np.array(p, dtype=np.float64) for p in obj.calc_prob_dists()]
        e = obj._experiment.copy()
        t = objects()[TRUE[cls]]
        for i in range(len(e.schedules)):
            k = obj._get_target_index(e, i)
            {"qst": e.states, "povmt": e.povms, "qpt": e.gates, "qmpt": e.mprocesses}[cls][k] = t
        return [np.array(p, dtype=np.float64) for p in e.calc_prob_dists()]


def enc_sog(s):
    return {"none": [0, 0], "int": [1, s[1] if len(s) > 1 else 0], "gen": [2, s[1] if len(s) > 1 else 0], "npint": [4, s[1] if len(s) > 1 else 0]}[s[0]]


def enc_list(l):
    return [len(l)] + [int(x) for x in l]


def enc_ll(ll):
    return [len(ll)] + [v for l in ll for v in enc_list(l)]


def enc_hop(h):
    op = h["op"]
    if op == "seed_global": return [0, h["z"]]
    if op == "global_draw": return [1, h["n"]]
    if op == "new_gen": return [2, h["z"]]
    if op == "gen_draw": return [3, h["h"], h["n"]]
    if op == "construct": return [4, 0 if h["sd"] is None else 1, h["sd"] or 0]
    if op == "reset_seed": return [5, h["oid"], 0 if h["seed"] is None else 1, h["seed"] or 0]
    t, fn = h["target"], h["fn"]
    S = h.get("S", NSCHED.get(t, 0))
    pre = [6] + enc_sog(h["sog"])
    if t == "dg":
        if fn == "data": return pre + [10, h["pd"], h["n"]]
        if fn == "dataset":
            ss = h["ss"]
            return [6, 0, 0, 11] + enc_list(h["pds"]) + enc_list(h["ns"]) + ([0, 0] if ss is None else [1, len(ss)] + [v for s in ss for v in enc_sog(s)])
        if fn == "empi_seq": return pre + [12, h["pd"]] + enc_list(h["ns"])
        if fn == "empi_seqs": return pre + [13] + enc_list(h["pds"]) + enc_ll(h["lns"])
    if t == "ex":
        if fn == "data": return pre + [14, S, h["sched"], h["n"]]
        if fn == "dataset": return pre + [15, S] + enc_list(h["ns"])
        if fn == "empi_seq": return pre + [16, S, h["sched"]] + enc_list(h["ns"])
        if fn == "empi_seqs": return pre + [17, S] + enc_ll(h["lns"])
    if t == "md":
        return pre + [21, h["pd"], h["num"], h["size"]]
    if fn == "empi_dist": return pre + [18, S, h["sched"], h["n"]]
    if fn == "empi_dists": return pre + [19, S, h["n"]]
    if fn == "empi_dists_seq": return pre + [20, S] + enc_list(h["ns"])
    raise ValueError(h)


def dec_flow(vals):
    v = [int(x) for x in vals]
    pos = 1; results = []
    for _ in range(v[0]):
        code, nrows = v[pos], v[pos + 1]; pos += 2
        if code != 0:
            results.append(("err", code)); continue
        rows = []
        for _ in range(nrows):
            ln = v[pos]; pos += 1
            row = []
            for _ in range(ln):
                n, kind, seed, p, rk, rn, rsz, rpd = v[pos:pos + 8]; pos += 8
                row.append({"n": n, "stream": (kind, seed), "pos": p, "req": (rk, rn, rsz, rpd)})
            rows.append(row)
        results.append(("ok", rows))
    g = tuple(v[pos:pos + 3]); pos += 3
    nfree = v[pos]; pos += 1
    gens = [tuple(v[pos + 3 * i:pos + 3 * i + 3]) for i in range(nfree)]; pos += 3 * nfree
    nobj = v[pos]; pos += 1
    objs = [(v[pos + 2 * i], v[pos + 2 * i + 1]) for i in range(nobj)]
    return results, {"glob": g, "gens": gens, "objs": objs}


class Oracle:
    """numpy generators re-created from the stream names the model uses; requests replayed strictly in order"""
    def __init__(self):
        self.g = {}; self.served = {}

    def fresh(self, stream):
        kind, seed = stream
        if kind == 0:
            return np.random.RandomState(seed)
        if kind == 1:
            return np.random.Generator(np.random.MT19937(seed))
        raise RuntimeError("history uses the unseeded initial global state: cannot be resolved")

    def at(self, stream, pos):
        """the generator named `stream` after exactly `pos` replayed requests (position 0 = freshly created / re-seeded)"""
        if pos == 0:
            self.g[stream] = self.fresh(stream); self.served[stream] = 0
        elif self.served.get(stream) != pos:
            raise RuntimeError("model predicts position %d of stream %s but %s requests were replayed" % (pos, stream, self.served.get(stream)))
        return self.g[stream]

    def draw(self, stream, pos, req, pds):
        from scipy.stats import multinomial
        g = self.at(stream, pos)
        self.served[stream] += 1
        rk, n, size, pd = req
        if rk == 0:
            return g.random(n) if stream[0] == 1 else g.random_sample(n)
        if rk == 1:
            return multinomial.rvs(n, pds[pd], random_state=g)
        return multinomial.rvs(n, pds[pd], size=size, random_state=g)


def norm_rows(fn, out):
    """implementation output -> rows of (n, value) in the layout of the model's rows"""
    if fn == "data": return [[(len(out), list(out))]]
    if fn == "dataset": return [[(len(d), list(d))] for d in out]
    if fn == "empi_seq": return [[(int(n), e) for n, e in out]]
    if fn in ("empi_seqs", "empi_dists_seq"): return [[(int(n), e) for n, e in row] for row in out]
    if fn == "empi_dist": return [[(int(out[0]), out[1])]]
    if fn == "empi_dists": return [[(int(n), e) for n, e in out]]
    if fn == "sampling": return [[(None, np.array(out))]]
    raise ValueError(fn)


def make_call(h, obj, pds, gens, mdo):
    """the real call a history step stands for (all arguments bound now, so that it can be repeated later)"""
    from quara.qcircuit import data_generator as dg
    t, fn, sog = h["target"], h["fn"], h["sog"]

    def mk(s):
        return None if s[0] == "none" else (s[1] if s[0] == "int" else (np.int64(s[1]) if s[0] == "npint" else gens[s[1]]))
    arg = mk(sog)

    def do_call():
        with warnings.catch_warnings():
            warnings.simplefilter("ignore")
            if t == "dg":
                if fn == "data": return dg.generate_data_from_prob_dist(pds[h["pd"]], h["n"], arg)
                if fn == "dataset":
                    ss = None if h["ss"] is None else [mk(x) for x in h["ss"]]
                    return dg.generate_dataset_from_prob_dists([pds[p] for p in h["pds"]], list(h["ns"]), ss)
                if fn == "empi_seq": return dg.generate_empi_dist_sequence_from_prob_dist(pds[h["pd"]], list(h["ns"]), arg)
                if fn == "empi_seqs": return dg.generate_empi_dists_sequence_from_prob_dists([pds[p] for p in h["pds"]], [list(x) for x in h["lns"]], arg)
            if t == "md":
                return mdo.execute_random_sampling(h["num"], h["size"], arg)
            if t == "ex":
                if fn == "data": return obj.generate_data(h["sched"], h["n"], arg)
                if fn == "dataset": return obj.generate_dataset(list(h["ns"]), arg)
                if fn == "empi_seq": return obj.generate_empi_dist_sequence(h["sched"], list(h["ns"]), arg)
                if fn == "empi_seqs": return obj.generate_empi_dists_sequence([list(x) for x in h["lns"]], arg)
            true = objects()[TRUE[t]]
            if fn == "empi_dist": return obj.generate_empi_dist(h["sched"], true, h["n"], arg)
            if fn == "empi_dists": return obj.generate_empi_dists(true, h["n"], arg)
            if fn == "empi_dists_seq": return obj.generate_empi_dists_sequence(true, list(h["ns"]), arg)
        raise ValueError(h)
    return do_call


def cmp_call_rows(ctx, sub, site, i, sog, fn, out, rows, pds, oracle, mdl, case, feat):
    """compare the value returned by one generate_* call with the draws the dataflow model predicts (oracle replay, bit-identical)
    and evaluate the validity predicates; returns False after reporting a violation"""
    got = norm_rows(fn, out)
    if [len(r) for r in got] != [len(r) for r in rows]:
        ctx.violation(sub, site, "shape", "step %d: output layout %s, model %s" % (i, [len(r) for r in got], [len(r) for r in rows]), case)
        return False
    # the oracle replays the predicted requests in the order the model says they are made (not the output order)
    flat = [s for mr in rows for s in mr]
    for s in sorted(flat, key=lambda x: x["pos"]):
        s["val"] = oracle.draw(s["stream"], s["pos"], s["req"], pds)
    for gr, mr in zip(got, rows):
        for (gn, gv), s in zip(gr, mr):
            val = s["val"]
            rk, rn, rsz, rpd = s["req"]
            p = pds[rpd]
            if rk == 0:
                rs = [float(x) for x in val]
                exp = [int(x) for x in mdl.call("c14.gen_data", [len(rs)], [1e-13] + rs + [float(x) for x in p])]
                ex_ok = exact_sums([float(x) for x in p])
                bad = [j for j, (a, b) in enumerate(zip(gv, exp)) if a != b and (ex_ok or margin([float(x) for x in p], rs[j]) >= BAND)]
                ok = len(gv) == len(exp) and not bad and gn == s["n"]
                valid = all(0 <= d < len(p) and p[d] > 0 for d in gv)
            elif rk == 1:
                cnt = [int(x) for x in val]
                exp = [float(Fraction(c, rn)) for c in cnt] if rn > 0 else None
                ci = [int(round(float(x) * rn)) for x in gv] if rn > 0 else []
                if rn > 0 and not (gn == rn and len(gv) == len(p) and sum(ci) == rn and min(ci) >= 0 and [float(Fraction(c, rn)) for c in ci] == [float(x) for x in gv]):
                    ctx.violation(sub, site, "not-counts-over-n", "step %d: returned (%s, %s) is not a vector of counts divided by the sample size %d" % (i, gn, str(gv)[:80].replace("\n", " "), rn), case)
                    return False
                ok = gn == s["n"] == rn and exp is not None and [float(x) for x in gv] == exp
                valid = ok and abs(sum(exp) - 1) < 1e-12 and all(e >= 0 for e in exp) and all(e == 0 for e, q in zip(exp, p) if q == 0) and sum(cnt) == rn
            else:
                ok = np.array_equal(np.asarray(gv), np.asarray(val)); valid = ok and all(int(sum(r)) == rn for r in np.asarray(gv).reshape(-1, len(p)))
            if not ok:
                ctx.violation(sub, site, "stream-dataflow" + feat,
                              "step %d (%s seed argument): a returned value is not draw #%d of stream %s (kind 0 = global state seeded, 1 = Generator(MT19937(seed))) as the dataflow model predicts; got %s"
                              % (i, sog[0], s["pos"], s["stream"], str(gv)[:80].replace("\n", " ")), case)
                return False
            if not valid:
                ctx.violation(sub, site, "invalid-sample", "step %d: value %s is not counts/n / contains a zero-probability outcome (p=%s)" % (i, str(gv)[:80].replace("\n", " "), p), case)
                return False
    return True


def cmp_final_state(ctx, sub, world, gens, oracle, case):
    """the global numpy state and every shared generator must be where the model says they are after the history"""
    # ---- final state of everything observable
    gl = world["glob"]
    if gl[0] == 0:
        og = oracle.at((0, gl[1]), gl[2])
        a, b = np.random.get_state(), og.get_state()
        if not (np.array_equal(a[1], b[1]) and a[2:] == b[2:]):
            ctx.violation(sub, "session:global-state", "state-perturbed", "after the history the global numpy state differs from the model's prediction (%s after %d requests)" % (gl[:2], gl[2]), case)
            return False
    for k, g in enumerate(gens):
        ms = world["gens"][k]
        og = oracle.at((1, ms[1]), ms[2])
        a, b = g.bit_generator.state, og.bit_generator.state
        if not (np.array_equal(a["state"]["key"], b["state"]["key"]) and a["state"]["pos"] == b["state"]["pos"]):
            ctx.violation(sub, "session:shared-generator", "state-perturbed", "shared generator %d is not in the state the model predicts (%d requests served)" % (k, ms[2]), case)
            return False
    return True


def chk_flow(ctx, case):
    from quara.qcircuit import data_generator as dg
    from quara.objects.multinomial_distribution import MultinomialDistribution as MD
    mdl = ctx.get_model()
    hops = case["hops"]
    zs = [len(hops)] + [v for h in hops for v in enc_hop(h)]
    pred, world = dec_flow(mdl.call("c14.flow", zs))
    pred_nf, world_nf = dec_flow(mdl.call("c14.flow_nf", zs))
    if (pred, world) != (pred_nf, world_nf):
        bad = [(hops[i], pred[i], pred_nf[i]) for i in range(len(hops)) if pred[i] != pred_nf[i]]
        raise RuntimeError("extracted model and its proved normal form disagree: %s %s %s" % (str(bad)[:1500], world, world_nf))      # cannot happen (theorem C14_entry_points_use_one_stream)
    cur = {k: make_obj(k, None) for k in sorted(set(h.get("target") for h in hops if h["op"] == "call") & set(NSCHED))}
    pd_cache = {}
    made = {}                                   # model object id -> (cls, object)
    nobj = 0
    gens = []
    oracle = Oracle()
    seeded_calls = []
    sig = []
    for i, h in enumerate(hops):
        op = h["op"]
        st, rows = pred[i]
        if op == "seed_global":
            np.random.seed(h["z"]); continue
        if op == "new_gen":
            gens.append(np.random.Generator(np.random.MT19937(h["z"]))); continue
        if op == "construct":
            obj = make_obj(h["cls"], h["sd"], h.get("var", 0)); cur[h["cls"]] = obj; made[nobj] = (h["cls"], obj); nobj += 1; pd_cache.pop(h["cls"], None); continue
        if op == "reset_seed":
            made[h["oid"]][1].reset_seed(h["seed"]); continue
        if op in ("global_draw", "gen_draw"):
            val = np.random.random(h["n"]) if op == "global_draw" else gens[h["h"]].random(h["n"])
            s = rows[0][0]
            exp = oracle.draw(s["stream"], s["pos"], s["req"], None)
            ctx.count("flow", nontrivial=False, label="unrelated-draw")
            if not np.array_equal(val, exp):
                ctx.violation("flow", "session:" + op, "state-perturbed", "step %d: an unrelated draw returns other numbers than the dataflow model predicts (state was changed by an earlier call)" % i, case)
                return
            continue
        # ---- a call
        t, fn = h["target"], h["fn"]
        sog = h["sog"]
        if t in NSCHED:
            nobj += 1 if t != "ex" else 0
            if t not in pd_cache:
                pd_cache[t] = prob_dists_of(t, cur[t])
            pds = pd_cache[t]
        else:
            pds = [np.array(p, dtype=np.float64) for p in PDS]

        if t == "md":
            with warnings.catch_warnings():
                warnings.simplefilter("ignore")
                mdo = MD(np.array(PDS[h["pd"]]))
            pds = {h["pd"]: np.array(mdo.ps, dtype=np.float64)}     # the constructor zeroes sub-threshold entries and renormalises (C16)
        else:
            mdo = None
        do_call = make_call(h, cur.get(t), pds, gens, mdo)
        site = {"dg": "data_generator.", "ex": "Experiment.", "md": "MultinomialDistribution.", "qst": "StandardQst.", "povmt": "StandardPovmt.",
                "qpt": "StandardQpt.", "qmpt": "StandardQmpt."}[t] + {"data": "generate_data", "dataset": "generate_dataset", "empi_seq": "generate_empi_dist_sequence",
                "empi_seqs": "generate_empi_dists_sequence", "empi_dist": "generate_empi_dist", "empi_dists": "generate_empi_dists",
                "empi_dists_seq": "generate_empi_dists_sequence", "sampling": "execute_random_sampling"}[fn]
        try:
            impl = ("ok", do_call())
        except (ValueError, IndexError, AttributeError, TypeError) as e:
            impl = ("err", type(e).__name__)
        ctx.count("flow", key=(case["id"], i), label="%s.%s/%s/%s" % (t, fn, sog[0], st if st == "ok" else "err%s" % rows),
                  nontrivial=(st == "ok" and i > 0))
        sig.append("%s.%s/%s" % (t, fn, sog[0]))
        # failure class suffix: which seed-handling feature the step exercises (keeps (site, signature) specific)
        feat = ""
        if sog[0] == "npint" or any(x[0] == "npint" for x in (h.get("ss") or [])):
            feat = ":numpy-integer-seed"
        elif sog[0] == "none" and any(g["op"] == "reset_seed" and g["seed"] == 0 for g in hops[:i]):
            feat = ":after-reset-seed-zero"
        if st == "err":
            if impl[0] != "err" or impl[1] != FLOW_ERR[rows]:
                ctx.violation("flow", site, "error-kind", "step %d: model raises error %s (%s), implementation %s" % (i, rows, FLOW_ERR[rows], str(impl)[:150]), case)
                return
            continue
        if impl[0] == "err":
            ctx.violation("flow", site, "unexpected-raise" + feat, "step %d (%s seed argument): implementation raised %s, model returns a value" % (i, sog[0], impl[1]), case)
            return
        if not cmp_call_rows(ctx, "flow", site, i, sog, fn, impl[1], rows, pds, oracle, mdl, case, feat):
            return
        if sog[0] in ("int", "npint") and not (t == "dg" and fn == "dataset"):
            seeded_calls.append((i, site, do_call, impl[1]))
    if not cmp_final_state(ctx, "flow", world, gens, oracle, case):
        return
    # ---- direct reproducibility predicate: every int-seeded call, repeated after the whole history, returns the same value
    for i, site, fnc, first in seeded_calls:
        again = fnc()
        if repr(again) != repr(first):
            ctx.violation("flow", site, "int-seed-not-reproducible", "step %d repeated at the end of the history returns a different value" % i, case)
            return
    ctx.dist["flow:histories"] = ctx.dist.get("flow:histories", 0) + 1


def gen_history(rng, hid, focus=None):
    """a session: seed the global state, create shared generators, then interleave unrelated draws with calls"""
    hops = [{"op": "seed_global", "z": rng.randint(0, 2 ** 31)}]
    ngen = rng.randint(1, 2)
    gseeds = rng.sample(range(1, 10 ** 6), ngen)
    for z in gseeds:
        hops.append({"op": "new_gen", "z": z})
    int_seeds = rng.sample(range(10 ** 6, 2 * 10 ** 6), 2)
    targets = [focus] if focus else rng.sample(["dg", "ex", "md", "qst", "povmt", "qpt", "qmpt"], rng.randint(1, 3))
    nobj = 0; made = []
    cur_var = {}
    for _ in range(rng.randint(4, 9)):
        u = rng.random()
        if u < 0.12:
            hops.append({"op": "global_draw", "n": rng.randint(1, 4)}); continue
        if u < 0.2:
            hops.append({"op": "gen_draw", "h": rng.randrange(ngen), "n": rng.randint(1, 4)}); continue
        if u < 0.26:
            hops.append({"op": "seed_global", "z": rng.randint(0, 2 ** 31)}); continue
        tom = [t for t in targets if t in NSCHED]
        if u < 0.34 and tom:
            cls = rng.choice(tom); sd = rng.choice([None, rng.randint(0, 10 ** 6), 0])
            var = rng.choice([0, 1]) if cls in CUSTOM_SCHED else 0
            cur_var[cls] = var
            hops.append({"op": "construct", "cls": cls, "sd": sd, "var": var}); made.append((nobj, cls)); nobj += 1; continue
        if u < 0.40 and [m for m in made if m[1] != "ex"]:
            oid, cls = rng.choice([m for m in made if m[1] != "ex"])
            hops.append({"op": "reset_seed", "oid": oid, "seed": rng.choice([None, rng.randint(1, 10 ** 6), 0])}); continue
        t = rng.choice(targets)
        v = rng.random()
        sog = ["none"] if v < 0.3 else (["int", rng.choice(int_seeds)] if v < 0.6 else (["gen", rng.randrange(ngen)] if v < 0.9 else ["npint", rng.choice(int_seeds)]))
        S = nsched(t, cur_var.get(t, 0))
        nn = lambda: rng.choice([1, 2, 7, 30, 100])
        h = {"op": "call", "target": t, "sog": sog, "S": S}
        if t == "dg":
            fn = rng.choice(["data", "dataset", "empi_seq", "empi_seqs"])
            if fn == "data": h.update(fn=fn, pd=rng.randrange(len(PDS)), n=rng.choice([0, 1, 5, 20]))
            elif fn == "dataset":
                k = rng.randint(1, 3); pds = [rng.randrange(len(PDS)) for _ in range(k)]
                w = rng.random()
                ss = None if w < 0.3 else [rng.choice([["none"], ["int", rng.choice(int_seeds)], ["gen", rng.randrange(ngen)], ["npint", rng.choice(int_seeds)]]) for _ in range(k)]
                ns = [rng.choice([0, 1, 5, 20]) for _ in range(k)]
                if rng.random() < 0.1: ns = ns[:-1]
                elif rng.random() < 0.1 and ss is not None: ss = ss + [["none"]]
                h.update(fn=fn, pds=pds, ns=ns, ss=ss, sog=["none"])
            elif fn == "empi_seq": h.update(fn=fn, pd=rng.randrange(len(PDS)), ns=[nn() for _ in range(rng.randint(0, 3))])
            else:
                k = rng.randint(1, 3)
                lns = [[nn() for _ in range(rng.randint(0, 3))] for _ in range(k)]
                if rng.random() < 0.12: lns = lns[:-1]
                h.update(fn=fn, pds=[rng.randrange(len(PDS)) for _ in range(k)], lns=lns)
        elif t == "md":
            h.update(fn="sampling", pd=rng.randrange(len(PDS)), num=nn(), size=rng.randint(1, 3))
        elif t == "ex":
            fn = rng.choice(["data", "dataset", "empi_seq", "empi_seqs"])
            if fn == "data": h.update(fn=fn, sched=rng.choice([0, 1, 2, 2, 3]), n=rng.choice([0, 1, 5, 20, -1]))
            elif fn == "dataset": h.update(fn=fn, ns=[rng.choice([0, 1, 5, 20]) for _ in range(S if rng.random() < 0.88 else S - 1)])
            elif fn == "empi_seq": h.update(fn=fn, sched=rng.choice([0, 1, 2, 2, 3]), ns=[nn() for _ in range(rng.randint(0, 3))])
            else:
                rows = [[nn() for _ in range(S if rng.random() < 0.9 else S - 1)] for _ in range(rng.randint(0, 3))]
                h.update(fn=fn, lns=rows)
        else:
            fn = rng.choice(["empi_dist", "empi_dists", "empi_dists_seq"])
            nobj += 1
            if fn == "empi_dist": h.update(fn=fn, sched=rng.choice(list(range(S)) + [S]), n=nn())
            elif fn == "empi_dists": h.update(fn=fn, n=nn())
            else: h.update(fn=fn, ns=[nn() for _ in range(rng.randint(0, 3))])
        hops.append(h)
    return {"id": hid, "hops": hops}


FN_OF = {"dg": ["data", "dataset", "empi_seq", "empi_seqs"], "ex": ["data", "dataset", "empi_seq", "empi_seqs"], "md": ["sampling"],
         "qst": ["empi_dist", "empi_dists", "empi_dists_seq"], "povmt": ["empi_dist", "empi_dists", "empi_dists_seq"],
         "qpt": ["empi_dist", "empi_dists", "empi_dists_seq"], "qmpt": ["empi_dist", "empi_dists", "empi_dists_seq"]}


def matrix_history(rng, hid, t, fn, kind, var=0):
    """EVERY entry point x seed kind (None / int / numpy int / shared Generator), systematically: the call is made twice with an
    unrelated global draw in between; arguments always ask for several schedules / sample sizes, so that a per-schedule or
    per-sample-size re-creation of the stream (plural entry point re-using the singular one with an int seed) shows up"""
    seed = rng.randint(10 ** 6, 2 * 10 ** 6)
    sog = {"none": ["none"], "int": ["int", seed], "npint": ["npint", seed], "gen": ["gen", 0]}[kind]
    S = nsched(t, var)
    # sample sizes: small ones and LARGE ones (a code path chosen by the size of the request must be exercised too; the multinomial
    # requests cost the same for every n)
    small = lambda: rng.choice([7, 30, 100])
    large = lambda: rng.choice([10 ** 5 + 1, 2 * 10 ** 6, 10 ** 9])

    def call(big):
        """entry points with ONE sample size: small in the first call, LARGE in the second; lists of sizes always hold both"""
        one = 10 ** 9 if big else small()          # the largest size for the single-size entry points (the request costs the same for every n)
        h = {"op": "call", "target": t, "fn": fn, "sog": sog, "S": S}
        if t == "dg":
            if fn == "data": h.update(pd=rng.randrange(len(PDS)), n=20)
            elif fn == "dataset": h.update(pds=[rng.randrange(len(PDS)) for _ in range(3)], ns=[5, 20, 5], ss=[sog] * 3, sog=["none"])
            elif fn == "empi_seq": h.update(pd=rng.randrange(len(PDS)), ns=[small(), large(), small()])
            else: h.update(pds=[rng.randrange(len(PDS)) for _ in range(3)], lns=[[small(), large()] for _ in range(3)])
        elif t == "md":
            h.update(pd=rng.randrange(len(PDS)), num=one, size=3)
        elif t == "ex":
            if fn == "data": h.update(sched=rng.randrange(S), n=20)
            elif fn == "dataset": h.update(ns=[20] * S)
            elif fn == "empi_seq": h.update(sched=rng.randrange(S), ns=[small(), large(), small()])
            else: h.update(lns=[[small() for _ in range(S)], [large() for _ in range(S)]])
        else:
            if fn == "empi_dist": h.update(sched=rng.randrange(S), n=one)
            elif fn == "empi_dists": h.update(n=one)
            else: h.update(ns=[small(), large()])
        return h
    hops = [{"op": "seed_global", "z": rng.randint(0, 2 ** 31)}, {"op": "new_gen", "z": rng.randint(1, 10 ** 6)}]
    if var:
        hops.append({"op": "construct", "cls": t, "sd": None, "var": 1})          # the tomography object with user-defined schedules
    hops += [call(False), {"op": "global_draw", "n": 2}, call(True)]
    return {"id": hid, "hops": hops}


def sub_flow(ctx):
    rng = ctx.rng
    cases = []
    hid = 0
    for t in ["dg", "ex", "md", "qst", "povmt", "qpt", "qmpt"]:
        for fn in FN_OF[t]:
            for kind in ("none", "int", "npint", "gen"):
                for _ in range(cn(ctx, 1, 4)):
                    cases.append(matrix_history(rng, "m%d" % hid, t, fn, kind)); hid += 1
                    if t in CUSTOM_SCHED:      # ... and on an object with user-defined schedules (subset, permuted)
                        cases.append(matrix_history(rng, "m%d" % hid, t, fn, kind, var=1)); hid += 1
    for focus in ["dg", "ex", "md", "qst", "povmt", "qpt", "qmpt"]:
        for _ in range(cn(ctx, 12, 120)):
            cases.append(gen_history(rng, hid, focus)); hid += 1
    for _ in range(cn(ctx, 40, 400)):
        cases.append(gen_history(rng, hid)); hid += 1
    ctx.sample("flow", cases[3])
    ctx.run_cases("flow", chk_flow, cases)


# ====================================================================== Experiment objects over a history
# One Experiment object is USED OVER TIME: generate, replace an element of experiment.states / .povms / .gates / .mprocesses in
# place (item assignment - no setter runs), assign whole lists / schedules through the setters, copy(), generate again ...
# Model: Model/C14_ExpHist.v (contents = lists of element identities + schedules; a schedule denotes the circuit its items
# refer to in the lists AS THEY ARE when the call is made).  Checked for every call of every history:
#   * the object's actual lists / schedules are the ones the model says (heap correspondence)
#   * the returned value is bit-identical to the draws the dataflow model names, sampled from the distribution of the
#     CURRENT circuit (computed by a FRESH Experiment built from the current lists, itself compared with an independent
#     Born-rule evaluation of the circuit)
#   * no datum / no non-zero empirical frequency on an outcome whose Born-rule probability under the current circuit is 0
#   * with an int / numpy-int seed the value equals that of the same call on the fresh Experiment (theorem
#     C14_experiment_seeded_call_equals_fresh_experiment)
XKIND = ["state", "povm", "gate", "mprocess"]
XATTR = ["states", "povms", "gates", "mprocesses"]
XERR = {15: "IndexError", 17: "IndexError", 18: "AttributeError", 31: "QuaraScheduleItemError", 32: "QuaraScheduleOrderError"}
ZERO_P = 1e-12                      # Born-rule probabilities below this are exact zeros up to rounding (all others are >= 1e-3 here)
_XCAT = {}


def xcat():
    """catalogue of 1-qubit objects; an element's identity is its index in the list of its kind"""
    if _XCAT:
        return _XCAT
    o = objects()
    with warnings.catch_warnings():
        warnings.simplefilter("ignore")
        from quara.objects.state_typical import generate_state_from_name
        from quara.objects.povm_typical import generate_povm_from_name
        from quara.objects.gate_typical import generate_gate_from_gate_name
        from quara.objects.mprocess_typical import generate_mprocess_from_name
        c = o["c"]
        _XCAT[0] = [generate_state_from_name(c, n) for n in ("z0", "z1", "x0", "x1", "y0", "y1")] + [o["st_true"]]
        _XCAT[1] = [generate_povm_from_name(n, c) for n in ("z", "x", "y")] + [o["povm_true"]]
        _XCAT[2] = [generate_gate_from_gate_name(n, c) for n in ("identity", "x", "hadamard", "piover8", "y", "phase")]
        _XCAT[3] = [generate_mprocess_from_name(c, n) for n in ("z-type1", "x-type1")]
    return _XCAT


def xident(k, obj):
    for j, x in enumerate(xcat()[k]):
        if x is obj:
            return j
    return -1


def born(circ):
    """independent evaluation of a circuit [(kind, element id), ...]: state vector through HS matrices, branches of an
    instrument in row-major order (earlier measurement first), Born rule against the POVM vectors"""
    cat = xcat()
    branches = [np.array(cat[0][circ[0][1]].vec, dtype=np.float64)]
    for k, e in circ[1:]:
        x = cat[k][e]
        if k == 2:
            branches = [x.hs @ v for v in branches]
        elif k == 3:
            branches = [hs @ v for v in branches for hs in x.hss]
        elif k == 1:
            return np.array([float(np.dot(vec, v)) for v in branches for vec in x.vecs])
    raise ValueError("circuit without povm")


def xbuild(cont, sd=None):
    """a fresh Experiment from contents (new Python lists every time: Experiment keeps the list objects it is given)"""
    from quara.qcircuit.experiment import Experiment
    cat = xcat()
    with warnings.catch_warnings():
        warnings.simplefilter("ignore")
        return Experiment(schedules=[[(XKIND[k], i) for k, i in sch] for sch in cont["sched"]],
                          states=[cat[0][e] for e in cont["lists"][0]], povms=[cat[1][e] for e in cont["lists"][1]],
                          gates=[cat[2][e] for e in cont["lists"][2]], mprocesses=[cat[3][e] for e in cont["lists"][3]], seed_data=sd)


def xactual(exp):
    """the contents the real object has now, in the model's vocabulary"""
    return {"lists": [[xident(k, x) for x in getattr(exp, XATTR[k])] for k in range(4)],
            "sched": [[(XKIND.index(a), b) for a, b in sch] for sch in exp.schedules]}


def enc_cont_py(cont):
    out = []
    for k in range(4):
        out += enc_list(cont["lists"][k])
    return out + enc_sched_py(cont["sched"])


def enc_sched_py(sched):
    return [len(sched)] + [v for sch in sched for v in [2 * len(sch)] + [x for it in sch for x in it]]


def enc_xhop(h):
    op = h["op"]
    if op == "seed_global": return [0, h["z"]]
    if op == "global_draw": return [1, h["n"]]
    if op == "new_gen": return [2, h["z"]]
    if op == "gen_draw": return [3, h["h"], h["n"]]
    if op == "construct": return [10, 0 if h["sd"] is None else 1, h["sd"] or 0] + enc_cont_py(h["cont"])
    if op == "copy": return [11, h["o"]]
    if op == "set_item": return [12, h["o"], h["k"], h["i"], h["e"]]
    if op == "set_list": return [13, h["o"], h["k"]] + enc_list(h["l"])
    if op == "set_sched": return [14, h["o"]] + enc_sched_py(h["sched"])
    if op == "reset_seed_data": return [15, h["o"], 0 if h["sd"] is None else 1, h["sd"] or 0]
    if op == "calc": return [16, h["o"], h["sched"]]
    if op == "set_sched_item": return [18, h["o"], h["s"], h["j"], h["it"][0], h["it"][1]]
    if op == "set_sched_outer": return [19, h["o"], h["s"], 2 * len(h["items"])] + [x for it in h["items"] for x in it]
    if op == "call":
        fn = h["fn"]
        pre = [17, h["o"]] + enc_sog(h["sog"])
        if fn == "data": return pre + [0, h["sched"], h["n"]]
        if fn == "dataset": return pre + [1] + enc_list(h["ns"])
        if fn == "empi_seq": return pre + [2, h["sched"]] + enc_list(h["ns"])
        if fn == "empi_seqs": return pre + [3] + enc_ll(h["lns"])
    raise ValueError(h)


class _Rd:
    def __init__(self, v): self.v = v; self.p = 0
    def one(self): x = self.v[self.p]; self.p += 1; return x
    def block(self): n = self.one(); out = self.v[self.p:self.p + n]; self.p += n; return list(out)
    def pairs(self): n = self.one(); out = [(self.v[self.p + 2 * j], self.v[self.p + 2 * j + 1]) for j in range(n)]; self.p += 2 * n; return out
    def cont(self):
        lists = [self.block() for _ in range(4)]
        return {"lists": lists, "sched": [self.pairs() for _ in range(self.one())]}
    def res(self):
        code, nrows = self.one(), self.one()
        if code != 0:
            return ("err", code)
        rows = []
        for _ in range(nrows):
            row = []
            for _ in range(self.one()):
                n, kind, seed, p, rk, rn, rsz, rpd = self.v[self.p:self.p + 8]; self.p += 8
                row.append({"n": n, "stream": (kind, seed), "pos": p, "req": (rk, rn, rsz, rpd)})
            rows.append(row)
        return ("ok", rows)


def dec_xflow(vals):
    rd = _Rd([int(x) for x in vals])
    results = []
    for _ in range(rd.one()):
        tag = rd.one()
        if tag == 0: results.append(("unit",))
        elif tag == 1: results.append(("err", rd.one()))
        elif tag == 2: results.append(("obj", rd.one()))
        else:
            cont = rd.cont()
            table = [(rd.pairs() if rd.one() == 1 else None) for _ in range(rd.one())]
            results.append(("out", cont, table, rd.res()))
    g = tuple(rd.v[rd.p:rd.p + 3]); rd.p += 3
    gens = []
    for _ in range(rd.one()):
        gens.append(tuple(rd.v[rd.p:rd.p + 3])); rd.p += 3
    nobj = rd.one()
    rd.p += 2 * nobj
    conts = [rd.cont() for _ in range(nobj)]
    if rd.p != len(rd.v):
        raise RuntimeError("xflow reply not consumed: %d of %d" % (rd.p, len(rd.v)))
    return results, {"glob": g, "gens": gens, "conts": conts}


def chk_exp_hist(ctx, case):
    from quara.qcircuit.experiment import QuaraScheduleItemError, QuaraScheduleOrderError
    mdl = ctx.get_model()
    cat = xcat()
    hops = case["hops"]
    pred, world = dec_xflow(mdl.call("c14.xflow", [len(hops)] + [v for h in hops for v in enc_xhop(h)]))
    exps = []                         # real Experiment objects, index = model object id
    last_mut = {}                     # object id -> kind of the last mutation since its last generation call
    gens = []
    oracle = Oracle()
    errs = (ValueError, IndexError, AttributeError, TypeError, QuaraScheduleItemError, QuaraScheduleOrderError)

    def heap_ok(i, o, cont):
        act = xactual(exps[o])
        if act != {"lists": [list(l) for l in cont["lists"]], "sched": [list(sc) for sc in cont["sched"]]}:
            ctx.violation("exp_hist", "Experiment", "contents", "step %d: object %d holds %s, the model says %s" % (i, o, act, cont), case)
            return False
        return True

    for i, h in enumerate(hops):
        op = h["op"]
        pr = pred[i]
        if op == "seed_global":
            np.random.seed(h["z"]); continue
        if op == "new_gen":
            gens.append(np.random.Generator(np.random.MT19937(h["z"]))); continue
        if op in ("global_draw", "gen_draw"):
            val = np.random.random(h["n"]) if op == "global_draw" else gens[h["h"]].random(h["n"])
            s = pr[3][1][0][0]
            if not np.array_equal(val, oracle.draw(s["stream"], s["pos"], s["req"], None)):
                ctx.violation("exp_hist", "session:" + op, "state-perturbed", "step %d: an unrelated draw returns other numbers than the dataflow model predicts" % i, case)
                return
            continue
        # ---- operations on Experiment objects that return nothing / a new object
        if op in ("construct", "copy", "set_item", "set_list", "set_sched", "set_sched_item", "set_sched_outer", "reset_seed_data"):
            try:
                with warnings.catch_warnings():
                    warnings.simplefilter("ignore")
                    if op == "construct":
                        new = xbuild(h["cont"], h["sd"])
                    elif op == "copy":
                        new = exps[h["o"]].copy()
                    elif op == "set_item":
                        getattr(exps[h["o"]], XATTR[h["k"]])[h["i"]] = cat[h["k"]][h["e"]]
                    elif op == "set_list":
                        setattr(exps[h["o"]], XATTR[h["k"]], [cat[h["k"]][e] for e in h["l"]])
                    elif op == "set_sched":
                        exps[h["o"]].schedules = [[(XKIND[k], j) for k, j in sch] for sch in h["sched"]]
                    elif op == "set_sched_item":
                        exps[h["o"]].schedules[h["s"]][h["j"]] = (XKIND[h["it"][0]], h["it"][1])
                    elif op == "set_sched_outer":
                        exps[h["o"]].schedules[h["s"]] = [(XKIND[k], j) for k, j in h["items"]]
                    else:
                        exps[h["o"]].reset_seed_data(h["sd"])
                impl = ("ok",)
            except errs as e:
                impl = ("err", type(e).__name__)
            ctx.count("exp_hist", key=(case["id"], i), label="%s/%s" % (op, pr[0] if pr[0] != "err" else "err%d" % pr[1]), nontrivial=False)
            if pr[0] == "err":
                if impl[0] != "err" or impl[1] != XERR[pr[1]]:
                    ctx.violation("exp_hist", "Experiment." + op, "error-kind", "step %d: model raises error %d (%s), implementation %s" % (i, pr[1], XERR[pr[1]], impl), case)
                    return
                continue
            if impl[0] == "err":
                ctx.violation("exp_hist", "Experiment." + op, "unexpected-raise", "step %d: implementation raised %s, the model accepts" % (i, impl[1]), case)
                return
            if op in ("construct", "copy"):
                if pr[1] != len(exps):
                    raise RuntimeError("object numbering: model %s, harness %d" % (pr, len(exps)))
                exps.append(new)
                last_mut[pr[1]] = "on-copy" if op == "copy" else ""
            elif op == "set_sched_item":
                for oo in range(len(exps)):             # every object sharing the inner list may be affected
                    last_mut[oo] = "after-in-place-schedule-item"
            elif op != "reset_seed_data":
                last_mut[h["o"]] = {"set_item": "after-in-place-replacement", "set_list": "after-list-assignment", "set_sched": "after-schedule-assignment",
                                    "set_sched_outer": "after-in-place-schedule-replacement"}[op]
            continue
        # ---- calc_prob_dist / generate_*
        o = h["o"]
        exp = exps[o]
        feat = (":" + last_mut[o]) if last_mut.get(o) else ""
        if op == "calc":
            site = "Experiment.calc_prob_dist"
            try:
                with warnings.catch_warnings():
                    warnings.simplefilter("ignore")
                    impl = ("ok", np.array(exp.calc_prob_dist(h["sched"]), dtype=np.float64))
            except errs as e:
                impl = ("err", type(e).__name__)
            ctx.count("exp_hist", key=(case["id"], i), label="calc/%s%s" % ("ok" if pr[0] == "out" else "err%d" % pr[1], feat), nontrivial=pr[0] == "out" and bool(feat))
            if pr[0] == "err":
                if impl[0] != "err" or impl[1] != XERR[pr[1]]:
                    ctx.violation("exp_hist", site, "error-kind", "step %d: model raises error %d, implementation %s" % (i, pr[1], str(impl)[:100]), case)
                    return
                continue
            if impl[0] == "err":
                ctx.violation("exp_hist", site, "unexpected-raise" + feat, "step %d: implementation raised %s" % (i, impl[1]), case)
                return
            _, cont, table, _ = pr
            if not heap_ok(i, o, cont):
                return
            circ = table[h["sched"]]
            with warnings.catch_warnings():
                warnings.simplefilter("ignore")
                ref = np.array(xbuild(cont).calc_prob_dist(h["sched"]), dtype=np.float64)
            b = born(circ)
            if impl[1].shape != ref.shape or not np.array_equal(impl[1], ref) or float(np.max(np.abs(impl[1] - b))) > 1e-9:
                ctx.violation("exp_hist", site, "not-current-circuit" + feat,
                              "step %d: calc_prob_dist(%d) = %s; the schedule now denotes the circuit %s whose distribution is %s (fresh Experiment: %s)"
                              % (i, h["sched"], impl[1], [(XKIND[k], e) for k, e in circ], np.round(b, 12), ref), case)
                return
            continue
        # ---- a generate_* call
        fn, sog = h["fn"], h["sog"]
        site = "Experiment." + {"data": "generate_data", "dataset": "generate_dataset", "empi_seq": "generate_empi_dist_sequence", "empi_seqs": "generate_empi_dists_sequence"}[fn]
        if pr[0] == "err":                      # a needed schedule ends in an mprocess: AttributeError before any stream is touched
            cont, table, st, rows = None, None, "err", pr[1]
        else:
            _, cont, table, (st, rows) = pr
            if not heap_ok(i, o, cont):
                return
        hh = dict(h, target="ex")
        do_call = make_call(hh, exp, None, gens, None)
        try:
            impl = ("ok", do_call())
        except errs as e:
            impl = ("err", type(e).__name__)
        ctx.count("exp_hist", key=(case["id"], i), label="%s/%s/%s%s" % (fn, sog[0], st if st == "ok" else "err%s" % rows, feat),
                  nontrivial=(st == "ok" and bool(feat)))
        if sog[0] == "npint":
            feat += ":numpy-integer-seed"
        if st == "err":
            want = XERR[rows] if rows in XERR else FLOW_ERR[rows]
            if impl[0] != "err" or impl[1] != want:
                ctx.violation("exp_hist", site, "error-kind", "step %d: model raises error %s (%s), implementation %s" % (i, rows, want, str(impl)[:150]), case)
                return
            last_mut[o] = ""
            continue
        if impl[0] == "err":
            ctx.violation("exp_hist", site, "unexpected-raise" + feat, "step %d (%s seed argument): implementation raised %s, model returns a value" % (i, sog[0], impl[1]), case)
            return
        # the distribution of every schedule's CURRENT circuit: a fresh Experiment built from the current lists, cross-checked
        # with the independent Born-rule evaluation
        fresh = xbuild(cont)
        with warnings.catch_warnings():
            warnings.simplefilter("ignore")
            pds = [(np.array(fresh.calc_prob_dist(j), dtype=np.float64) if sch[-1][0] == 1 else None) for j, sch in enumerate(cont["sched"])]
        borns = [(born(c) if c[-1][0] == 1 else None) for c in table]
        for j, (p, b) in enumerate(zip(pds, borns)):
            if p is None:
                continue
            if p.shape != b.shape or float(np.max(np.abs(p - b))) > 1e-9:
                ctx.violation("exp_hist", "Experiment.calc_prob_dist", "fresh-experiment-vs-born-rule",
                              "step %d: a fresh Experiment gives %s for circuit %s, the Born rule %s" % (i, p, [(XKIND[k], e) for k, e in table[j]], np.round(b, 12)), case)
                return
        # (1) no outcome of probability 0 under the CURRENT circuit (Born rule), whatever the stream
        got = norm_rows(fn, impl[1])
        for gr, mr in zip(got, rows):
            for (gn, gv), s in zip(gr, mr):
                b = borns[s["req"][3]]
                if s["req"][0] == 0:
                    bad = [d for d in gv if not (0 <= d < len(b)) or b[d] < ZERO_P]
                else:
                    bad = [x for x in range(min(len(gv), len(b))) if b[x] < ZERO_P and gv[x] != 0] if len(gv) == len(b) else ["shape"]
                if bad:
                    ctx.violation("exp_hist", site, "zero-probability-outcome-under-current-circuit" + feat,
                                  "step %d: schedule %d now denotes the circuit %s with outcome probabilities %s, but the generated value %s contains outcome(s) %s of probability 0"
                                  % (i, s["req"][3], [(XKIND[k], e) for k, e in table[s["req"][3]]], np.round(b, 12), str(gv)[:80].replace("\n", " "), bad[:5]), case)
                    return
        # (2) bit-identical to the draws the dataflow model names, sampled from the current circuit's distribution
        if not cmp_call_rows(ctx, "exp_hist", site, i, sog, fn, impl[1], rows, pds, oracle, mdl, case, feat):
            return
        # (3) seeded: equal to the same call on a fresh Experiment built from the current lists
        if sog[0] in ("int", "npint"):
            again = make_call(hh, fresh, None, gens, None)()
            if repr(again) != repr(impl[1]):
                ctx.violation("exp_hist", site, "seeded-output-differs-from-fresh-experiment" + feat,
                              "step %d: seed %s: the value differs from the one a fresh Experiment built from the object's current lists returns for the same call" % (i, sog[1]), case)
                return
        last_mut[o] = ""
    # ---- final state: random state and the contents of every object
    if not cmp_final_state(ctx, "exp_hist", world, gens, oracle, case):
        return
    for o, cont in enumerate(world["conts"]):
        if o < len(exps) and not heap_ok(len(hops), o, cont):
            return
    ctx.dist["exp_hist:histories"] = ctx.dist.get("exp_hist:histories", 0) + 1


def gen_xcont(rng):
    ncat = {k: len(xcat()[k]) for k in range(4)}
    lists = [[rng.randrange(ncat[0]) for _ in range(rng.randint(1, 2))], [rng.randrange(ncat[1]) for _ in range(rng.randint(1, 3))],
             [rng.randrange(ncat[2]) for _ in range(rng.randint(0, 2))], [rng.randrange(ncat[3]) for _ in range(rng.randint(0, 1))]]
    return {"lists": lists, "sched": gen_xsched(rng, lists, rng.randint(2, 4))}


def gen_xsched(rng, lists, S):
    out = []
    for _ in range(S):
        sch = [(0, rng.randrange(len(lists[0])))]
        used_mp = False
        for _ in range(rng.choice([0, 0, 1, 1, 2])):
            if lists[3] and not used_mp and rng.random() < 0.35:
                sch.append((3, rng.randrange(len(lists[3])))); used_mp = True
            elif lists[2]:
                sch.append((2, rng.randrange(len(lists[2]))))
        if lists[3] and not used_mp and rng.random() < 0.1:
            sch.append((3, rng.randrange(len(lists[3]))))          # a schedule that ENDS in an mprocess (allowed by the validation)
        else:
            sch.append((1, rng.randrange(len(lists[1]))))
        out.append(sch)
    return out


def gen_xhistory(rng, hid):
    """one or two Experiment objects used over time"""
    import copy as _copy
    ncat = {k: len(xcat()[k]) for k in range(4)}
    hops = [{"op": "seed_global", "z": rng.randint(0, 2 ** 31)}]
    ngen = rng.randint(1, 2)
    for z in rng.sample(range(1, 10 ** 6), ngen):
        hops.append({"op": "new_gen", "z": z})
    int_seeds = rng.sample(range(10 ** 6, 2 * 10 ** 6), 2)
    conts = []                                   # mirror of the model's contents (only to generate in-range operations)

    def add_construct():
        c = gen_xcont(rng)
        hops.append({"op": "construct", "cont": _copy.deepcopy(c), "sd": rng.choice([None, None, rng.randint(0, 10 ** 6)])}); conts.append(c)

    def usable(c):
        """schedules that end in a povm (the others make calc_prob_dist raise AttributeError)"""
        return [j for j, sch in enumerate(c["sched"]) if sch[-1][0] == 1]

    def gen_call(o, sched=None, seed=None):
        c = conts[o]; S = len(c["sched"])
        v = rng.random()
        sog = ["none"] if v < 0.2 else (["int", rng.choice(int_seeds)] if v < 0.65 else (["gen", rng.randrange(ngen)] if v < 0.85 else ["npint", rng.choice(int_seeds)]))
        if seed is not None:
            sog = ["int", seed]
        nn = lambda: rng.choice([1, 2, 7, 30, 100])
        fn = rng.choice(["data", "dataset", "empi_seq", "empi_seqs"])
        h = {"op": "call", "o": o, "fn": fn, "sog": sog}
        sc = sched if sched is not None else rng.choice(list(range(S)) + ([S] if rng.random() < 0.15 else []))
        if fn == "data": h.update(sched=sc, n=rng.choice([1, 5, 20, 50, 0, -1] if sched is None else [5, 20, 50]))
        elif fn == "dataset": h.update(ns=[rng.choice([0, 1, 5, 20, 50]) for _ in range(S if rng.random() < 0.9 or sched is not None else S - 1)])
        elif fn == "empi_seq": h.update(sched=sc, ns=[nn() for _ in range(rng.randint(0 if sched is None else 1, 3))])
        else: h.update(lns=[[nn() for _ in range(S if rng.random() < 0.9 or sched is not None else S + 1)] for _ in range(rng.randint(0 if sched is None else 1, 2))])
        return h

    def referenced(c):
        return sorted(set(it for sch in c["sched"] for it in sch))

    def gen_set_item(o, target=None):
        c = conts[o]
        if target is None:
            ref = referenced(c)
            if rng.random() < 0.75 and ref:
                k, i = rng.choice(ref)
            else:
                k = rng.choice([k for k in range(4) if c["lists"][k]]); i = rng.randrange(len(c["lists"][k]))
        else:
            k, i = target
        if target is None and rng.random() < 0.05:
            return {"op": "set_item", "o": o, "k": k, "i": len(c["lists"][k]), "e": rng.randrange(ncat[k])}      # IndexError, nothing changes
        e = rng.choice([x for x in range(ncat[k]) if x != c["lists"][k][i]])
        c["lists"][k][i] = e
        return {"op": "set_item", "o": o, "k": k, "i": i, "e": e}

    add_construct()
    for _ in range(rng.randint(6, 12)):
        u = rng.random()
        o = rng.randrange(len(conts))
        c = conts[o]
        if u < 0.30:
            hops.append(gen_call(o))
        elif u < 0.50:
            hops.append(gen_set_item(o))
        elif u < 0.62 and usable(c):
            # the sharpest pattern: use a schedule, replace one of ITS elements in place, use the same schedule again (same seed)
            sc = rng.choice(usable(c)); seed = rng.choice(int_seeds)
            first = gen_call(o, sched=sc, seed=seed) if rng.random() < 0.7 else {"op": "calc", "o": o, "sched": sc}
            hops.append(first)
            hops.append(gen_set_item(o, target=rng.choice(c["sched"][sc])))
            hops.append(gen_call(o, sched=sc, seed=seed) if rng.random() < 0.8 else {"op": "calc", "o": o, "sched": sc})
        elif u < 0.70:
            k = rng.randrange(4)
            need = max([i + 1 for kk, i in referenced(c) if kk == k] + [0])
            ln = max(1 if k in (0, 1) else 0, need + rng.choice([0, 0, 1, -1]))     # states / povms never become empty (the generator needs them)
            l = [rng.randrange(ncat[k]) for _ in range(ln)]
            if ln >= need:
                c["lists"][k] = list(l)
            hops.append({"op": "set_list", "o": o, "k": k, "l": l})
        elif u < 0.78:
            sched = gen_xsched(rng, c["lists"], rng.randint(1, 4))
            w = rng.random()
            if w < 0.12:
                k, i = sched[0][-1]; sched[0][-1] = (k, len(c["lists"][k]))             # index out of range -> error 31
            elif w < 0.2:
                sched[-1] = sched[-1][1:]                                              # does not start with a state -> error 32
            else:
                c["sched"] = _copy.deepcopy(sched)
            hops.append({"op": "set_sched", "o": o, "sched": sched})
        elif u < 0.84:
            # copy(): new element lists, new OUTER schedule list, the inner schedule lists are SHARED (mirrored here by sharing them too)
            hops.append({"op": "copy", "o": o}); conts.append({"lists": _copy.deepcopy(c["lists"]), "sched": list(c["sched"])})
        elif u < 0.875:
            # experiment.schedules[s][j] = (same kind, another valid index): in place in an inner list - seen by every object sharing it
            sc = rng.randrange(len(c["sched"])); j = rng.randrange(len(c["sched"][sc])); k = c["sched"][sc][j][0]
            if rng.random() < 0.08:
                hops.append({"op": "set_sched_item", "o": o, "s": sc, "j": len(c["sched"][sc]), "it": [k, 0]})     # IndexError, nothing changes
            else:
                it = (k, rng.randrange(len(c["lists"][k])))
                c["sched"][sc][j] = it
                hops.append({"op": "set_sched_item", "o": o, "s": sc, "j": j, "it": list(it)})
        elif u < 0.89:
            # experiment.schedules[s] = <a new valid schedule>: in place in the OUTER list (this object only)
            sc = rng.randrange(len(c["sched"])); new = gen_xsched(rng, c["lists"], 1)[0]
            c["sched"][sc] = list(new)
            hops.append({"op": "set_sched_outer", "o": o, "s": sc, "items": [list(it) for it in new]})
        elif u < 0.91:
            hops.append({"op": "calc", "o": o, "sched": rng.choice(list(range(len(c["sched"]))) + [len(c["sched"])])})
        elif u < 0.93 and len(conts) < 3:
            add_construct()
        elif u < 0.96:
            hops.append({"op": "reset_seed_data", "o": o, "sd": rng.choice([None, 0, rng.randint(1, 10 ** 6)])})
        elif u < 0.98:
            hops.append({"op": "global_draw", "n": rng.randint(1, 4)})
        else:
            hops.append({"op": "gen_draw", "h": rng.randrange(ngen), "n": rng.randint(1, 4)})
    return {"id": hid, "hops": hops}


def sub_exp_hist(ctx):
    rng = ctx.rng
    cases = [gen_xhistory(rng, hid) for hid in range(cn(ctx, 70, 700))]
    ctx.sample("exp_hist", cases[0])
    ctx.run_cases("exp_hist", chk_exp_hist, cases)


# ====================================================================== large records (size-dependent code paths)
# The property quantifies over ALL sample sizes; the other sub-checks use records of <= 200 data.  Here every data-record entry point
# is called with records of 10^4 .. 10^6 (4*10^6 thorough) data, so that a code path chosen by the SIZE of the request is exercised:
#   * seeded (int / numpy int / Generator): the record is identical under two different global numpy states and the call leaves the
#     global state untouched;
#   * every record equals inversion sampling of the random numbers of the stream the dataflow model names (numpy generator re-created
#     as oracle, one stream.random(n) request per record, consecutive on a shared stream), computed here with sequential float
#     cumulative sums + searchsorted + last-positive fallback, and - on 150 sampled positions - by the extracted Coq model;
#   * the stream (global state / shared Generator) is afterwards exactly where that many requests leave it;
#   * no outcome of probability 0.
def oracle_record(ps, rs):
    cums = np.array(float_cums([float(x) for x in ps]))
    e = np.searchsorted(cums, np.asarray(rs), side="right")
    e[e == len(ps)] = last_pos([float(x) for x in ps])
    return e


def _gstate_eq(a, b):
    return a[0] == b[0] and np.array_equal(a[1], b[1]) and tuple(a[2:]) == tuple(b[2:])


def chk_big(ctx, case):
    from quara.qcircuit import data_generator as dg
    mdl = ctx.get_model()
    ep, kind, z = case["ep"], case["kind"], case["seed"]
    ex = make_obj("ex", None) if ep.startswith("ex") else None
    if ex is not None:
        with warnings.catch_warnings():
            warnings.simplefilter("ignore")
            pds = [np.array(p, dtype=np.float64) for p in ex.calc_prob_dists()]
    else:
        pds = [np.array(p, dtype=np.float64) for p in case["pds"]]
    ns = case["ns"]
    site = {"dg.data": "data_generator.generate_data_from_prob_dist", "dg.dataset": "data_generator.generate_dataset_from_prob_dists",
            "ex.data": "Experiment.generate_data", "ex.dataset": "Experiment.generate_dataset"}[ep]

    def run(pre, ndraw):
        """one session: seed the global state, unrelated draws, the call; returns records, global state before / after, the generator"""
        np.random.seed(pre); np.random.random(ndraw)
        g = np.random.Generator(np.random.MT19937(z)) if kind == "gen" else None
        arg = {"none": None, "int": z, "npint": np.int64(z), "gen": g}[kind]
        before = np.random.get_state()
        with warnings.catch_warnings():
            warnings.simplefilter("ignore")
            if ep == "dg.data": out = [dg.generate_data_from_prob_dist(pds[0], ns[0], arg)]
            elif ep == "dg.dataset":
                # its own seed per record: the same kind for each (a shared Generator is then consumed consecutively)
                seeds = None if kind == "none" else ([g] * len(ns) if kind == "gen" else [({"int": int, "npint": np.int64}[kind])(z + j) for j in range(len(ns))])
                out = dg.generate_dataset_from_prob_dists(pds, list(ns), seeds)
            elif ep == "ex.data": out = [ex.generate_data(case["sched"], ns[0], arg)]
            else: out = ex.generate_dataset(list(ns), arg)
        return out, before, np.random.get_state(), g

    (o1, b1, a1, g1) = run(case["pre"][0], 3)
    (o2, b2, a2, g2) = run(case["pre"][1], 11)
    total = sum(ns)
    ctx.count("big_records", key=(ep, kind, tuple(ns)), label="%s/%s/n=%d" % (ep, kind, max(ns)), nontrivial=True)
    if [len(r) for r in o1] != list(ns):
        ctx.violation("big_records", site, "shape", "record lengths %s, requested %s" % ([len(r) for r in o1], list(ns)), case); return
    rec_pds = pds if ep != "ex.data" and ep != "dg.data" else [pds[case.get("sched", 0)] if ep == "ex.data" else pds[0]]
    # ---- seeded: function of seed and arguments only; global state untouched
    if kind != "none":
        if o1 != o2:
            ctx.violation("big_records", site, "seeded-record-depends-on-global-state",
                          "%s seed %d, %d data: the record differs between two sessions that differ only in numpy's GLOBAL state (first difference at position %d)"
                          % (kind, z, max(ns), next(i for r1, r2 in zip(o1, o2) for i, (x, y) in enumerate(zip(r1, r2)) if x != y)), case); return
        if not _gstate_eq(b1, a1) or not _gstate_eq(b2, a2):
            ctx.violation("big_records", site, "seeded-call-advances-global-state", "%s seed %d, %d data: numpy's global state is changed by the call" % (kind, z, max(ns)), case); return
    # ---- the dataflow: which stream, how many requests, in which order
    if kind == "none":
        og = np.random.RandomState(); og.set_state(b2); draw = og.random_sample; streams = [(og, draw)] * len(ns)
    elif kind == "gen" or ep.startswith("ex") or ep == "dg.data":
        og = np.random.Generator(np.random.MT19937(z)); streams = [(og, og.random)] * len(ns)
    else:
        streams = []
        for j in range(len(ns)):
            ogj = np.random.Generator(np.random.MT19937(z + j)); streams.append((ogj, ogj.random))
    for j, (rec, n, p) in enumerate(zip(o2, ns, rec_pds)):
        rs = streams[j][1](n)
        exp = oracle_record(p, rs)
        got = np.asarray(rec)
        if got.shape != exp.shape or not np.array_equal(got, exp):
            bad = int(np.argmax(got != exp)) if got.shape == exp.shape else -1
            ctx.violation("big_records", site, "stream-dataflow:large-record",
                          "%s seed, record %d of %d data is not the inversion of request #%d of the stream the dataflow model names (first difference at position %d)"
                          % (kind, j, n, j, bad), case); return
        if any(p[d] <= 0 for d in set(rec)):
            ctx.violation("big_records", site, "zero-probability-outcome:large-record", "record %d contains an outcome of probability 0" % j, case); return
        # the extracted Coq model on sampled positions
        idx = sorted(set(int(x) for x in np.linspace(0, n - 1, 150)))
        mv = [int(v) for v in mdl.call("c14.gen_data", [len(idx)], [1e-13] + [float(rs[i]) for i in idx] + [float(x) for x in p])]
        pf = [float(x) for x in p]
        if any(mv[t] != rec[i] for t, i in enumerate(idx) if margin(pf, float(rs[i])) >= BAND):
            ctx.violation("big_records", site, "value:large-record", "record %d differs from the Coq model on a sampled position" % j, case); return
    # ---- the stream is where the requests leave it
    if kind == "none" and not _gstate_eq(a2, streams[0][0].get_state()):
        ctx.violation("big_records", site, "state-perturbed:large-record", "the global state after the call is not the one %d requests leave" % len(ns), case); return
    if kind == "gen":
        sa, sb = g2.bit_generator.state, streams[0][0].bit_generator.state
        if not (np.array_equal(sa["state"]["key"], sb["state"]["key"]) and sa["state"]["pos"] == sb["state"]["pos"]):
            ctx.violation("big_records", site, "state-perturbed:large-record", "the shared Generator is not in the state %d requests leave" % len(ns), case); return


def sub_big_records(ctx):
    rng = ctx.rng
    sizes = cn(ctx, [10 ** 4, 10 ** 5, 10 ** 5 + 3, 3 * 10 ** 5], [10 ** 4, 10 ** 5, 10 ** 5 + 3, 3 * 10 ** 5, 10 ** 6])
    vecs = [[0.5, 0.5], [0.25, 0.0, 0.75], [0.1, 0.2, 0.3, 0.4], [0.0, 1 / 3, 1 / 3, 1 / 3, 0.0]]
    cases = []
    for n in sizes:
        for ep in ("dg.data", "dg.dataset", "ex.data", "ex.dataset"):
            for kind in ("int", "gen", "none", "npint"):
                if kind == "npint" and (n != 10 ** 5 or ep != "dg.data"):
                    continue
                if n >= 3 * 10 ** 5 and (ep.startswith("ex") and kind != "int" or kind == "none"):
                    continue                                         # keeps the quick tier cheap; every (entry point, seed kind) is covered at 10^5
                c = {"ep": ep, "kind": kind, "seed": rng.randint(1, 10 ** 6), "pre": [rng.randint(1, 10 ** 6), rng.randint(1, 10 ** 6)]}
                if ep == "dg.data": c.update(pds=[rng.choice(vecs)], ns=[n])
                elif ep == "dg.dataset": c.update(pds=[rng.choice(vecs), rng.choice(vecs)], ns=[n, 50] if rng.random() < 0.5 else [50, n])
                elif ep == "ex.data": c.update(sched=rng.randrange(NSCHED["ex"]), ns=[n])
                else: c.update(ns=[50] * (NSCHED["ex"] - 1) + [n])
                cases.append(c)
    # one record of 10^6 (4 * 10^6 thorough) through the plain function, int seed and shared Generator
    for kind in ("int", "gen"):
        cases.append({"ep": "dg.data", "kind": kind, "seed": rng.randint(1, 10 ** 6), "pre": [rng.randint(1, 10 ** 6), rng.randint(1, 10 ** 6)],
                      "pds": [[0.25, 0.0, 0.75]], "ns": [cn(ctx, 10 ** 6, 4 * 10 ** 6)]})
    ctx.sample("big_records", cases[0])
    ctx.run_cases("big_records", chk_big, cases)


# ====================================================================== seed types (direct property predicates)
def chk_seed_types(ctx, case):
    from quara.qcircuit import data_generator as dg
    kind = case["kind"]
    if kind == "reset_seed_zero":                    # replay files written before round 2
        kind = "reset_seed"; case = dict(case, sds=[None] * len(case["pre"]))
    if kind not in ("reset_seed", "numpy_int_seed"):
        raise ValueError("unknown seed_types case %r" % (kind,))
    if kind == "reset_seed":
        # an explicit seed z given to reset_seed must make the following (None-seeded) generation a function of z only:
        # independent of the earlier global state and of the object's own seed_data, and equal to what np.random.seed(z) gives
        cls, z = case["cls"], case["seed"]
        true = objects()[TRUE[cls]]
        outs = []
        for pre, sd in zip(case["pre"], case["sds"]):
            np.random.seed(pre)
            t = make_obj(cls, sd)
            np.random.random(pre % 5)                # unrelated draws
            t.reset_seed(z)
            outs.append(repr(t.generate_empi_dists(true, 50)))
        t = make_obj(cls, None)
        np.random.seed(z)
        ref = repr(t.generate_empi_dists(true, 50))
        ctx.count("seed_types", key=(kind, cls, z), label="%s/seed=%s" % (kind, "0" if z == 0 else "nonzero"))
        if len(set(outs)) != 1:
            ctx.violation("seed_types", "QTomography.reset_seed", "seed-zero-ignored" if z == 0 else "seed-ignored",
                          "reset_seed(%s) on %s: the data generated afterwards still depend on the earlier global state / the object's seed_data%s"
                          % (z, cls, " (`if seed:` treats 0 as no seed)" if z == 0 else ""), case)
        elif outs[0] != ref:
            ctx.violation("seed_types", "QTomography.reset_seed", "seed-not-global-seed",
                          "reset_seed(%s) on %s: the data generated afterwards are not those generated after np.random.seed(%s)" % (z, cls, z), case)
    elif kind == "numpy_int_seed":
        p = np.array(case["ps"]); ns = [case["n"]] * 4
        mk = (lambda: np.int64(case["seed"])) if case["mk"] == "np" else (lambda: int(case["seed"]))
        tag = "np.int64" if case["mk"] == "np" else "int"
        ctx.count("seed_types", key=(kind, case["mk"], case["seed"]), label="%s/%s" % (kind, case["mk"]))
        with warnings.catch_warnings():
            warnings.simplefilter("ignore")
            a = dg.generate_empi_dist_sequence_from_prob_dist(p, ns, mk())
            ref = dg.generate_empi_dist_sequence_from_prob_dist(p, ns, int(case["seed"]))
            try:
                d = dg.generate_data_from_prob_dist(p, 20, mk())
            except AttributeError as e:
                d = "AttributeError: %s" % e
            dref = dg.generate_data_from_prob_dist(p, 20, int(case["seed"]))
        same = all(np.array_equal(a[0][1], x[1]) for x in a[1:])
        if same:
            ctx.violation("seed_types", "number_util.to_stream", "numpy-integer-seed-restarts-stream",
                          "seed %s(%d): the %d members of one sequence are identical copies %s - every multinomial draw restarts from the seed instead of advancing one stream (`type(seed) == int` is False for numpy integers)"
                          % (tag, case["seed"], len(ns), a[0][1]), case)
        elif repr(a) != repr(ref) or d != dref:
            ctx.violation("seed_types", "number_util.to_stream", "numpy-integer-seed-differs-from-int-seed",
                          "seed %s(%d) does not give the output of the int seed %d: sequence %s vs %s, data %s vs %s"
                          % (tag, case["seed"], case["seed"], str(a)[:80], str(ref)[:80], str(d)[:60], str(dref)[:60]), case)


def sub_seed_types(ctx):
    rng = ctx.rng
    cases = []
    for cls in ("qst", "povmt", "qpt", "qmpt"):
        for z in (0, rng.randint(1, 10 ** 6)):
            cases.append({"kind": "reset_seed", "cls": cls, "seed": z, "pre": [rng.randint(1, 10 ** 6), rng.randint(1, 10 ** 6), 13],
                          "sds": [None, None, rng.randint(1, 10 ** 6)]})
    for seed in (5, 0, rng.randint(1, 2 ** 31)):
        cases.append({"kind": "numpy_int_seed", "mk": "np", "seed": seed, "ps": [0.3, 0.3, 0.4], "n": 1000})
    cases.append({"kind": "numpy_int_seed", "mk": "int", "seed": 5, "ps": [0.3, 0.3, 0.4], "n": 1000})   # control
    ctx.sample("seed_types", cases[0])
    ctx.run_cases("seed_types", chk_seed_types, cases)


# ====================================================================== chi-square (a TEST, thorough tier only)
def chk_chi2(ctx, case):
    from quara.qcircuit import data_generator as dg
    p = np.array(case["ps"]); n = case["n"]
    if case["path"] == "data":
        data = dg.generate_data_from_prob_dist(p, n, case["seed"])
        cnt = np.bincount(np.array(data, dtype=int), minlength=len(p))
    else:
        cnt = np.rint(dg.generate_empi_dist_sequence_from_prob_dist(p, [n], case["seed"])[0][1] * n)
    pos = p > 0
    chi2 = float((((cnt[pos] - n * p[pos]) ** 2) / (n * p[pos])).sum())
    k = int(pos.sum()) - 1
    bound = k + 12 * math.sqrt(2 * max(k, 1)) + 60          # P(chi2_k > bound) < 1e-12 for k <= 15
    ctx.count("chi2", key=(tuple(case["ps"]), case["seed"], case["path"]), label="test:" + case["path"])
    if chi2 > bound or cnt[~pos].sum() != 0:
        ctx.violation("chi2", "data_generator(%s path)" % case["path"], "distribution-test", "chi2=%.1f with %d dof exceeds the fixed bound %.1f (TEST, not a proof obligation)" % (chi2, k, bound), case)


def sub_chi2(ctx):
    if ctx.quick:
        ctx.note("chi2: thorough tier only (a statistical TEST with fixed seeds and a fixed bound; never a proof obligation)")
        return
    rng = ctx.rng
    cases = []
    for i in range(40):
        ps, _ = rand_probvec(rng)
        ps = [p if p > 1e-6 else 0.0 for p in ps]; s = sum(ps); ps = [p / s for p in ps]
        cases.append({"ps": ps, "n": 20000, "seed": 1000 + i, "path": "data" if i % 2 else "multinomial"})
    ctx.run_cases("chi2", chk_chi2, cases)
    ctx.note("chi2: %d fixed-seed chi-square TESTS run (reported separately from the proof obligations)" % len(cases))


SUBS = [("rn2data", sub_rn2data), ("fallback", sub_fallback), ("gen_data", sub_gen_data), ("empi_seq", sub_empi_seq),
        ("flow", sub_flow), ("exp_hist", sub_exp_hist), ("big_records", sub_big_records), ("seed_types", sub_seed_types), ("chi2", sub_chi2)]
FNS = {"rn2data": chk_rn2data, "fallback": chk_fallback, "gen_data": chk_gen_data, "empi_seq": chk_empi_seq, "flow": chk_flow, "exp_hist": chk_exp_hist, "big_records": chk_big,
       "seed_types": chk_seed_types, "chi2": chk_chi2}


def run(ctx):
    ctx.rule = ("probability vectors with exact zeros, tiny entries, 1..16 outcomes, half of them dyadic (partial sums exact, so boundary "
                "decisions r == cum_i are compared), r at / just below / just above cumulative sums and beyond the accumulated sum; uniform vectors "
                "whose binary64 sum stays below 1 followed / preceded by zero-probability outcomes with r = 1-2^-53; calc_empi_dist_sequence exhaustively on all "
                "data over {-1..m} up to length 3 (4 thorough) x 25 request patterns, random long data and a malformed stream; session histories of "
                "4-9 steps mixing np.random.seed, unrelated global / shared-generator draws, constructors with seed_data, reset_seed and calls with "
                "None / int / numpy-integer / shared-Generator seeds through data_generator, Experiment, MultinomialDistribution and the four tomography classes "
                "(true objects generic, testers with unequal outcome counts); histories of 6-12 operations on one to three Experiment objects "
                "(1-qubit catalogue of 7 states / 4 POVMs / 6 gates / 2 instruments, many circuits deterministic so that exact zeros occur): "
                "construct, generate_* with every seed kind, calc_prob_dist, in-place element replacement (3 of 4 aimed at an element a schedule "
                "uses; the pattern use - replace - use again with the same seed forced in ~1/8 of the steps), list / schedule assignment incl. "
                "rejected ones, copy(), reset_seed_data. non-trivial: decision outside the ambiguity band / a vector with a zero "
                "entry (rn2data), >= 2 members or an error branch (empi_seq), a call that is not the first step (flow), a successful call / calc_prob_dist made after a mutation or on a copy (exp_hist); distinct = distinct input record")
    # _random_number_to_data is additionally REGENERATED from /repo's source by the translator on every run and proved equal to the
    # model rn2data (coq/gen/C14_Equiv.v), so the inversion-sampling theorems hold of the Python text itself
    # calc_empi_dist_sequence, to_stream, Experiment.reset_seed_data / .seed_data and QTomography.reset_seed are REGENERATED by this
    # property's own translator gen/c14_py2coq.py and proved equal to empi_seq / to_stream / reset_seed_data / tomo_reset_seed
    # (coq/gen/C14_Equiv2.v).  Same protocol as flow.standard_run.
    import runner
    ok, info = runner.check_props(ctx)
    before = list(ctx.theorems)
    ok2, info2 = flow.regen_check(ctx, "random_number", "C14_Equiv")
    ctx.theorems = before + [t for t in ctx.theorems if t not in before]
    ctx.obligations += getattr(ctx, "regen_obligations", 0)
    ctx.discharged += getattr(ctx, "regen_discharged", 0)
    ok3, info3 = regen_c14(ctx)
    ctx.widen = set()
    for okx, infox, what, subs in ((ok2, info2, "random_number / C14_Equiv", ("rn2data", "fallback", "gen_data")),
                                   (ok3, info3, "c14_py2coq / C14_Equiv2", ("empi_seq",))):
        if not okx:
            ok, info = False, infox
            ctx.widen.update(subs)          # these sub-checks become the search for a concrete failing input: thorough counts
            ctx.note("regenerated-model obligations (%s) not discharged: %s" % (what, str(infox)[:400]))
    if not ok:
        ctx.discharged = min(ctx.discharged, ctx.obligations - 1)
    for name, fn in SUBS:
        if ctx.only is None or name in ctx.only:
            ctx.cur_sub = name
            fn(ctx)
    ctx.cur_sub = None
    if not ok and not ctx.violations:
        ctx.violation("theorems", "Props/%s.v" % ctx.prop_id, "theorem-broken:%s" % info.get("theorem"),
                      "theorem %s no longer checks: %s" % (info.get("theorem"), info.get("error", "")[-400:]),
                      {"theorem": info.get("theorem"), "error": info.get("error")}, no_input=True)
    elif not ok:
        ctx.note("theorem obligations not discharged: %s" % info)


FUNC_THM = {"calc_empi_dist_sequence": "gen_calc_empi_dist_sequence_eq", "to_stream": "gen_to_stream_eq", "reset_seed_data": "gen_reset_seed_data_eq",
            "seed_data": "gen_seed_data_eq", "reset_seed": "gen_reset_seed_eq",
            "generate_empi_dist_sequence_from_prob_dist": "gen_generate_empi_dist_sequence_eq",
            "generate_empi_dists_sequence_from_prob_dists": "gen_generate_empi_dists_sequence_eq",
            "generate_dataset_from_prob_dists": "gen_generate_dataset_eq", "generate_data_from_prob_dist": "gen_generate_data_eq",
            "execute_random_sampling": "gen_execute_random_sampling_eq", "calc_empi_dists_sequence": "gen_calc_empi_dists_sequence_eq",
            "generate_empi_dist": "gen_tomo_generate_empi_dist_eq", "generate_empi_dists": "gen_tomo_generate_empi_dists_eq",
            "generate_empi_dists_sequence": "gen_tomo_generate_empi_dists_sequence_eq"}


def regen_c14(ctx):
    """translator tie with this property's own translator: regenerate Gallina definitions of calc_empi_dist_sequence, to_stream,
    Experiment.reset_seed_data, Experiment.seed_data and QTomography.reset_seed from the CURRENT source, compile them, re-check
    coq/gen/C14_Equiv2.v (equality with the hand-written models for all inputs; transported theorems).  returns (ok, info)"""
    import os, re, shutil, subprocess, sys
    import runner
    V = runner.V
    scratch = os.path.join(getattr(ctx, "scratch", os.path.join(V, "build", ctx.prop_id)), "gen2")
    os.makedirs(scratch, exist_ok=True)
    gen_v = os.path.join(scratch, "Gen_c14.v")
    equiv = os.path.join(V, "coq", "gen", "C14_Equiv2.v")
    src = open(equiv).read()
    src_nc = re.sub(r"\(\*.*?\*\)", " ", src, flags=re.S)
    thms = re.findall(r"^\s*Theorem\s+([\w']+)", src_nc, flags=re.M)
    ctx.theorems = list(ctx.theorems) + [t for t in thms if t not in ctx.theorems]
    ctx.obligations += len(thms)
    r = subprocess.run([sys.executable, os.path.join(V, "gen", "c14_py2coq.py"), os.environ.get("VERIF_REPO", "/repo"),
                        os.path.join(V, "gen", "c14_signatures.json"), gen_v], capture_output=True, text=True, timeout=120)
    if r.returncode != 0:
        msg = (r.stdout + r.stderr)[-600:]
        fm = re.search(r"in function (\w+) ", msg)
        thm = FUNC_THM.get(fm.group(1), thms[0]) if fm else thms[0]
        return False, {"theorem": thm, "error": "translator rejected the source (outside its subset): " + msg}
    q = ["-Q", os.path.join(V, "coq", "theories"), "QV", "-Q", scratch, "QVGen2"]
    r = subprocess.run(["timeout", "300", "coqc"] + q + [gen_v], capture_output=True, text=True)
    if r.returncode != 0:
        return False, {"theorem": thms[0], "error": "regenerated definitions do not compile: " + (r.stdout + r.stderr)[-600:]}
    dst = os.path.join(scratch, "C14_Equiv2.v")
    shutil.copy(equiv, dst)
    r = subprocess.run(["timeout", "600", "coqc"] + q + [dst], capture_output=True, text=True)
    out = r.stdout + r.stderr
    if r.returncode != 0:
        m_ = re.search(r"line (\d+), characters", out)
        thm = None
        if m_:
            upto = "\n".join(src.splitlines()[:int(m_.group(1))])
            names = re.findall(r"^\s*(?:Theorem|Lemma)\s+([\w']+)", upto, flags=re.M)
            thm = names[-1] if names else None
        return False, {"theorem": thm, "error": out[-800:]}
    blocks = runner.parse_assumptions(out)
    bad = [a for closed, axs in blocks for a in axs if a not in runner.ALLOWED_AXIOMS and a.split(".")[-1] not in runner.ALLOWED_AXIOMS]
    if len(blocks) != len(thms) or bad:
        return False, {"theorem": thms[0], "error": "assumption gate on regenerated proofs: %d blocks / %d theorems, disallowed %s" % (len(blocks), len(thms), bad)}
    for t, (closed, axs) in zip(thms, blocks):
        ctx.axioms[t] = "closed" if closed else sorted(set(axs))
    ctx.discharged += len(thms)
    return True, {}


def replay(ctx, doc):
    sub = doc["sub"]
    case = doc["case"]
    if isinstance(case, dict) and "traceback" in case and "case" in case:
        case = case["case"]
    if sub == "empi_seq" and isinstance(case, dict) and "ms" in case:
        ctx.run_cases(sub, chk_empi_seqs, [case]); return
    if sub == "empi_seq" and isinstance(case, dict) and "patterns" in case:
        ctx.run_cases(sub, chk_empi_short, [case]); return
    flow.standard_replay(ctx, doc, FNS)
