"""C13 — results depend only on arguments: no hidden state, no operand mutation.

Sub-checks
  cache    CompositeSystem lazy tables: random get/delete sequences, the Coq cache machine (c13.cache_run) is
           executed alongside and compared with the private attributes (None/filled AND object identity), every
           returned table is compared with the table of a fresh system (the invariant of the theorem)
  heap     MProcess.calc_proj_eq_constraint_with_var / convert_var_to_hss against the array-heap model: result,
           contents of the ARGUMENT afterwards, aliasing (buffer, offset); other *_with_var functions: argument untouched
  basis    matrix bases are not writable, copies are independent of their originals
  loss     loss / algorithm objects re-configured over several datasets and weighting modes: the Coq configuration
           machines predict which dataset / weights / projection are in effect; compared numerically (c13.loss_value,
           c13.invw) and against fresh objects (history independence)
  witness  the witnesses of the ..._refuted theorems replayed on the implementation
  history  random interleavings over a shared pool of objects of all types; every result is compared with the same
           call on fresh deep copies in a fresh world, byte snapshots of every pool object before/after
"""
import copy, hashlib, random, warnings, itertools
from fractions import Fraction
import numpy as np
from common import flow

LEVEL = "proof"
TOL = 1e-10

# ------------------------------------------------------------------------------------------------ sites of known defect classes
S_GENERIC = "WeightedProbabilityBasedSquaredError._set_weights_by_mode"
S_FAST = "StandardQTomographyBasedWeightedProbabilityBasedSquaredError._calc_extend_weight_matrix"
S_ALGO = "ProjectedGradientDescent.set_constraint_from_standard_qt_and_option"
S_MPROC = "MProcess.calc_proj_eq_constraint_with_var"
S_SPARSE = "SparseMatrixBasis.__init__"


def q():
    """lazy import of quara (after the shim is on the path)"""
    import quara.objects.composite_system as cs, quara.objects.elemental_system as es, quara.objects.matrix_basis as mb
    import quara.objects.state as st, quara.objects.povm as pv, quara.objects.gate as gt, quara.objects.mprocess as mp
    import quara.objects.operators as op, quara.objects.multinomial_distribution as md, quara.objects.state_ensemble as se
    from quara.settings import Settings
    return dict(cs=cs, es=es, mb=mb, st=st, pv=pv, gt=gt, mp=mp, op=op, md=md, se=se, Settings=Settings)


# ------------------------------------------------------------------------------------------------ values, snapshots
def canon(x):
    """value of anything an operation can return, as nested python/numpy data (no object identity)"""
    import scipy.sparse as sp
    Q = q()
    if x is None or isinstance(x, (bool, str)):
        return x
    if isinstance(x, (np.bool_,)):
        return bool(x)
    if isinstance(x, (int, np.integer)):
        return int(x)
    if isinstance(x, (float, np.floating)):
        return float(x)
    if isinstance(x, (complex, np.complexfloating)):
        return complex(x)
    if isinstance(x, np.ndarray):
        return np.array(x)
    if sp.issparse(x):
        return np.asarray(x.toarray())
    if isinstance(x, BaseException):
        return ("exc", type(x).__name__)
    if isinstance(x, dict):
        return ("dict", [(repr(k), canon(v)) for k, v in sorted(x.items(), key=lambda kv: repr(kv[0]))])
    if isinstance(x, (list, tuple)):
        return [canon(v) for v in x]
    if isinstance(x, (Q["st"].State, Q["pv"].Povm, Q["gt"].Gate, Q["mp"].MProcess)):
        fr = freeze(x, None)
        return ("obj", fr["k"], [canon(a) for a in fr["arrs"]], list(fr["cfg"]), fr.get("shape"))
    if isinstance(x, Q["md"].MultinomialDistribution):
        return ("md", np.array(x.ps), list(x.shape))
    if isinstance(x, Q["se"].StateEnsemble):
        return ("ens", [canon(s) for s in x.states], canon(x.prob_dist))
    if isinstance(x, Q["mb"].Basis):
        return ("basis", [canon(b) for b in x])
    if hasattr(x, "estimated_var_sequence"):
        return ("est", [np.array(v) for v in x.estimated_var_sequence])
    return ("repr", type(x).__name__)


def same(a, b, tol=TOL):
    if isinstance(a, np.ndarray) or isinstance(b, np.ndarray):
        if not (isinstance(a, np.ndarray) and isinstance(b, np.ndarray)) or a.shape != b.shape:
            return False
        if a.dtype == object or b.dtype == object:
            return a.tolist() == b.tolist()
        return bool(np.allclose(a, b, rtol=tol, atol=tol, equal_nan=True))
    if isinstance(a, (list, tuple)) and isinstance(b, (list, tuple)):
        return len(a) == len(b) and all(same(x, y, tol) for x, y in zip(a, b))
    if isinstance(a, bool) or isinstance(b, bool) or a is None or b is None or isinstance(a, str) or isinstance(b, str):
        return type(a) == type(b) and a == b
    if isinstance(a, (int, float, complex)) and isinstance(b, (int, float, complex)):
        if a != a and b != b:
            return True
        return abs(a - b) <= tol * (1 + max(abs(a), abs(b)))
    return a == b


def _feed(h, c):
    if isinstance(c, np.ndarray):
        h.update(b"nd"); h.update(str(c.dtype).encode()); h.update(repr(c.shape).encode()); h.update(np.ascontiguousarray(c).tobytes())
    elif isinstance(c, (list, tuple)):
        h.update(b"[")
        for v in c:
            _feed(h, v)
        h.update(b"]")
    else:
        h.update(repr(c).encode())


def digest(x):
    """byte-level fingerprint of the observable value of x"""
    h = hashlib.sha1()
    _feed(h, canon(x))
    return h.hexdigest()


CFG = ("is_physicality_required", "is_estimation_object", "on_para_eq_constraint", "on_algo_eq_constraint",
       "on_algo_ineq_constraint", "mode_proj_order", "eps_proj_physical", "eps_truncate_imaginary_part")


def freeze(o, csid):
    """deep value copy of a QOperation / array, independent of the object"""
    Q = q()
    if isinstance(o, np.ndarray):
        return {"k": "nd", "a": np.array(o)}
    cfg = tuple(getattr(o, a) for a in CFG)
    if isinstance(o, Q["st"].State):
        return {"k": "State", "cs": csid, "arrs": [np.array(o.vec)], "cfg": cfg}
    if isinstance(o, Q["gt"].Gate):
        return {"k": "Gate", "cs": csid, "arrs": [np.array(o.hs)], "cfg": cfg}
    if isinstance(o, Q["pv"].Povm):
        return {"k": "Povm", "cs": csid, "arrs": [np.array(v) for v in o.vecs], "cfg": cfg}
    if isinstance(o, Q["mp"].MProcess):
        return {"k": "MProcess", "cs": csid, "arrs": [np.array(v) for v in o.hss], "cfg": cfg, "shape": tuple(o.shape)}
    raise TypeError("cannot freeze %s" % type(o))


def thaw(fr, world):
    Q = q()
    if fr["k"] == "nd":
        return np.array(fr["a"])
    c = world.csys(fr["cs"])
    kw = dict(zip(CFG, fr["cfg"]))
    arrs = [np.array(a) for a in fr["arrs"]]
    if fr["k"] == "State":
        return Q["st"].State(c, arrs[0], **kw)
    if fr["k"] == "Gate":
        return Q["gt"].Gate(c, arrs[0], **kw)
    if fr["k"] == "Povm":
        return Q["pv"].Povm(c, arrs, **kw)
    if fr["k"] == "MProcess":
        return Q["mp"].MProcess(c, arrs, shape=fr["shape"], **kw)
    raise TypeError(fr["k"])


class World:
    """elemental systems 0, 1 (qubits, normalised Pauli) and 2 (qutrit, normalised Gell-Mann); composite systems
    by id = (names, instance).  A fresh World shares nothing with any other."""

    def __init__(self):
        self.es = {}
        self.cs = {}

    def esys(self, n):
        if n not in self.es:
            Q = q()
            b = Q["mb"].get_normalized_gell_mann_basis() if n == 2 else Q["mb"].get_normalized_pauli_basis()
            self.es[n] = Q["es"].ElementalSystem(n, b)
        return self.es[n]

    def csys(self, csid):
        csid = (tuple(csid[0]), csid[1])
        if csid not in self.cs:
            self.cs[csid] = q()["cs"].CompositeSystem([self.esys(n) for n in csid[0]])
        return self.cs[csid]

    def register(self, c):
        for k, v in self.cs.items():
            if v is c:
                return k
        names = tuple(e.name for e in c.elemental_systems)
        k = (names, 1 + max([i for (nm, i) in self.cs if nm == names] + [0]))
        self.cs[k] = c
        return k


# ------------------------------------------------------------------------------------------------ cache machine
SLOTS = ["_basis_basisconjugate", "_dict_from_hs_to_choi", "_dict_from_choi_to_hs", "_basis_T_sparse",
         "_basisconjugate_sparse", "_basisconjugate_basis_sparse", "_basis_basisconjugate_T_sparse",
         "_basis_basisconjugate_T_sparse_from_1", "_basishermitian_basis_T_from_1"]
GETTERS = [lambda c: (c.basis_basisconjugate(0), c._basis_basisconjugate)[1], lambda c: c.dict_from_hs_to_choi,
           lambda c: c.dict_from_choi_to_hs, lambda c: c.basis_T_sparse, lambda c: c.basisconjugate_sparse,
           lambda c: c.basisconjugate_basis_sparse, lambda c: c.basis_basisconjugate_T_sparse,
           lambda c: c.basis_basisconjugate_T_sparse_from_1, lambda c: c.basishermitian_basis_T_from_1]
DELETERS = [None] + ["delete" + s for s in SLOTS[1:]]
# slots read by the conversion functions (read from the source; used to run the machine alongside mixed histories)
TOUCH = {"gate.to_choi": [0], "gate.to_choi_dict": [1], "gate.to_choi_sparse": [6], "hs_from_choi": [0],
         "hs_from_choi_dict": [2], "hs_from_choi_sparse": [5], "state.density_sparse": [3], "state.vec_from_density": [4]}


class CacheTracker:
    """runs the Coq cache machine next to one CompositeSystem and compares after every operation"""

    def __init__(self, ctx, c, sub, label):
        self.ctx, self.c, self.sub, self.label = ctx, c, sub, label
        self.keep = []                       # every table object ever seen, kept alive so that ids stay unique
        self.gen_of = {}                     # id(obj) -> model generation
        self.gens = [-1] * 9
        self.tick = 0
        for i, s in enumerate(SLOTS):        # adopt the current state (normally all None)
            o = getattr(c, s)
            if o is not None:
                self.gens[i] = self.tick; self.gen_of[id(o)] = self.tick; self.keep.append(o); self.tick += 1

    def apply(self, codes, what, case):
        """codes: model ops just performed on the implementation. returns False on disagreement"""
        m = self.ctx.get_model()
        out = [int(v) for v in m.call("c13.cache_run", self.gens + [self.tick] + list(codes))]
        new_gens, new_tick = out[-10:-1], out[-1]
        ok = True
        for i, s in enumerate(SLOTS):
            o = getattr(self.c, s)
            g = new_gens[i]
            if (o is None) != (g < 0):
                self.ctx.violation(self.sub, "CompositeSystem." + s, "cache-model-mismatch:filled",
                                   "%s after %s: attribute is %s, cache machine says %s" % (self.label, what, "None" if o is None else "filled", "None" if g < 0 else "filled"), case)
                ok = False
                continue
            if o is None:
                continue
            known = self.gen_of.get(id(o))
            if known is None:
                # a new object: the model must have assigned a generation that did not exist before
                if g < self.tick:
                    self.ctx.violation(self.sub, "CompositeSystem." + s, "cache-model-mismatch:identity",
                                       "%s after %s: attribute holds a NEW object, cache machine says it is the old one (generation %d)" % (self.label, what, g), case)
                    ok = False
                self.gen_of[id(o)] = g; self.keep.append(o)
            elif known != g:
                self.ctx.violation(self.sub, "CompositeSystem." + s, "cache-model-mismatch:identity",
                                   "%s after %s: attribute holds the object of generation %d, cache machine says %d" % (self.label, what, known, g), case)
                ok = False
        self.gens, self.tick = new_gens, new_tick
        return ok


_FRESH_TABLES = {}


def fresh_table(names, i):
    """digest of table i as built by a fresh CompositeSystem over fresh elemental systems (memoised per run)"""
    key = (tuple(names), i)
    if key not in _FRESH_TABLES:
        w = World()
        c = w.csys((tuple(names), 0))
        _FRESH_TABLES[key] = digest(GETTERS[i](c))
    return _FRESH_TABLES[key]


def check_cache_invariant(ctx, sub, c, names, what, case):
    """the invariant of C13_cache_invariant on the private attributes: None or equal to what a fresh system builds"""
    ok = True
    for i, s in enumerate(SLOTS):
        o = getattr(c, s)
        if o is not None and digest(o) != fresh_table(names, i):
            ctx.violation(sub, "CompositeSystem." + s, "stale-or-corrupted-table",
                          "after %s the cached table differs from the table a fresh system builds" % what, case)
            ok = False
    return ok


def chk_cache(ctx, case):
    rng = random.Random(case["seed"])
    names = tuple(case["names"])
    w = World()
    c = w.csys((names, 0))
    tr = CacheTracker(ctx, c, "cache", "system %s" % (names,))
    basis_before = digest(c.basis())
    ops = case.get("ops")
    if ops is None:
        ops = []
        for _ in range(case["length"]):
            r = rng.random()
            i = rng.randrange(9)
            if r < 0.5:
                ops.append(i)
            elif r < 0.9:
                ops.append(16 + (i if i > 0 else rng.randrange(1, 9)))
            else:
                ops.append(32 + rng.randrange(len(TOUCH)))       # a conversion function that reads a table
        case = dict(case, ops=ops)
    tkeys = sorted(TOUCH)
    nontriv = len(set(o % 16 for o in ops if o < 16)) >= 2 and any(16 <= o < 32 for o in ops)
    for k, o in enumerate(ops):
        if o < 16:
            val = GETTERS[o](c)
            okv = digest(val) == fresh_table(names, o)
            if not okv:
                ctx.violation("cache", "CompositeSystem." + SLOTS[o], "history-dependent",
                              "getter after history %s returns a table different from a fresh system's" % ops[:k + 1], dict(case, ops=ops[:k + 1]))
            codes = [o]
        elif o < 32:
            getattr(c, DELETERS[o - 16])()
            codes = [o]
        else:
            name = tkeys[o - 32]
            try:
                run_touch(c, name)
            except ValueError:
                pass                                  # truncate_hs may reject the generic input; the table was read before
            codes = TOUCH[name]
        tr.apply(codes, "op %d of %s" % (k, ops), dict(case, ops=ops[:k + 1]))
        check_cache_invariant(ctx, "cache", c, names, "history %s" % ops[:k + 1], dict(case, ops=ops[:k + 1]))
    if digest(c.basis()) != basis_before:
        ctx.violation("cache", "CompositeSystem.basis", "mutates-operand", "basis changed by cache operations", case)
    ctx.count("cache", key=(names, tuple(ops)), nontrivial=nontriv, label="%s len%d" % ("x".join(map(str, names)), len(ops)))


def run_touch(c, name):
    Q = q()
    d = c.dim
    rs = np.random.RandomState(5)
    hs = rs.randint(-3, 4, size=(d * d, d * d)).astype(np.float64)
    choi = hs + 1j * rs.randint(-3, 4, size=(d * d, d * d))
    if name == "gate.to_choi":
        return Q["gt"].to_choi_from_hs(c, hs)
    if name == "gate.to_choi_dict":
        return Q["gt"].to_choi_from_hs_with_dict(c, hs)
    if name == "gate.to_choi_sparse":
        return Q["gt"].to_choi_from_hs_with_sparsity(c, hs)
    if name == "hs_from_choi":
        return Q["gt"].to_hs_from_choi(c, choi)
    if name == "hs_from_choi_dict":
        return Q["gt"].to_hs_from_choi_with_dict(c, choi)
    if name == "hs_from_choi_sparse":
        return Q["gt"].to_hs_from_choi_with_sparsity(c, choi)
    if name == "state.density_sparse":
        return Q["st"].to_density_matrix_from_vec(c, np.arange(d * d, dtype=np.float64))
    if name == "state.vec_from_density":
        return Q["st"].to_vec_from_density_matrix_with_sparsity(c, np.eye(d, dtype=np.complex128) / d)
    raise KeyError(name)


def sub_cache(ctx):
    cases = []
    for k in range(ctx.n(40, 400)):
        r = ctx.rng.random()
        names = (0,) if r < 0.6 else ((2,) if r < 0.8 else (0, 1))
        cases.append({"seed": ctx.rng.randrange(1 << 30), "names": list(names), "length": ctx.rng.randint(4, ctx.n(12, 40))})
    ctx.sample("cache", cases[0])
    ctx.run_cases("cache", chk_cache, cases)


# ------------------------------------------------------------------------------------------------ heap model
def chk_heap(ctx, case):
    Q = q()
    m = ctx.get_model()
    w = World()
    c = w.csys(((case["sys"],), 0))
    d2 = c.dim ** 2
    on_para = bool(case["on_para"])
    var = np.array([float(Fraction(x)) for x in case["var"]], dtype=np.float64)
    before = var.copy()
    key = (case["sys"], on_para, tuple(case["var"]), case["fn"])
    if case["fn"] == "proj_eq":
        st, val = m.try_call("c13.mp_proj_eq", [d2, int(on_para), 0], [float(x) for x in before])
        try:
            res = Q["mp"].MProcess.calc_proj_eq_constraint_with_var(c, var, on_para_eq_constraint=on_para)
            impl = ("ok", res)
        except Exception as e:
            impl = ("err", type(e).__name__)
        ctx.count("heap", key=key, nontrivial=(st == "ok" and len(before) >= 2 * d2 * d2 - d2), label="proj_eq on_para=%s %s" % (on_para, st))
        if st == "err" or impl[0] == "err":
            if (st == "err") != (impl[0] == "err"):
                ctx.violation("heap", S_MPROC, "heap-model-mismatch:error", "model %s, implementation %s" % ((st, val), impl), case)
            return
        n = int(val[1]); res_m = [float(x) for x in val[2:2 + n]]; arg_m = [float(x) for x in val[2 + n:]]
        if not flow.allclose(list(res), res_m, 1e-9):
            ctx.violation("heap", S_MPROC, "heap-model-mismatch:value", "result differs from the model: %s vs %s" % (list(res)[:6], res_m[:6]), case)
        if not flow.allclose(list(var), arg_m, 1e-9):
            ctx.violation("heap", S_MPROC, "heap-model-mismatch:argument-contents",
                          "contents of the argument after the call differ from the heap model: %s vs %s" % (list(var)[:6], arg_m[:6]), case)
        if np.shares_memory(res, var) != (int(val[0]) == 0):
            ctx.violation("heap", S_MPROC, "heap-model-mismatch:aliasing", "result aliasing differs from the model", case)
        if not np.array_equal(var, before):
            ctx.violation("heap", S_MPROC, "mutates-argument",
                          "calc_proj_eq_constraint_with_var(on_para_eq_constraint=%s) overwrote its argument: %s -> %s" % (on_para, [round(float(x), 6) for x in before[:5]], [round(float(x), 6) for x in var[:5]]), case)
        # the fixed model describes the meaning: same result, argument untouched
        valx = m.call("c13.mp_proj_eq", [d2, int(on_para), 1], [float(x) for x in before])
        if not flow.allclose([float(x) for x in valx[2:2 + n]], res_m, 1e-12):
            ctx.violation("heap", S_MPROC, "heap-model-mismatch:fixed-model", "fixed and faithful model return different values", case)
    elif case["fn"] == "var_to_hss":
        st, val = m.try_call("c13.mp_var_to_hss", [d2, int(on_para)], [float(x) for x in before])
        try:
            hss = Q["mp"].convert_var_to_hss(c, var, on_para_eq_constraint=on_para); impl = ("ok", hss)
        except Exception as e:
            impl = ("err", type(e).__name__)
        ctx.count("heap", key=key, nontrivial=(st == "ok"), label="var_to_hss on_para=%s %s" % (on_para, st))
        if st == "err" or impl[0] == "err":
            if (st == "err") != (impl[0] == "err"):
                ctx.violation("heap", "mprocess.convert_var_to_hss", "heap-model-mismatch:error", "model %s, implementation %s" % ((st, val), impl), case)
            return
        n = int(val[0])
        if n != len(hss):
            ctx.violation("heap", "mprocess.convert_var_to_hss", "heap-model-mismatch:value", "number of HS %d vs %d" % (len(hss), n), case); return
        vals = [float(x) for x in val[1 + 2 * n:]]
        flat = [float(x) for h in hss for x in np.asarray(h).ravel()]
        if not flow.allclose(flat, vals, 1e-9):
            ctx.violation("heap", "mprocess.convert_var_to_hss", "heap-model-mismatch:value", "values differ", case)
        base = var.__array_interface__["data"][0]
        for k, h in enumerate(hss):
            mbuf, moff = int(val[1 + 2 * k]), int(val[2 + 2 * k])
            alias = np.shares_memory(h, var)
            if alias != (mbuf == 0):
                ctx.violation("heap", "mprocess.convert_var_to_hss", "heap-model-mismatch:aliasing", "hs %d aliasing %s, model buffer %d" % (k, alias, mbuf), case)
            elif alias and (h.__array_interface__["data"][0] - base) != 8 * moff:
                ctx.violation("heap", "mprocess.convert_var_to_hss", "heap-model-mismatch:offset", "hs %d offset differs from model" % k, case)
        if not np.array_equal(var, before):
            ctx.violation("heap", "mprocess.convert_var_to_hss", "mutates-argument", "argument changed", case)
    else:
        # every other *_with_var / convert function: the argument must be untouched and the call repeatable
        cls = {"State": Q["st"].State, "Povm": Q["pv"].Povm, "Gate": Q["gt"].Gate, "MProcess": Q["mp"].MProcess}[case["cls"]]
        f = getattr(cls, case["fn"])
        kw = {"on_para_eq_constraint": on_para}
        try:
            r1 = canon(f(c, var, **kw))
        except Exception as e:
            r1 = canon(e)
        mutated = not np.array_equal(var, before)
        try:
            r2 = canon(f(World().csys(((case["sys"],), 0)), before.copy(), **kw))
        except Exception as e:
            r2 = canon(e)
        ctx.count("heap", key=key + (case["cls"],), nontrivial=not (isinstance(r1, tuple) and r1[0] == "exc"), label="%s.%s" % (case["cls"], case["fn"]))
        site = "%s.%s" % (case["cls"], case["fn"])
        if mutated:
            ctx.violation("heap", site, "mutates-argument", "argument overwritten (on_para_eq_constraint=%s)" % on_para, case)
        if not same(r1, r2):
            ctx.violation("heap", site, "history-dependent", "second call on a copy in a fresh world gives another result", case)


def var_len(cls, d, on_para, m):
    d2 = d * d
    if cls == "State":
        return d2 - 1 if on_para else d2
    if cls == "Gate":
        return d2 * d2 - d2 if on_para else d2 * d2
    if cls == "Povm":
        return (m - 1) * d2 if on_para else m * d2
    return m * d2 * d2 - d2 if on_para else m * d2 * d2


def rvec(rng, n):
    return ["%d/10" % rng.randint(-12, 12) for _ in range(n)]


def sub_heap(ctx):
    rng = ctx.rng
    cases = []
    for _ in range(ctx.n(30, 300)):
        sysn = 0 if rng.random() < 0.85 or ctx.quick else 2
        d = 3 if sysn == 2 else 2
        on_para = rng.random() < 0.5
        m = rng.randint(1, 3) if d == 2 else 2
        n = var_len("MProcess", d, on_para, m)
        if rng.random() < 0.1:
            n += rng.choice([-1, 1, 3])            # malformed length
        cases.append({"fn": rng.choice(["proj_eq", "proj_eq", "var_to_hss"]), "sys": sysn, "on_para": int(on_para), "var": rvec(rng, max(n, 0))})
    for _ in range(ctx.n(30, 300)):
        cls = rng.choice(["State", "Povm", "Gate", "MProcess"])
        fn = rng.choice(["calc_proj_eq_constraint_with_var", "calc_proj_ineq_constraint_with_var", "convert_var_to_stacked_vector", "convert_stacked_vector_to_var"])
        if cls == "MProcess" and fn == "calc_proj_eq_constraint_with_var":
            continue
        on_para = rng.random() < 0.5
        m = rng.randint(2, 3)
        n = var_len(cls, 2, on_para if fn != "convert_stacked_vector_to_var" else False, m)
        cases.append({"fn": fn, "cls": cls, "sys": 0, "on_para": int(on_para), "var": rvec(rng, n)})
    ctx.sample("heap", cases[0])
    ctx.run_cases("heap", chk_heap, cases)


# ------------------------------------------------------------------------------------------------ bases, copies
def chk_basis(ctx, case):
    Q = q()
    mb = Q["mb"]
    kind = case["kind"]
    if kind == "getter":
        b = getattr(mb, case["name"])(*case.get("args", []))
        site = "matrix_basis." + case["name"]
    else:
        w = World()
        c = w.csys((tuple(case["names"]), 0))
        b = c.basis() if kind == "csys" else w.esys(case["names"][0]).basis
        site = S_SPARSE if type(b) is mb.SparseMatrixBasis else "MatrixBasis.__init__"
    ctx.count("basis", key=repr(case), label=type(b).__name__)
    if not isinstance(b.basis, tuple):
        ctx.violation("basis", site, "container-mutable", "basis container is %s, not a tuple" % type(b.basis).__name__, case)
    before = digest(b)
    writable = []
    for i, e in enumerate(b):
        arr = e if isinstance(e, np.ndarray) else e.data
        if arr.flags.writeable:
            writable.append(i)
        try:
            if isinstance(e, np.ndarray):
                e[0, 0] = e[0, 0] + 1.0
            else:
                e.data[0] = e.data[0] + 1.0
        except (ValueError, TypeError, RuntimeError):
            pass
    changed = digest(b) != before
    if writable or changed:
        ctx.violation("basis", site, "elements-writable",
                      "elements %s of the %s are writable; an in-place write %s the basis" % (writable[:4], type(b).__name__, "changed" if changed else "did not change"), case)
    if kind == "csys" and changed:
        # consequence (C13_cache_needs_immutable_basis_refuted): tables built afterwards differ from a fresh system's
        bad = [SLOTS[i] for i in (3, 6) if digest(GETTERS[i](c)) != fresh_table(tuple(case["names"]), i)]
        if bad:
            ctx.note("writable sparse basis: after an in-place write the tables %s differ from a fresh system's (replays C13_cache_needs_immutable_basis_refuted)" % bad)


def chk_copy(ctx, case):
    """copies are independent of their originals: no shared memory, writing into the copy leaves the original alone"""
    rng = random.Random(case["seed"])
    w = World()
    pool = make_pool(w, rng)
    for key, ent in pool.items():
        o = ent["obj"]
        if ent["kind"] not in ("State", "Gate", "Povm", "MProcess"):
            continue
        before = digest(o)
        for how in ("copy", "deepcopy"):
            cp = o.copy() if how == "copy" else copy.deepcopy(o)
            site = "%s.%s" % (ent["kind"], how)
            ctx.count("copy", key=(case["seed"], key, how), label=site)
            if digest(cp) != before:
                ctx.violation("copy", site, "value", "copy differs from the original", dict(case, key=key)); continue
            fo, fc = freeze(o, None)["arrs"], None
            arrs_o = [o.vec] if ent["kind"] == "State" else [o.hs] if ent["kind"] == "Gate" else list(o.vecs) if ent["kind"] == "Povm" else list(o.hss)
            arrs_c = [cp.vec] if ent["kind"] == "State" else [cp.hs] if ent["kind"] == "Gate" else list(cp.vecs) if ent["kind"] == "Povm" else list(cp.hss)
            if any(np.shares_memory(a, b) for a in arrs_o for b in arrs_c):
                ctx.violation("copy", site, "shares-memory", "copy shares an array with the original", dict(case, key=key)); continue
            for a in arrs_c:
                if a.flags.writeable:
                    a += 1.0
            if digest(o) != before:
                ctx.violation("copy", site, "not-independent", "writing into the copy changed the original", dict(case, key=key))
            if how == "copy" and cp.composite_system is not o.composite_system:
                ctx.violation("copy", site, "value", "copy lives on another composite system", dict(case, key=key))


def sub_basis(ctx):
    cases = [{"kind": "getter", "name": n, "args": a} for n, a in
             [("get_comp_basis", [2]), ("get_comp_basis", [3]), ("get_pauli_basis", [1]), ("get_normalized_pauli_basis", [1]),
              ("get_normalized_pauli_basis", [2]), ("get_hermitian_basis", [3]), ("get_normalized_hermitian_basis", [2]),
              ("get_gell_mann_basis", []), ("get_normalized_gell_mann_basis", []), ("get_generalized_gell_mann_basis", [1, 3]),
              ("get_normalized_generalized_gell_mann_basis", [1, 3])]]
    cases += [{"kind": "esys", "names": [0]}, {"kind": "esys", "names": [2]},
              {"kind": "csys", "names": [0]}, {"kind": "csys", "names": [2]}, {"kind": "csys", "names": [0, 1]}]
    ctx.sample("basis", cases[-1])
    ctx.run_cases("basis", chk_basis, cases)
    cc = [{"seed": ctx.rng.randrange(1 << 30)} for _ in range(ctx.n(3, 30))]
    ctx.run_cases("copy", chk_copy, cc)


# ------------------------------------------------------------------------------------------------ pool of objects
def fr10(rng, lo=-9, hi=9):
    return rng.randint(lo, hi) / 10.0


def make_pool(world, rng):
    """objects of all types on qubit systems 0 and 1 and the qutrit system 2, from small rationals; a mixture of
    physical and non-physical ones (is_physicality_required False so that arithmetic results are admissible)"""
    Q = q()
    pool = {}
    s2 = 1 / np.sqrt(2)

    def add(key, kind, obj, csid, **meta):
        pool[key] = dict(kind=kind, obj=obj, csid=csid, **meta)

    def rgate():
        hs = np.eye(4)
        M = np.array([[fr10(rng) for _ in range(3)] for _ in range(3)]) * 0.5
        hs[1:, 1:] = M
        hs[1:, 0] = [fr10(rng, -3, 3) * 0.5 for _ in range(3)]
        if rng.random() < 0.3:
            hs[0, 1:] = [fr10(rng, -2, 2) for _ in range(3)]       # not trace preserving
        return hs

    for n in (0, 1):
        cid = ((n,), 0)
        c = world.csys(cid)
        for k in range(2):
            r = np.array([fr10(rng), fr10(rng), fr10(rng)])
            if k == 0 and np.linalg.norm(r) > 0.95:
                r = r / (2 * np.linalg.norm(r))
            vec = s2 * np.concatenate([[1.0 if rng.random() < 0.8 else 1.2], r])
            add("S%d%d" % (n, k), "State", Q["st"].State(c, vec, is_physicality_required=False, is_estimation_object=bool(k)), cid)
        for k in range(2):
            add("G%d%d" % (n, k), "Gate", Q["gt"].Gate(c, rgate(), is_physicality_required=False, is_estimation_object=bool(k)), cid)
        m = 2 + (n + rng.randint(0, 1)) % 2
        a = [0.5, 0.25, 0.25][:m] if m == 3 else [0.6, 0.4]
        ns = [np.array([fr10(rng), fr10(rng), fr10(rng)]) for _ in range(m - 1)]
        ns.append(-sum(ai * ni for ai, ni in zip(a, ns)) / a[-1])
        vecs = [np.sqrt(2) * ai * np.concatenate([[1.0], ni]) for ai, ni in zip(a, ns)]
        add("P%d0" % n, "Povm", Q["pv"].Povm(c, vecs, is_physicality_required=False), cid)
        mo = 2 if n == 0 else 3
        ps = [0.7, 0.3] if mo == 2 else [0.5, 0.3, 0.2]
        hss = [p * rgate() for p in ps]
        add("M%d0" % n, "MProcess", Q["mp"].MProcess(c, hss, is_physicality_required=False), cid)
        for cls in ("State", "Gate", "Povm", "MProcess"):
            for on_para in (True, False):
                mm = {"Povm": m, "MProcess": mo}.get(cls, 1)
                v = np.array([fr10(rng, -12, 12) for _ in range(var_len(cls, 2, on_para, mm))])
                add("V%d%s%d" % (n, cls[0], on_para), "var", v, cid, cls=cls, on_para=on_para)
    cid = ((2,), 0)
    c = world.csys(cid)
    for k in range(2):
        vec = np.concatenate([[1 / np.sqrt(3)], [fr10(rng, -4, 4) * 0.5 for _ in range(8)]])
        add("S2%d" % k, "State", Q["st"].State(c, vec, is_physicality_required=False), cid)
    e0 = np.zeros(9); e0[0] = np.sqrt(3)
    dv = np.array([0.0] + [fr10(rng, -3, 3) * 0.5 for _ in range(8)])
    add("P20", "Povm", Q["pv"].Povm(c, [0.5 * e0 + dv, 0.5 * e0 - dv], is_physicality_required=False), cid)
    hs = np.eye(9) * 0.8; hs[0, 0] = 1.0; hs[1:, 0] = [fr10(rng, -2, 2) * 0.1 for _ in range(8)]
    add("G20", "Gate", Q["gt"].Gate(c, hs, is_physicality_required=False), cid)
    return pool


# ------------------------------------------------------------------------------------------------ operations of histories
def _cls(Q, name):
    return {"State": Q["st"].State, "Povm": Q["pv"].Povm, "Gate": Q["gt"].Gate, "MProcess": Q["mp"].MProcess}[name]


UNARY = {
    "State": ["to_density_matrix", "to_density_matrix_with_sparsity", "is_physical", "to_var", "to_stacked_vector",
              "calc_proj_eq_constraint", "calc_proj_ineq_constraint", "calc_proj_physical", "copy", "generate_zero_obj",
              "generate_origin_obj", "is_eq_constraint_satisfied", "is_ineq_constraint_satisfied", "calc_eigenvalues", "is_hermitian",
              "is_trace_one", "is_positive_semidefinite"],
    "Gate": ["to_choi_matrix", "to_choi_matrix_with_dict", "to_choi_matrix_with_sparsity", "to_kraus_matrices", "to_process_matrix",
             "is_tp", "is_cp", "is_physical", "to_var", "to_stacked_vector", "calc_proj_eq_constraint", "calc_proj_ineq_constraint",
             "calc_proj_physical", "copy", "generate_zero_obj", "generate_origin_obj", "convert_to_comp_basis"],
    "Povm": ["matrices", "is_physical", "is_identity_sum", "is_positive_semidefinite", "to_var", "to_stacked_vector",
             "calc_proj_eq_constraint", "calc_proj_ineq_constraint", "calc_proj_physical", "copy", "generate_zero_obj",
             "generate_origin_obj", "calc_eigenvalues", "is_hermitian", "convert_to_comp_basis"],
    "MProcess": ["is_sum_tp", "is_cp", "is_physical", "to_var", "to_stacked_vector", "to_povm", "calc_proj_eq_constraint",
                 "calc_proj_ineq_constraint", "calc_proj_physical", "copy", "generate_zero_obj", "generate_origin_obj"],
}
INDEXED = {"MProcess": ["to_choi_matrix", "to_choi_matrix_with_dict", "to_choi_matrix_with_sparsity", "to_kraus_matrices", "to_process_matrix", "hs"],
           "Povm": ["matrix", "vec"]}
COMPOSE = [("Gate", "State"), ("Povm", "State"), ("Gate", "Gate"), ("Povm", "Gate"), ("MProcess", "State"), ("MProcess", "Gate"),
           ("Gate", "MProcess"), ("Povm", "MProcess"), ("MProcess", "MProcess")]
TENSOR = [("State", "State"), ("Gate", "Gate"), ("Povm", "Povm"), ("MProcess", "Gate"), ("Gate", "MProcess")]
VARFN = ["calc_proj_eq_constraint_with_var", "calc_proj_ineq_constraint_with_var", "convert_var_to_stacked_vector",
         "func_calc_proj_eq_constraint_with_var", "func_calc_proj_ineq_constraint_with_var", "func_calc_proj_physical_with_var",
         "generate_from_var"]


def perform(world, desc, operands):
    """execute one operation descriptor on already materialised operands; returns the raw result"""
    Q = q()
    t = desc["t"]
    if t == "unary":
        f = getattr(operands[0], desc["m"])
        if desc["m"] == "calc_proj_physical":
            return f(max_iteration=200)
        return f()
    if t == "indexed":
        return getattr(operands[0], desc["m"])(desc["i"])
    if t == "arith":
        a = operands[0]
        if desc["m"] == "add":
            return a + operands[1]
        if desc["m"] == "sub":
            return a - operands[1]
        if desc["m"] == "mul":
            return a * desc["c"]
        if desc["m"] == "rmul":
            return desc["c"] * a
        return a / desc["c"]
    if t == "compose":
        return Q["op"].compose_qoperations(operands[0], operands[1])
    if t == "tensor":
        return Q["op"].tensor_product(operands[0], operands[1])
    if t == "varfn":
        obj, var = operands
        m = desc["m"]
        if m.startswith("func_"):
            return getattr(obj, m)(on_para_eq_constraint=desc["on_para"])(var)
        if m == "generate_from_var":
            return obj.generate_from_var(var, on_para_eq_constraint=desc["on_para"], is_physicality_required=False)
        return getattr(type(obj), m)(obj.composite_system, var, on_para_eq_constraint=desc["on_para"])
    if t == "cache":
        c = operands[0]
        if desc["code"] < 16:
            return GETTERS[desc["code"]](c)
        getattr(c, DELETERS[desc["code"] - 16])()
        return None
    if t == "basisq":
        c = operands[0]
        return [c.dim, c.num_e_sys, c.is_orthonormal_hermitian_0thprop_identity, c.is_basis_hermitian, c.basis(), c.comp_basis()]
    raise KeyError(t)


def choose_op(rng, pool, hist_world):
    """draw one operation descriptor applicable to the current pool"""
    keys = sorted(pool)
    by = lambda kind: [k for k in keys if pool[k]["kind"] == kind]
    objs = [k for k in keys if pool[k]["kind"] in UNARY]
    for _ in range(50):
        r = rng.random()
        if r < 0.34:
            k = rng.choice(objs); kind = pool[k]["kind"]
            if kind in INDEXED and rng.random() < 0.3:
                o = pool[k]["obj"]
                n = len(o.hss) if kind == "MProcess" else len(o.vecs)
                return {"t": "indexed", "m": rng.choice(INDEXED[kind]), "i": rng.randrange(n), "a": [k]}
            return {"t": "unary", "m": rng.choice(UNARY[kind]), "a": [k]}
        if r < 0.46:
            k = rng.choice(objs); kind = pool[k]["kind"]
            m = rng.choice(["add", "sub", "mul", "rmul", "div"])
            if m in ("add", "sub"):
                same_sys = [x for x in by(kind) if pool[x]["csid"] == pool[k]["csid"]]
                k2 = rng.choice(same_sys if rng.random() < 0.9 else by(kind))
                return {"t": "arith", "m": m, "a": [k, k2]}
            return {"t": "arith", "m": m, "c": rng.choice([2, 0.5, -1.5, 3]), "a": [k]}
        if r < 0.60:
            ka, kb = rng.choice(COMPOSE)
            A, B = by(ka), by(kb)
            if not A or not B:
                continue
            a = rng.choice(A)
            Bs = [x for x in B if pool[x]["csid"] == pool[a]["csid"]]
            if not Bs and rng.random() < 0.9:
                continue
            return {"t": "compose", "a": [a, rng.choice(Bs or B)]}
        if r < 0.68:
            ka, kb = rng.choice(TENSOR)
            A = [x for x in by(ka) if len(pool[x]["csid"][0]) == 1]
            if not A:
                continue
            a = rng.choice(A)
            lim = 4 if "Gate" in (ka, kb) or "MProcess" in (ka, kb) else 6
            B = [x for x in by(kb) if len(pool[x]["csid"][0]) == 1 and pool[x]["csid"][0] != pool[a]["csid"][0]
                 and pool[x]["obj"].dim * pool[a]["obj"].dim <= lim]
            if not B:
                continue
            return {"t": "tensor", "a": [a, rng.choice(B)]}
        if r < 0.84:
            V = by("var")
            if not V:
                continue
            v = rng.choice(V)
            O = [x for x in by(pool[v]["cls"]) if pool[x]["csid"] == pool[v]["csid"] and x[0] in "SGPM" and len(x) == 3]
            if not O:
                continue
            return {"t": "varfn", "m": rng.choice(VARFN), "on_para": pool[v]["on_para"], "a": [rng.choice(O), v]}
        if r < 0.97:
            cids = sorted(set(pool[k]["csid"] for k in objs))
            cid = rng.choice(cids)
            if rng.random() < 0.2:
                return {"t": "basisq", "cs": [list(cid[0]), cid[1]], "a": []}
            i = rng.randrange(9)
            code = i if rng.random() < 0.5 else 16 + (i if i > 0 else rng.randrange(1, 9))
            if len(cid[0]) > 1 or cid[0] == (2,):
                code = code if code >= 16 or code in (3, 4) else 3 + code % 2        # keep the big tables of larger systems out of the quick path
            return {"t": "cache", "code": code, "cs": [list(cid[0]), cid[1]], "a": []}
    return {"t": "unary", "m": "to_var", "a": [objs[0]]}


def op_site(desc, pool):
    t = desc["t"]
    kinds = [pool[k]["kind"] if k in pool else "?" for k in desc["a"]]
    if t in ("unary", "indexed"):
        return "%s.%s" % (kinds[0], desc["m"])
    if t == "arith":
        return "%s.__%s__" % (kinds[0], {"div": "truediv"}.get(desc["m"], desc["m"]))
    if t == "compose":
        return "operators.compose_qoperations(%s,%s)" % tuple(kinds)
    if t == "tensor":
        return "operators.tensor_product(%s,%s)" % tuple(kinds)
    if t == "varfn":
        return "%s.%s" % (kinds[0], desc["m"])
    if t == "cache":
        return "CompositeSystem." + (SLOTS[desc["code"]] if desc["code"] < 16 else DELETERS[desc["code"] - 16])
    return "CompositeSystem.basis"


def run_history(ctx, case, report=True):
    """executes a history; returns (ops actually executed, failures [(site, signature, op index, what)])"""
    Q = q()
    rng = random.Random(case["seed"])
    world = World()
    pool = make_pool(world, random.Random(case["pool_seed"]))
    trackers = {}
    fails = []
    gen = case.get("ops") is None
    ops = [] if gen else case["ops"]
    length = case["length"] if gen else len(ops)
    labels = []
    atol0 = Q["Settings"].get_atol()
    for k in range(length):
        desc = choose_op(rng, pool, world) if gen else ops[k]
        if gen:
            if rng.random() < 0.08:
                desc["atol"] = rng.choice([1e-6, 1e-9, 1e-3])
            ops.append(desc)
        if any(a not in pool for a in desc["a"]):
            continue                                         # operand was produced by an operation removed while shrinking
        site = op_site(desc, pool)
        # ---- snapshots of every pool object and of every composite system's basis
        before = {key: digest(ent["obj"]) for key, ent in pool.items()}
        bases = {cid: digest(c.basis()) for cid, c in world.cs.items()}
        if desc["t"] in ("cache", "basisq"):
            cid = (tuple(desc["cs"][0]), desc["cs"][1])
            if cid not in world.cs:
                continue
            operands = [world.cs[cid]]
            frozen = None
        else:
            operands = [pool[a]["obj"] for a in desc["a"]]
            frozen = [freeze(pool[a]["obj"], pool[a]["csid"]) for a in desc["a"]]
        # ---- the call in the history world
        if "atol" in desc:
            Q["Settings"].set_atol(desc["atol"])
        try:
            with warnings.catch_warnings():
                warnings.simplefilter("ignore")
                res = perform(world, desc, operands)
        except Exception as e:
            res = e
        finally:
            Q["Settings"].set_atol(atol0)
        rh = canon(res)
        # ---- the same call on fresh deep copies in a fresh world
        fw = World()
        if frozen is None:
            fops = [fw.csys(cid)]
        else:
            fops = [thaw(fr, fw) for fr in frozen]
        if "atol" in desc:
            Q["Settings"].set_atol(desc["atol"])
        try:
            with warnings.catch_warnings():
                warnings.simplefilter("ignore")
                rf = canon(perform(fw, desc, fops))
        except Exception as e:
            rf = canon(e)
        finally:
            Q["Settings"].set_atol(atol0)
        if not same(rh, rf):
            fails.append((site, "history-dependent", k, "result of op %d (%s) differs from the same call on fresh copies in a fresh world: %s vs %s" % (k, site, _brief(rh), _brief(rf))))
        # ---- nothing that existed before may have changed
        for key, ent in pool.items():
            if digest(ent["obj"]) != before[key]:
                sig = "mutates-argument" if key in desc["a"] else "mutates-derived-object"
                fails.append((site, sig, k, "op %d (%s) changed the value of pool object %s (%s)" % (k, site, key, "operand" if key in desc["a"] else "not an operand")))
        for cid, c in world.cs.items():
            if cid in bases and digest(c.basis()) != bases[cid]:
                fails.append((site, "mutates-basis", k, "op %d (%s) changed the basis of composite system %s" % (k, site, cid)))
        # ---- cache machine alongside (direct get/delete: exact step; everything else: the invariant)
        for cid, c in list(world.cs.items()):
            if cid not in trackers:
                trackers[cid] = CacheTracker(ctx, c, "history", "system %s" % (cid,))
        if desc["t"] == "cache":
            trackers[cid].apply([desc["code"]], "op %d" % k, dict(case, ops=ops[:k + 1]))
        else:
            for cid2, tr in trackers.items():
                tr.__init__(ctx, tr.c, "history", tr.label)       # resynchronise: other operations may fill tables
        for cid2, c in world.cs.items():
            for i, s in enumerate(SLOTS):
                o = getattr(c, s)
                if o is not None and (len(cid2[0]) == 1 or i in (3, 4)) and digest(o) != fresh_table(cid2[0], i):
                    fails.append(("CompositeSystem." + s, "stale-or-corrupted-table", k, "after op %d (%s) the cached table differs from a fresh system's" % (k, site)))
        # ---- results join the pool
        labels.append(desc["t"] if not isinstance(res, Exception) else desc["t"] + "!raise")
        if isinstance(res, (Q["st"].State, Q["gt"].Gate, Q["pv"].Povm, Q["mp"].MProcess)) and len(pool) < 60:
            cid = world.register(res.composite_system)
            pool["r%d" % k] = dict(kind=type(res).__name__, obj=res, csid=cid)
        elif isinstance(res, np.ndarray) and desc["t"] == "varfn" and res.ndim == 1 and len(pool) < 60 and not desc["m"].startswith("convert"):
            v = pool[desc["a"][1]]
            pool["r%d" % k] = dict(kind="var", obj=res, csid=v["csid"], cls=v["cls"], on_para=v["on_para"])
    return ops, fails, labels


def _brief(c):
    s = repr(c)
    return s if len(s) < 160 else s[:160] + "..."


def shrink_history(ctx, case, ops, target):
    """greedy removal of operations while the same (site, signature) still fails"""
    cur = list(ops)
    i = len(cur) - 1
    budget = 60
    while i >= 0 and budget > 0:
        cand = cur[:i] + cur[i + 1:]
        budget -= 1
        try:
            _, fails, _ = run_history(ctx, dict(case, ops=cand))
        except Exception:
            fails = []
        if any((s, g) == target for s, g, _, _ in fails):
            cur = cand
        i -= 1
    return cur


KNOWN_EXPLAINED = {(S_MPROC, "mutates-argument"), ("MProcess.func_calc_proj_eq_constraint_with_var", "mutates-argument")}


def chk_history(ctx, case):
    ops, fails, labels = run_history(ctx, case)
    for lb in labels:
        ctx.count("history", key=(case["seed"], case["pool_seed"], len(labels), lb, ctx.evaluations), nontrivial=not lb.endswith("!raise"), label=lb)
    seen = set()
    for site, sig, k, what in fails:
        if (site, sig) in seen:
            continue
        seen.add((site, sig))
        small = shrink_history(ctx, case, ops[:k + 1], (site, sig)) if not case.get("noshrink") else ops[:k + 1]
        ctx.violation("history", site, sig, what + " | minimal history: %d operation(s)" % len(small),
                      {"seed": case["seed"], "pool_seed": case["pool_seed"], "ops": small, "noshrink": 1})


def sub_history(ctx):
    cases = [{"seed": ctx.rng.randrange(1 << 30), "pool_seed": ctx.rng.randrange(1 << 30), "length": ctx.n(10, 40)}
             for _ in range(ctx.n(40, 250))]
    ctx.sample("history", cases[0])
    ctx.run_cases("history", chk_history, cases)


# ------------------------------------------------------------------------------------------------ loss / algorithm machines
MODES = ["identity", "inverse_sample_covariance", "inverse_unbiased_covariance", "unbiased_inverse_covariance", "custom"]


def loss_env(on_para):
    from quara.objects.povm import get_x_povm, get_y_povm, get_z_povm
    from quara.protocol.qtomography.standard.standard_qst import StandardQst
    w = World()
    c = w.csys(((0,), 0))
    qst = StandardQst([get_x_povm(c), get_y_povm(c), get_z_povm(c)], on_para_eq_constraint=on_para, seed_data=7)
    return w, c, qst


def mk_dataset(spec):
    return [(int(n), np.array([float(Fraction(p)), 1.0 - float(Fraction(p))], dtype=np.float64)) for n, p in spec]


def mk_custom(spec):
    out = []
    for a, b, cc in spec:
        out.append(np.array([[float(Fraction(a)), float(Fraction(b))], [float(Fraction(b)), float(Fraction(cc))]], dtype=np.float64))
    return out


def new_loss(kind, nvar, w0=None):
    from quara.loss_function.weighted_probability_based_squared_error import WeightedProbabilityBasedSquaredError as G
    from quara.loss_function.standard_qtomography_based_weighted_probability_based_squared_error import StandardQTomographyBasedWeightedProbabilityBasedSquaredError as F
    from quara.loss_function.standard_qtomography_based_weighted_relative_entropy import StandardQTomographyBasedWeightedRelativeEntropy as R
    from quara.loss_function.weighted_relative_entropy import WeightedRelativeEntropy as RG
    if kind == 0:
        return G(nvar, weight_matrices=w0)
    if kind == 1:
        return F(nvar, weight_matrices=w0)
    if kind == 2:
        return R(nvar, weights=w0)
    return RG(nvar, weights=w0)


def loss_option(kind, mode, custom):
    from quara.loss_function.weighted_probability_based_squared_error import WeightedProbabilityBasedSquaredErrorOption as GO
    from quara.loss_function.weighted_relative_entropy import WeightedRelativeEntropyOption as RO
    if kind in (0, 1):
        return GO(mode, weights=custom) if mode == "custom" else GO(mode)
    return RO("identity")


def model_weights(ctx, tag, datasets, customs):
    """numerical weights named by a tag of the symbolic machine: custom k -> list k; 1000+2d+u -> inverse covariance of dataset d (Coq op)"""
    if tag < 0:
        return None
    if tag < 1000:
        return customs[tag]
    d, u = (tag - 1000) // 2, (tag - 1000) % 2
    ds = datasets[d]
    m = ctx.get_model()
    qs = [1e-8] + [float(n) for n, _ in ds] + [float(n) ** (3 / 2) for n, _ in ds] + [float(x) for _, pr in ds for x in pr]
    flat = [float(v) for v in m.call("c13.invw", [u, len(ds)], qs)]
    return [np.array(flat[4 * i:4 * i + 4]).reshape(2, 2) for i in range(len(ds))]


def model_value(ctx, qst, ds, W, var):
    m = ctx.get_model()
    A = np.asarray(qst.calc_matA(), dtype=np.float64); b = np.asarray(qst.calc_vecB(), dtype=np.float64)
    qs = [float(x) for x in A.ravel()] + [float(x) for x in b] + [float(x) for _, pr in ds for x in pr] + [float(x) for x in var]
    if W is not None:
        qs += [float(x) for Wi in W for x in np.asarray(Wi).ravel()]
    out = [float(v) for v in m.call("c13.loss_value", [2, len(ds), len(var), 0 if W is None else 1], qs)]
    return out[0], out[1:]


def chk_loss(ctx, case):
    """one loss object driven through a sequence of configure / set_weight_matrices operations"""
    kind = case["kind"]
    on_para = bool(case["on_para"])
    w, c, qst = loss_env(on_para)
    datasets = [mk_dataset(s) for s in case["datasets"]]
    customs = [mk_custom(s) for s in case["customs"]]
    var = np.array([float(Fraction(x)) for x in case["var"]])
    loss = new_loss(kind, qst.num_variables)
    zs_ops = []
    last_cfg = None
    later_set = None
    m = ctx.get_model()
    for k, op in enumerate(case["ops"]):
        if op[0] == "cfg":
            _, d, mode, ck = op
            opt = loss_option(kind, mode, customs[ck] if mode == "custom" else None)
            loss.set_from_standard_qtomography_option_data(qst, opt, datasets[d], True, False)
            zs_ops += [0, d, {"identity": 0, "inverse_sample_covariance": 1, "inverse_unbiased_covariance": 2, "unbiased_inverse_covariance": 3}.get(mode, 10 + ck)]
            last_cfg, later_set = (d, mode, ck), None
        else:
            _, ck = op
            W = None if ck < 0 else customs[ck]
            if kind in (0, 1):
                loss.set_weight_matrices(W)
            else:
                continue
            zs_ops += [1, ck, 0]
            later_set = ("set", ck)
        if last_cfg is None:
            continue
        # ---- observation on the re-used object
        try:
            with warnings.catch_warnings():
                warnings.simplefilter("ignore")
                obs = (float(loss.value(var)), np.array(loss.gradient(var), dtype=float))
        except Exception as e:
            obs = e
        # ---- the same configuration on a fresh object (history independence is the PROPERTY)
        d, mode, ck = last_cfg
        fresh = new_loss(kind, qst.num_variables)
        w2, c2, qst2 = loss_env(on_para)
        fresh.set_from_standard_qtomography_option_data(qst2, loss_option(kind, mode, customs[ck] if mode == "custom" else None), datasets[d], True, False)
        if later_set is not None and kind in (0, 1):
            fresh.set_weight_matrices(None if later_set[1] < 0 else customs[later_set[1]])
        try:
            with warnings.catch_warnings():
                warnings.simplefilter("ignore")
                obf = (float(fresh.value(var)), np.array(fresh.gradient(var), dtype=float))
        except Exception as e:
            obf = e
        hist_dep = not same(canon(obs), canon(obf), 1e-9)
        sub = dict(case, ops=case["ops"][:k + 1])
        label = "%s %s" % (["generic", "fast", "fast-relent", "relent"][kind], mode if op[0] == "cfg" else "set_weight_matrices")
        if kind in (0, 1):
            # ---- the Coq machines: faithful, partially fixed, fixed; for the re-used AND for the fresh object
            fresh_ops = [0, d, {"identity": 0, "inverse_sample_covariance": 1, "inverse_unbiased_covariance": 2, "unbiased_inverse_covariance": 3}.get(mode, 10 + ck)]
            if later_set is not None:
                fresh_ops += [1, later_set[1], 0]
            variants = [("faithful", 0), ("fixed", 10)] if kind == 0 else [("faithful", 1), ("extension-fixed", 12), ("weights-fixed", 13), ("fixed", 11)]
            preds = []
            for vname, code in variants:
                tr_ = [int(v) for v in m.call("c13.loss_machine", [code, -1] + zs_ops)][-3:]
                tf_ = [int(v) for v in m.call("c13.loss_machine", [code, -1] + fresh_ops)][-3:]
                pr = model_value(ctx, qst, datasets[tr_[0]], model_weights(ctx, tr_[1], datasets, customs), var)
                pf = model_value(ctx, qst, datasets[tf_[0]], model_weights(ctx, tf_[1], datasets, customs), var)
                preds.append((vname, tr_, tf_, [pr[0], pr[1]], [pf[0], pf[1]]))
            faithful, fixed = preds[0], preds[-1]
            machines_differ = not same(faithful[3], fixed[3], 1e-7) or not same(faithful[4], fixed[4], 1e-7)
            ctx.count("loss", key=(kind, on_para, tuple(zs_ops), tuple(case["var"])), nontrivial=True,
                      label=label + (" [faithful != fixed machine]" if machines_differ else ""))
            site = S_FAST if kind == 1 else S_GENERIC
            if isinstance(obs, Exception) or isinstance(obf, Exception):
                ctx.violation("loss", site, "exception:" + type(obs if isinstance(obs, Exception) else obf).__name__, "value()/gradient() raised: %r / %r" % (obs, obf), sub); continue
            o_r, o_f = [obs[0], list(obs[1])], [obf[0], list(obf[1])]
            expl = [p for p in preds if same(o_r, p[3], 1e-7) and same(o_f, p[4], 1e-7)]
            if not expl:
                ctx.violation("loss", site, "loss-model-mismatch",
                              "re-used value %.8g / fresh value %.8g fit none of the machines %s" % (obs[0], obf[0], [(p[0], round(p[3][0], 6), round(p[4][0], 6)) for p in preds]), sub)
            elif hist_dep:
                v = expl[0]
                if kind == 0 or v[0] == "extension-fixed":
                    vs, vg = S_GENERIC, "identity-keeps-stale-weights"
                else:
                    vs, vg = S_FAST, "stale-extended-weights"
                ctx.violation("loss", vs, vg,
                              "after %s the re-used %s loss evaluates dataset %d with weights '%s' (value %.6g), a fresh object configured the same way uses weights '%s' (value %.6g); "
                              "the call means weights '%s' (value %.6g) [explained by the %s machine; weights: -1 none, k custom list k, 1000+2d+u inverse covariance of dataset d]" % (
                                  zs_ops, "fast" if kind else "generic", v[1][0], v[1][1], obs[0], v[2][1], obf[0], fixed[1][1], fixed[3][0], v[0]), sub)
        else:
            tb = [int(v) for v in m.call("c13.loss_machine", [2, -1] + zs_ops)][-3:]
            ctx.count("loss", key=(kind, on_para, tuple(zs_ops), tuple(case["var"])), label=label)
            if tb[0] != d or tb[1] != -1:
                ctx.violation("loss", "loss_machine", "loss-model-mismatch", "relative entropy machine predicts %s" % tb, sub)
            if hist_dep:
                ctx.violation("loss", "StandardQTomographyBasedWeightedRelativeEntropy" if kind == 2 else "WeightedRelativeEntropy", "history-dependent",
                              "re-used %r vs fresh %r" % (_brief(canon(obs)), _brief(canon(obf))), sub)


def gen_loss_case(rng, kind, length):
    nd = 4
    datasets = [[[rng.choice([100, 400, 900, 50]), "%d/20" % rng.randint(1, 19)] for _ in range(3)] for _ in range(nd)]
    customs = [[["%d/4" % rng.randint(4, 12), "%d/4" % rng.randint(-3, 3), "%d/4" % rng.randint(4, 12)] for _ in range(3)] for _ in range(2)]
    on_para = rng.random() < 0.6
    ops = []
    for _ in range(length):
        if rng.random() < 0.85 or not ops:
            mode = rng.choice(MODES if kind in (0, 1) else ["identity"])
            ops.append(["cfg", rng.randrange(nd), mode, rng.randrange(2)])
        else:
            ops.append(["set", rng.choice([-1, 0, 1])])
    return {"kind": kind, "on_para": int(on_para), "datasets": datasets, "customs": customs, "ops": ops,
            "var": ["%d/10" % rng.randint(-5, 5) for _ in range(3 if on_para else 4)]}


def algo_env(tag_q):
    """qt tag: 0 = QST with on_para_eq_constraint True, 1 = False"""
    return loss_env(tag_q == 0)


def algo_option(tag_o, eps=1e-9):
    from quara.minimization_algorithm.projected_gradient_descent_backtracking import ProjectedGradientDescentBacktrackingOption as O
    return O(on_algo_eq_constraint=bool(tag_o & 2), on_algo_ineq_constraint=bool(tag_o & 1), eps=eps, max_iteration_optimization=300)


def mkproj_impl(qst, tag_o):
    """the projection ProjectedGradientDescent builds for (qt, option) - as in set_constraint_from_standard_qt_and_option"""
    from quara.minimization_algorithm.projected_gradient_descent_backtracking import ProjectedGradientDescentBacktracking as A
    a = A()
    a.set_constraint_from_standard_qt_and_option(qst, algo_option(tag_o))
    return a.func_proj


def chk_algo(ctx, case):
    from quara.minimization_algorithm.projected_gradient_descent_backtracking import ProjectedGradientDescentBacktracking as A
    from quara.protocol.qtomography.standard.loss_minimization_estimator import LossMinimizationEstimator as E
    m = ctx.get_model()
    est = E()
    algo = A()
    envs = {}
    zs = []
    for k, (tq, to, dspec) in enumerate(case["jobs"]):
        if tq not in envs:
            envs[tq] = algo_env(tq)
        qst = envs[tq][2]
        data = mk_dataset(dspec)
        zs += [tq, to]
        tb = [int(v) for v in m.call("c13.algo_machine", [0, -1] + zs)][-2:]
        tx = [int(v) for v in m.call("c13.algo_machine", [1, -1] + zs)][-2:]
        sub = dict(case, jobs=case["jobs"][:k + 1])

        def run(a, qs):
            try:
                with warnings.catch_warnings():
                    warnings.simplefilter("ignore")
                    r = est.calc_estimate(qs, data, new_loss(0, qs.num_variables), loss_option(0, "identity", None), a, algo_option(to))
                return np.array(r.estimated_var)
            except Exception as e:
                return e
        r_hist = canon(run(algo, qst))
        r_fresh = canon(run(A(), algo_env(tq)[2]))
        # what the faithful machine says: a fresh algorithm object that is GIVEN the projection of the first job
        pq, po = tb[0] // 1000, tb[0] % 1000
        if pq not in envs:
            envs[pq] = algo_env(pq)
        r_model = canon(run(A(func_proj=mkproj_impl(envs[pq][2], po)), algo_env(tq)[2]))
        hist_dep = not same(r_hist, r_fresh, 1e-7)
        ctx.count("algo", key=tuple(zs), nontrivial=(tb[0] != tx[0]), label="job %d%s" % (min(k, 3), " [cached projection differs]" if tb[0] != tx[0] else ""))
        fit_b, fit_x = same(r_hist, r_model, 1e-7), same(r_hist, r_fresh, 1e-7)
        if not fit_b and not fit_x:
            ctx.violation("algo", S_ALGO, "algo-model-mismatch", "re-used algorithm result %s fits neither the machine (projection of job 0: %s) nor a fresh object (%s)" % (_brief(r_hist), _brief(r_model), _brief(r_fresh)), sub)
        elif hist_dep and fit_b and tb[0] != tx[0]:
            ctx.violation("algo", S_ALGO, "cached-func-proj",
                          "algorithm object re-used for (qt %d, constraints %d) still projects with the closure built for (qt %d, constraints %d): estimate %s, fresh object %s" % (tq, to, pq, po, _brief(r_hist), _brief(r_fresh)), sub)
        elif hist_dep:
            ctx.violation("algo", S_ALGO, "history-dependent-unexplained", "re-used %s vs fresh %s" % (_brief(r_hist), _brief(r_fresh)), sub)


def sub_loss(ctx):
    rng = ctx.rng
    cases = []
    for _ in range(ctx.n(24, 240)):
        cases.append(gen_loss_case(rng, rng.choice([0, 0, 1, 1, 2, 3]), rng.randint(2, ctx.n(5, 8))))
    ctx.sample("loss", cases[0])
    ctx.run_cases("loss", chk_loss, cases)
    ac = []
    for _ in range(ctx.n(6, 60)):
        jobs = []
        for _ in range(rng.randint(2, 4)):
            jobs.append([0 if rng.random() < 0.8 else 1, rng.randrange(4), [[rng.choice([100, 400]), "%d/20" % rng.choice([1, 2, 18, 19, 10, 3])] for _ in range(3)]])
        ac.append({"jobs": jobs})
    ctx.sample("algo", ac[0])
    ctx.run_cases("algo", chk_algo, ac)


# ------------------------------------------------------------------------------------------------ witnesses of the refuted theorems
def chk_witness(ctx, case):
    name = case["name"]
    ctx.count("witness", key=name, label=name)
    if name == "mprocess-mutates-argument":
        # C13_mprocess_proj_eq_mutates_argument_refuted: d2 = 4, two outcomes, var_i = i/10, entry 1 changes
        w = World(); c = w.csys(((0,), 0))
        var = np.arange(32, dtype=np.float64) / 10
        q()["mp"].MProcess.calc_proj_eq_constraint_with_var(c, var, on_para_eq_constraint=False)
        if var[1] != 0.1:
            ctx.violation("witness", S_MPROC, "mutates-argument", "witness of C13_mprocess_proj_eq_mutates_argument_refuted: var[1] 0.1 -> %r" % var[1], case)
    elif name in ("generic-identity", "fast-inverse", "fast-setter"):
        kind = 0 if name == "generic-identity" else 1
        d1 = [[100, "4/5"], [100, "3/10"], [100, "4/5"]]; d = [[100, "3/5"], [100, "9/20"], [100, "1/10"]]
        ops = {"generic-identity": [["cfg", 0, "inverse_sample_covariance", 0], ["cfg", 1, "identity", 0]],
               "fast-inverse": [["cfg", 0, "inverse_sample_covariance", 0], ["cfg", 1, "inverse_sample_covariance", 0]],
               "fast-setter": [["cfg", 1, "identity", 0], ["set", 0]]}[name]
        chk_loss(ctx, {"kind": kind, "on_para": 1, "datasets": [d1, d], "customs": [[["2", "1/2", "3"]] * 3, [["1", "0", "1"]] * 3], "ops": ops, "var": ["1/10", "1/5", "3/10"]})
    elif name == "algo-cached-projection":
        far = [[100, "19/20"], [100, "9/10"], [100, "19/20"]]
        chk_algo(ctx, {"jobs": [[0, 0, far], [0, 3, far]]})


def sub_witness(ctx):
    cases = [{"name": n} for n in ("mprocess-mutates-argument", "generic-identity", "fast-inverse", "fast-setter", "algo-cached-projection")]
    ctx.run_cases("witness", chk_witness, cases)


SUBS = [("cache", sub_cache), ("heap", sub_heap), ("basis", sub_basis), ("loss", sub_loss), ("witness", sub_witness), ("history", sub_history)]
FNS = {"cache": chk_cache, "heap": chk_heap, "basis": chk_basis, "copy": chk_copy, "loss": chk_loss, "algo": chk_algo,
       "witness": chk_witness, "history": chk_history}


def run(ctx):
    ctx.rule = ("histories: seeded random interleavings (length 10 quick / 40 thorough) over a pool of ~35 objects of all types on two qubits and a qutrit "
                "built from small rationals (physical and non-physical, unequal outcome counts, asymmetric); every result compared (1e-10) with the same "
                "call on fresh deep copies in a fresh world, SHA-1 byte snapshots of every pool object and basis before/after; non-trivial = the call "
                "returned a value (error branches are compared but counted trivial). cache: get/delete sequences with the Coq machine alongside. "
                "loss/algo: re-configuration sequences over 4 datasets x 5 weighting modes, non-trivial = faithful and fixed machine give "
                "numerically distinct predictions or agree symbolically. Failing histories are shrunk by greedy op removal.")
    flow.standard_run(ctx, SUBS)


def replay(ctx, doc):
    flow.standard_replay(ctx, doc, FNS)
