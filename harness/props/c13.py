"""C13 — results depend only on arguments: no hidden state, no operand mutation.

The models executed here are the models of the REPAIRED code (fixes/mprocess-proj-eq-var-mutates-argument,
pgd-cached-func-proj, sparse-matrix-basis-writable, vectorized-sparse-basis-writable, c12-se-*, c12-re-*); the machines
"as coded before fix ..." are only used to NAME a defect when the implementation deviates from the repaired model.

Sub-checks
  cache    CompositeSystem lazy tables: random get/delete sequences, the Coq cache machine (c13.cache_run) is
           executed alongside and compared with the private attributes (None/filled AND object identity), every
           returned table is compared with the table of a fresh system (the invariant of the theorem)
  heap     MProcess.calc_proj_eq_constraint_with_var / convert_var_to_hss against the array-heap model: result,
           contents of the ARGUMENT afterwards, aliasing (buffer, offset); other *_with_var functions: argument untouched
  basis    matrix bases (dense, sparse, vectorised) are not writable, do not share objects with the caller,
           copies are independent of their originals
  loss     loss / algorithm objects re-configured over several datasets and weighting modes: the Coq configuration
           machines predict which dataset / weights / projection are in effect; compared numerically (c13.loss_value,
           c13.invw; relative entropy: harness-side formula) and against fresh objects (history independence)
  witness  the witnesses of the ..._refuted theorems (code before the fixes) replayed: they must NOT reproduce
  pure     array helper functions of quara.utils.matrix_util / quara.math (what objects, losses and estimators call on the user's
           data): arguments unchanged (float64 / complex128 arrays, probability vectors with an exact 0 in every position), repeatable
  sampling MProcess(mode_sampling=True, seed): compositions are determined by the arguments, not by numpy's global generator
  tomo     the four tomography classes: queries repeatable, objects handed out are independent of the tomography object and of each
           other (every public mutator applied), LinearEstimator re-used over data sets = fresh estimator, data unchanged
  derived  every object-returning operation followed by every query on the derived object = the query on a value-identical object
           built from fresh arrays; derived objects own their arrays
  factory  every func_calc_* function factory of pool objects of all four classes (default and non-default configuration), with
           EVERY combination of its arguments: the object is unchanged (all public attributes + arrays), the function equals the
           one built from a fresh copy, keeps its outputs on probe vectors when the object is re-configured / zeroed afterwards,
           and a copy of the object made before stays compatible with it (+ / -)
  history  random interleavings over a shared pool of objects of all types (incl. the factories, configuration setters, arithmetic
           with a copy made earlier); every result is compared with the same call on fresh deep copies in a fresh world, byte
           snapshots (arrays AND every public property) of every pool object before/after, results and functions returned
           earlier are re-observed after every later operation
"""
import copy, hashlib, random, warnings, itertools
from fractions import Fraction
import numpy as np
from common import flow

LEVEL = "proof"
TOL = 1e-10

# ------------------------------------------------------------------------------------------------ sites of known defect classes
S_GENERIC = "WeightedProbabilityBasedSquaredError._set_weights_by_mode"
S_FAST = "StandardQTomographyBasedWeightedProbabilityBasedSquaredError._calc_extend_weight_matrix"
S_RGEN = "WeightedRelativeEntropy._sets_weight_by_mode"
S_RFAST = "StandardQTomographyBasedWeightedRelativeEntropy._calc_extend_weights"
S_ALGO = "ProjectedGradientDescent.set_constraint_from_standard_qt_and_option"
S_MPROC = "MProcess.calc_proj_eq_constraint_with_var"
S_SPARSE = "SparseMatrixBasis.__init__"
S_VECT = "VectorizedMatrixBasis.__init__"
# signature of the defect that each missing repair of the squared-error losses produces (bit of the machine flags)
FIX_SIG = {1: (S_GENERIC, "identity-mode-keeps-previous-weights", "c12-se-identity-mode-reset"),
           2: (S_GENERIC, "alias-mode-unbiased_inverse_covariance-ignored", "c12-se-alias-mode"),
           4: (S_FAST, "extended-weights-stale", "c12-se-fast-extended-weights")}


def q():
    """lazy import of quara (after the shim is on the path)"""
    import quara.objects.composite_system as cs, quara.objects.elemental_system as es, quara.objects.matrix_basis as mb
    import quara.objects.state as st, quara.objects.povm as pv, quara.objects.gate as gt, quara.objects.mprocess as mp
    import quara.objects.operators as op, quara.objects.multinomial_distribution as md, quara.objects.state_ensemble as se
    from quara.settings import Settings
    return dict(cs=cs, es=es, mb=mb, st=st, pv=pv, gt=gt, mp=mp, op=op, md=md, se=se, Settings=Settings)


# ------------------------------------------------------------------------------------------------ values, snapshots
def canon(x):
    """value of anything an operation can return, as nested python/numpy data (no object identity)"""
    import scipy.sparse as sp
    Q = q()
    if x is None or isinstance(x, (bool, str)):
        return x
    if isinstance(x, (np.bool_,)):
        return bool(x)
    if isinstance(x, (int, np.integer)):
        return int(x)
    if isinstance(x, (float, np.floating)):
        return float(x)
    if isinstance(x, (complex, np.complexfloating)):
        return complex(x)
    if isinstance(x, np.ndarray):
        return np.array(x)
    if sp.issparse(x):
        return np.asarray(x.toarray())
    if isinstance(x, BaseException):
        return ("exc", type(x).__name__)
    if isinstance(x, dict):
        return ("dict", [(repr(k), canon(v)) for k, v in sorted(x.items(), key=lambda kv: repr(kv[0]))])
    if isinstance(x, (list, tuple)):
        return [canon(v) for v in x]
    if isinstance(x, Closure):
        return ("closure", [canon(x.call(p)) for p in x.probes])
    if isinstance(x, (Q["st"].State, Q["pv"].Povm, Q["gt"].Gate, Q["mp"].MProcess)):
        fr = freeze(x, None)
        return ("obj", fr["k"], [canon(a) for a in fr["arrs"]], list(fr["cfg"]), fr.get("shape"), public_config(x))
    if isinstance(x, Q["md"].MultinomialDistribution):
        return ("md", np.array(x.ps), list(x.shape))
    if isinstance(x, Q["se"].StateEnsemble):
        return ("ens", [canon(s) for s in x.states], canon(x.prob_dist))
    if isinstance(x, Q["mb"].Basis):
        return ("basis", [canon(b) for b in x])
    if hasattr(x, "estimated_var_sequence"):
        return ("est", [np.array(v) for v in x.estimated_var_sequence])
    return ("repr", type(x).__name__)


def arrays_of(o):
    """every numpy buffer that carries the value of an object (for independence checks)"""
    Q = q()
    if isinstance(o, np.ndarray):
        return [o]
    if isinstance(o, Q["st"].State):
        return [o.vec]
    if isinstance(o, Q["gt"].Gate):
        return [o.hs]
    if isinstance(o, Q["pv"].Povm):
        return list(o.vecs)
    if isinstance(o, Q["mp"].MProcess):
        return list(o.hss)
    if isinstance(o, Q["md"].MultinomialDistribution):
        return [o.ps]
    if isinstance(o, Q["se"].StateEnsemble):
        return [a for x in o.states for a in arrays_of(x)] + [o.prob_dist.ps]
    if isinstance(o, (list, tuple)):
        return [a for x in o for a in arrays_of(x)]
    return []


def _overlap(a, b):
    return a is b or (a.size > 0 and b.size > 0 and np.may_share_memory(a, b) and np.shares_memory(a, b))


def mutable_arrays_of(o):
    """arrays_of without the members that no quara operation can change (MultinomialDistribution has no mutator: an
    ensemble may share its distribution object with the ensemble it was computed from)"""
    Q = q()
    if isinstance(o, Q["md"].MultinomialDistribution):
        return []
    if isinstance(o, Q["se"].StateEnsemble):
        return [a for x in o.states for a in arrays_of(x)]
    if isinstance(o, (list, tuple)):
        return [a for x in o for a in mutable_arrays_of(x)]
    return arrays_of(o)


def independence(res, others):
    """a NEW object returned by an operation must own its arrays: no two of its components may be one array (a later in-place
    update of one would change the other) and none may share memory with an object that existed before.  others: [(name, arrays)]"""
    own = mutable_arrays_of(res)
    msgs = []
    for i in range(len(own)):
        for j in range(i):
            if _overlap(own[i], own[j]):
                msgs.append(("result-internal-aliasing", "components %d and %d of the returned object are the same memory" % (j, i)))
                break
        else:
            continue
        break
    for name, arrs in others:
        if any(_overlap(a, b) for a in own for b in arrs):
            msgs.append(("result-aliases-existing-object", "the returned object shares memory with %s" % name))
            break
    return msgs


_PROPS = {}


def public_config(x):
    """EVERY public property of the object (scalars, strings, tuples, arrays by value; other objects by type name):
    the observable configuration, not only the arrays"""
    t = type(x)
    if t not in _PROPS:
        _PROPS[t] = [n for n in sorted(dir(t)) if not n.startswith("_") and isinstance(getattr(t, n, None), property)]
    out = []
    for n in _PROPS[t]:
        try:
            v = getattr(x, n)
        except Exception as e:
            v = e
        if v is None or isinstance(v, (bool, int, float, complex, str, np.generic, np.ndarray, BaseException)):
            out.append([n, canon(v)])
        elif isinstance(v, (list, tuple)) and all(isinstance(u, (bool, int, float, str, np.generic, np.ndarray)) for u in v):
            out.append([n, [canon(u) for u in v]])
        else:
            out.append([n, "<%s>" % type(v).__name__])
    return out


class Closure:
    """a function returned by one of the func_calc_* factories, observed through its outputs on fixed probe vectors"""

    def __init__(self, f, probes):
        self.f, self.probes = f, probes

    def call(self, p):
        try:
            with warnings.catch_warnings():
                warnings.simplefilter("ignore")
                r = self.f(np.array(p))
            return r[0] if isinstance(r, tuple) else r
        except Exception as e:
            return e


def same(a, b, tol=TOL):
    if isinstance(a, np.ndarray) or isinstance(b, np.ndarray):
        if not (isinstance(a, np.ndarray) and isinstance(b, np.ndarray)) or a.shape != b.shape:
            return False
        if a.dtype == object or b.dtype == object:
            return a.tolist() == b.tolist()
        return bool(np.allclose(a, b, rtol=tol, atol=tol, equal_nan=True))
    if isinstance(a, (list, tuple)) and isinstance(b, (list, tuple)):
        return len(a) == len(b) and all(same(x, y, tol) for x, y in zip(a, b))
    if isinstance(a, bool) or isinstance(b, bool) or a is None or b is None or isinstance(a, str) or isinstance(b, str):
        return type(a) == type(b) and a == b
    if isinstance(a, (int, float, complex)) and isinstance(b, (int, float, complex)):
        if a != a and b != b:
            return True
        return abs(a - b) <= tol * (1 + max(abs(a), abs(b)))
    return a == b


def _feed(h, c):
    if isinstance(c, np.ndarray):
        h.update(b"nd"); h.update(str(c.dtype).encode()); h.update(repr(c.shape).encode()); h.update(np.ascontiguousarray(c).tobytes())
    elif isinstance(c, (list, tuple)):
        h.update(b"[")
        for v in c:
            _feed(h, v)
        h.update(b"]")
    else:
        h.update(repr(c).encode())


def digest(x):
    """byte-level fingerprint of the observable value of x"""
    h = hashlib.sha1()
    _feed(h, canon(x))
    return h.hexdigest()


def raw_state(o, depth=0):
    """the PRIVATE state of an object, read from vars(o) WITHOUT calling any getter (a getter with a side effect would hide its own
    effect from a snapshot made through getters): arrays by bytes, scalars by value, random generators by their bit-generator
    state, nested quara objects recursively; the lazily built tables of CompositeSystem are left out (they are modelled by the
    cache machine) and composite systems are named by identity-free type only"""
    Q = q()
    if o is None or isinstance(o, (bool, int, float, complex, str, np.generic)):
        return repr(o)
    if isinstance(o, np.ndarray):
        return ("nd", str(o.dtype), o.shape, hashlib.sha1(np.ascontiguousarray(o).tobytes()).hexdigest())
    if isinstance(o, np.random.Generator):
        return ("rng", repr(o.bit_generator.state))
    if isinstance(o, (list, tuple)):
        return [raw_state(v, depth + 1) for v in o] if depth < 6 else "<deep>"
    if isinstance(o, dict):
        return [(repr(k), raw_state(v, depth + 1)) for k, v in sorted(o.items(), key=lambda kv: repr(kv[0]))] if depth < 6 else "<deep>"
    if isinstance(o, (Q["cs"].CompositeSystem, Q["es"].ElementalSystem, Q["mb"].Basis)) or callable(o):
        return "<%s>" % type(o).__name__
    if hasattr(o, "__dict__") and type(o).__module__.startswith("quara") and depth < 6:
        return (type(o).__name__, [(k, raw_state(v, depth + 1)) for k, v in sorted(vars(o).items())])
    return "<%s>" % type(o).__name__


def snap(x):
    """fingerprint for before / after comparisons of ONE object: its private state (taken first, without getters) and its observable value"""
    r = repr(raw_state(x))
    return hashlib.sha1(r.encode()).hexdigest() + digest(x)


CFG = ("is_physicality_required", "is_estimation_object", "on_para_eq_constraint", "on_algo_eq_constraint",
       "on_algo_ineq_constraint", "mode_proj_order", "eps_proj_physical", "eps_truncate_imaginary_part")


def freeze(o, csid):
    """deep value copy of a QOperation / array, independent of the object"""
    Q = q()
    if isinstance(o, np.ndarray):
        return {"k": "nd", "a": np.array(o)}
    if isinstance(o, Q["md"].MultinomialDistribution):
        return {"k": "MD", "ps": np.array(o.ps), "shape": tuple(int(x) for x in o.shape), "eps": o.eps_zero}
    if isinstance(o, Q["se"].StateEnsemble):
        return {"k": "Ens", "cs": csid, "states": [freeze(x, csid) for x in o.states], "pd": freeze(o.prob_dist, None), "eps": o.eps_zero}
    cfg = tuple(getattr(o, a) for a in CFG)
    if isinstance(o, Q["st"].State):
        return {"k": "State", "cs": csid, "arrs": [np.array(o.vec)], "cfg": cfg}
    if isinstance(o, Q["gt"].Gate):
        return {"k": "Gate", "cs": csid, "arrs": [np.array(o.hs)], "cfg": cfg}
    if isinstance(o, Q["pv"].Povm):
        return {"k": "Povm", "cs": csid, "arrs": [np.array(v) for v in o.vecs], "cfg": cfg}
    if isinstance(o, Q["mp"].MProcess):
        return {"k": "MProcess", "cs": csid, "arrs": [np.array(v) for v in o.hss], "cfg": cfg, "shape": tuple(o.shape)}
    raise TypeError("cannot freeze %s" % type(o))


def thaw(fr, world):
    Q = q()
    if fr["k"] == "nd":
        return np.array(fr["a"])
    if fr["k"] == "MD":
        md = Q["md"].MultinomialDistribution(np.array(fr["ps"]), shape=tuple(fr["shape"]), eps_zero=fr["eps"])
        if not np.array_equal(md.ps, fr["ps"]):
            # the constructor re-normalises a distribution that has zero entries: an ulp of difference would make seeded sampling
            # differ between the two worlds - the copy must be value-identical bit for bit
            md._ps = np.array(fr["ps"])
        return md
    if fr["k"] == "Ens":
        return Q["se"].StateEnsemble([thaw(x, world) for x in fr["states"]], thaw(fr["pd"], world), eps_zero=fr["eps"])
    c = world.csys(fr["cs"])
    kw = dict(zip(CFG, fr["cfg"]))
    arrs = [np.array(a) for a in fr["arrs"]]
    if fr["k"] == "State":
        return Q["st"].State(c, arrs[0], **kw)
    if fr["k"] == "Gate":
        return Q["gt"].Gate(c, arrs[0], **kw)
    if fr["k"] == "Povm":
        return Q["pv"].Povm(c, arrs, **kw)
    if fr["k"] == "MProcess":
        return Q["mp"].MProcess(c, arrs, shape=fr["shape"], **kw)
    raise TypeError(fr["k"])


class World:
    """elemental systems 0, 1 (qubits, normalised Pauli) and 2 (qutrit, normalised Gell-Mann); composite systems
    by id = (names, instance).  A fresh World shares nothing with any other."""

    def __init__(self):
        self.es = {}
        self.cs = {}

    def esys(self, n):
        if n not in self.es:
            Q = q()
            b = Q["mb"].get_normalized_gell_mann_basis() if n == 2 else Q["mb"].get_normalized_pauli_basis()
            self.es[n] = Q["es"].ElementalSystem(n, b)
        return self.es[n]

    def csys(self, csid):
        csid = (tuple(csid[0]), csid[1])
        if csid not in self.cs:
            self.cs[csid] = q()["cs"].CompositeSystem([self.esys(n) for n in csid[0]])
        return self.cs[csid]

    def register(self, c):
        for k, v in self.cs.items():
            if v is c:
                return k
        names = tuple(e.name for e in c.elemental_systems)
        k = (names, 1 + max([i for (nm, i) in self.cs if nm == names] + [0]))
        self.cs[k] = c
        return k


# ------------------------------------------------------------------------------------------------ cache machine
SLOTS = ["_basis_basisconjugate", "_dict_from_hs_to_choi", "_dict_from_choi_to_hs", "_basis_T_sparse",
         "_basisconjugate_sparse", "_basisconjugate_basis_sparse", "_basis_basisconjugate_T_sparse",
         "_basis_basisconjugate_T_sparse_from_1", "_basishermitian_basis_T_from_1"]
GETTERS = [lambda c: (c.basis_basisconjugate(0), c._basis_basisconjugate)[1], lambda c: c.dict_from_hs_to_choi,
           lambda c: c.dict_from_choi_to_hs, lambda c: c.basis_T_sparse, lambda c: c.basisconjugate_sparse,
           lambda c: c.basisconjugate_basis_sparse, lambda c: c.basis_basisconjugate_T_sparse,
           lambda c: c.basis_basisconjugate_T_sparse_from_1, lambda c: c.basishermitian_basis_T_from_1]
DELETERS = [None] + ["delete" + s for s in SLOTS[1:]]
# slots read by the conversion functions (read from the source; used to run the machine alongside mixed histories)
TOUCH = {"gate.to_choi": [0], "gate.to_choi_dict": [1], "gate.to_choi_sparse": [6], "hs_from_choi": [0],
         "hs_from_choi_dict": [2], "hs_from_choi_sparse": [5], "state.density_sparse": [3], "state.vec_from_density": [4]}


class CacheTracker:
    """runs the Coq cache machine next to one CompositeSystem and compares after every operation"""

    def __init__(self, ctx, c, sub, label):
        self.ctx, self.c, self.sub, self.label = ctx, c, sub, label
        self.keep = []                       # every table object ever seen, kept alive so that ids stay unique
        self.gen_of = {}                     # id(obj) -> model generation
        self.gens = [-1] * 9
        self.tick = 0
        for i, s in enumerate(SLOTS):        # adopt the current state (normally all None)
            o = getattr(c, s)
            if o is not None:
                self.gens[i] = self.tick; self.gen_of[id(o)] = self.tick; self.keep.append(o); self.tick += 1

    def apply(self, codes, what, case):
        """codes: model ops just performed on the implementation. returns False on disagreement"""
        if codes:
            m = self.ctx.get_model()
            out = [int(v) for v in m.call("c13.cache_run", self.gens + [self.tick] + list(codes))]
            new_gens, new_tick = out[-10:-1], out[-1]
        else:                                # no operation on this system: nothing may have changed
            new_gens, new_tick = list(self.gens), self.tick
        ok = True
        for i, s in enumerate(SLOTS):
            o = getattr(self.c, s)
            g = new_gens[i]
            if (o is None) != (g < 0):
                self.ctx.violation(self.sub, "CompositeSystem." + s, "cache-model-mismatch:filled",
                                   "%s after %s: attribute is %s, cache machine says %s" % (self.label, what, "None" if o is None else "filled", "None" if g < 0 else "filled"), case)
                ok = False
                continue
            if o is None:
                continue
            known = self.gen_of.get(id(o))
            if known is None:
                # a new object: the model must have assigned a generation that did not exist before
                if g < self.tick:
                    self.ctx.violation(self.sub, "CompositeSystem." + s, "cache-model-mismatch:identity",
                                       "%s after %s: attribute holds a NEW object, cache machine says it is the old one (generation %d)" % (self.label, what, g), case)
                    ok = False
                self.gen_of[id(o)] = g; self.keep.append(o)
            elif known != g:
                self.ctx.violation(self.sub, "CompositeSystem." + s, "cache-model-mismatch:identity",
                                   "%s after %s: attribute holds the object of generation %d, cache machine says %d" % (self.label, what, known, g), case)
                ok = False
        self.gens, self.tick = new_gens, new_tick
        return ok


_FRESH_TABLES = {}


def fresh_table(names, i):
    """digest of table i as built by a fresh CompositeSystem over fresh elemental systems (memoised per run)"""
    key = (tuple(names), i)
    if key not in _FRESH_TABLES:
        w = World()
        c = w.csys((tuple(names), 0))
        _FRESH_TABLES[key] = digest(GETTERS[i](c))
    return _FRESH_TABLES[key]


def check_cache_invariant(ctx, sub, c, names, what, case):
    """the invariant of C13_cache_invariant on the private attributes: None or equal to what a fresh system builds"""
    ok = True
    for i, s in enumerate(SLOTS):
        o = getattr(c, s)
        if o is not None and digest(o) != fresh_table(names, i):
            ctx.violation(sub, "CompositeSystem." + s, "stale-or-corrupted-table",
                          "after %s the cached table differs from the table a fresh system builds" % what, case)
            ok = False
    return ok


def chk_cache(ctx, case):
    rng = random.Random(case["seed"])
    names = tuple(case["names"])
    w = World()
    c = w.csys((names, 0))
    tr = CacheTracker(ctx, c, "cache", "system %s" % (names,))
    basis_before = digest(c.basis())
    ops = case.get("ops")
    if ops is None:
        ops = []
        for _ in range(case["length"]):
            r = rng.random()
            i = rng.randrange(9)
            if r < 0.5:
                ops.append(i)
            elif r < 0.9:
                ops.append(16 + (i if i > 0 else rng.randrange(1, 9)))
            else:
                ops.append(32 + rng.randrange(len(TOUCH)))       # a conversion function that reads a table
        case = dict(case, ops=ops)
    tkeys = sorted(TOUCH)
    nontriv = len(set(o % 16 for o in ops if o < 16)) >= 2 and any(16 <= o < 32 for o in ops)
    for k, o in enumerate(ops):
        if o < 16:
            val = GETTERS[o](c)
            okv = digest(val) == fresh_table(names, o)
            if not okv:
                ctx.violation("cache", "CompositeSystem." + SLOTS[o], "history-dependent",
                              "getter after history %s returns a table different from a fresh system's" % ops[:k + 1], dict(case, ops=ops[:k + 1]))
            codes = [o]
        elif o < 32:
            getattr(c, DELETERS[o - 16])()
            codes = [o]
        else:
            name = tkeys[o - 32]
            try:
                run_touch(c, name)
            except ValueError:
                pass                                  # truncate_hs may reject the generic input; the table was read before
            codes = TOUCH[name]
        tr.apply(codes, "op %d of %s" % (k, ops), dict(case, ops=ops[:k + 1]))
        check_cache_invariant(ctx, "cache", c, names, "history %s" % ops[:k + 1], dict(case, ops=ops[:k + 1]))
    if digest(c.basis()) != basis_before:
        ctx.violation("cache", "CompositeSystem.basis", "mutates-operand", "basis changed by cache operations", case)
    ctx.count("cache", key=(names, tuple(ops)), nontrivial=nontriv, label="%s len%d" % ("x".join(map(str, names)), len(ops)))


def run_touch(c, name):
    Q = q()
    d = c.dim
    rs = np.random.RandomState(5)
    hs = rs.randint(-3, 4, size=(d * d, d * d)).astype(np.float64)
    choi = hs + 1j * rs.randint(-3, 4, size=(d * d, d * d))
    if name == "gate.to_choi":
        return Q["gt"].to_choi_from_hs(c, hs)
    if name == "gate.to_choi_dict":
        return Q["gt"].to_choi_from_hs_with_dict(c, hs)
    if name == "gate.to_choi_sparse":
        return Q["gt"].to_choi_from_hs_with_sparsity(c, hs)
    if name == "hs_from_choi":
        return Q["gt"].to_hs_from_choi(c, choi)
    if name == "hs_from_choi_dict":
        return Q["gt"].to_hs_from_choi_with_dict(c, choi)
    if name == "hs_from_choi_sparse":
        return Q["gt"].to_hs_from_choi_with_sparsity(c, choi)
    if name == "state.density_sparse":
        return Q["st"].to_density_matrix_from_vec(c, np.arange(d * d, dtype=np.float64))
    if name == "state.vec_from_density":
        return Q["st"].to_vec_from_density_matrix_with_sparsity(c, np.eye(d, dtype=np.complex128) / d)
    raise KeyError(name)


def nb(ctx, quick, thorough):
    """case count; tripled in the quick tier when the translator tie is broken (search harder for a concrete failing input)"""
    return min(thorough, 3 * quick) if getattr(ctx, "boost", False) and ctx.quick else ctx.n(quick, thorough)


def sub_cache(ctx):
    cases = []
    for k in range(nb(ctx, 28, 400)):
        r = ctx.rng.random()
        names = (0,) if r < 0.6 else ((2,) if r < 0.8 else (0, 1))
        cases.append({"seed": ctx.rng.randrange(1 << 30), "names": list(names), "length": ctx.rng.randint(4, ctx.n(12, 40))})
    ctx.sample("cache", cases[0])
    ctx.run_cases("cache", chk_cache, cases)


# ------------------------------------------------------------------------------------------------ heap model
def chk_heap(ctx, case):
    Q = q()
    m = ctx.get_model()
    w = World()
    c = w.csys(((case["sys"],), 0))
    d2 = c.dim ** 2
    on_para = bool(case["on_para"])
    var = np.array([float(Fraction(x)) for x in case["var"]], dtype=np.float64)
    before = var.copy()
    key = (case["sys"], on_para, tuple(case["var"]), case["fn"])
    if case["fn"] == "proj_eq":
        # the model of the repaired code (flag 1): same values, argument untouched, result in a new buffer
        st, val = m.try_call("c13.mp_proj_eq", [d2, int(on_para), 1], [float(x) for x in before])
        try:
            res = Q["mp"].MProcess.calc_proj_eq_constraint_with_var(c, var, on_para_eq_constraint=on_para)
            impl = ("ok", res)
        except Exception as e:
            impl = ("err", type(e).__name__)
        ctx.count("heap", key=key, nontrivial=(st == "ok" and len(before) >= 2 * d2 * d2 - d2), label="proj_eq on_para=%s %s" % (on_para, st))
        if st == "err" or impl[0] == "err":
            if (st == "err") != (impl[0] == "err"):
                ctx.violation("heap", S_MPROC, "heap-model-mismatch:error", "model %s, implementation %s" % ((st, val), impl), case)
            return
        n = int(val[1]); res_m = [float(x) for x in val[2:2 + n]]; arg_m = [float(x) for x in val[2 + n:]]
        if not flow.allclose(list(res), res_m, 1e-9):
            ctx.violation("heap", S_MPROC, "heap-model-mismatch:value", "result differs from the model: %s vs %s" % (list(res)[:6], res_m[:6]), case)
        if np.shares_memory(res, var) != (int(val[0]) == 0):
            ctx.violation("heap", S_MPROC, "heap-model-mismatch:aliasing", "result aliasing differs from the model", case)
        for lname, largs, parents in layout_variants([before.copy()]):
            if lname == "fortran":
                continue
            dl, dp = digest(largs), digest(parents)
            try:
                rl = canon(Q["mp"].MProcess.calc_proj_eq_constraint_with_var(World().csys(((case["sys"],), 0)), largs[0], on_para_eq_constraint=on_para))
            except Exception as e:
                rl = canon(e)
            if digest(largs) != dl or digest(parents) != dp:
                ctx.violation("heap", S_MPROC, "mutates-argument", "%s variable vector overwritten (on_para_eq_constraint=%s)" % (lname, on_para), dict(case, layout=lname))
            elif not same(canon(np.array(res)), rl, 1e-12):
                ctx.violation("heap", S_MPROC, "layout-dependent", "result on a %s vector differs from the result on a contiguous one" % lname, dict(case, layout=lname))
        if not np.array_equal(var, before):               # the repaired model leaves the argument as it was (arg_m == before)
            # which model explains the contents of the argument now?  (flag 0: as coded before the fix)
            val0 = m.call("c13.mp_proj_eq", [d2, int(on_para), 0], [float(x) for x in before])
            arg0 = [float(x) for x in val0[2 + int(val0[1]):]]
            if flow.allclose(list(var), arg0, 1e-9):
                ctx.violation("heap", S_MPROC, "mutates-argument",
                              "calc_proj_eq_constraint_with_var(on_para_eq_constraint=%s) overwrote its argument: %s -> %s (the in-place update went through views of var, "
                              "as in the model of the code before fix mprocess-proj-eq-var-mutates-argument)" % (on_para, [round(float(x), 6) for x in before[:5]], [round(float(x), 6) for x in var[:5]]), case)
            else:
                ctx.violation("heap", S_MPROC, "heap-model-mismatch:argument-contents",
                              "contents of the argument after the call fit neither heap model: %s -> %s" % ([round(float(x), 6) for x in before[:5]], [round(float(x), 6) for x in var[:5]]), case)
    elif case["fn"] == "var_to_hss":
        st, val = m.try_call("c13.mp_var_to_hss", [d2, int(on_para)], [float(x) for x in before])
        try:
            hss = Q["mp"].convert_var_to_hss(c, var, on_para_eq_constraint=on_para); impl = ("ok", hss)
        except Exception as e:
            impl = ("err", type(e).__name__)
        ctx.count("heap", key=key, nontrivial=(st == "ok"), label="var_to_hss on_para=%s %s" % (on_para, st))
        if st == "err" or impl[0] == "err":
            if (st == "err") != (impl[0] == "err"):
                ctx.violation("heap", "mprocess.convert_var_to_hss", "heap-model-mismatch:error", "model %s, implementation %s" % ((st, val), impl), case)
            return
        n = int(val[0])
        if n != len(hss):
            ctx.violation("heap", "mprocess.convert_var_to_hss", "heap-model-mismatch:value", "number of HS %d vs %d" % (len(hss), n), case); return
        vals = [float(x) for x in val[1 + 2 * n:]]
        flat = [float(x) for h in hss for x in np.asarray(h).ravel()]
        if not flow.allclose(flat, vals, 1e-9):
            ctx.violation("heap", "mprocess.convert_var_to_hss", "heap-model-mismatch:value", "values differ", case)
        base = var.__array_interface__["data"][0]
        for k, h in enumerate(hss):
            mbuf, moff = int(val[1 + 2 * k]), int(val[2 + 2 * k])
            alias = np.shares_memory(h, var)
            if alias != (mbuf == 0):
                ctx.violation("heap", "mprocess.convert_var_to_hss", "heap-model-mismatch:aliasing", "hs %d aliasing %s, model buffer %d" % (k, alias, mbuf), case)
            elif alias and (h.__array_interface__["data"][0] - base) != 8 * moff:
                ctx.violation("heap", "mprocess.convert_var_to_hss", "heap-model-mismatch:offset", "hs %d offset differs from model" % k, case)
        if not np.array_equal(var, before):
            ctx.violation("heap", "mprocess.convert_var_to_hss", "mutates-argument", "argument changed", case)
    else:
        # every other *_with_var / convert function: the argument must be untouched and the call repeatable
        cls = {"State": Q["st"].State, "Povm": Q["pv"].Povm, "Gate": Q["gt"].Gate, "MProcess": Q["mp"].MProcess}[case["cls"]]
        f = getattr(cls, case["fn"])
        kw = {"on_para_eq_constraint": on_para}
        try:
            r1 = canon(f(c, var, **kw))
        except Exception as e:
            r1 = canon(e)
        mutated = not np.array_equal(var, before)
        try:
            r2 = canon(f(World().csys(((case["sys"],), 0)), before.copy(), **kw))
        except Exception as e:
            r2 = canon(e)
        ctx.count("heap", key=key + (case["cls"],), nontrivial=not (isinstance(r1, tuple) and r1[0] == "exc"), label="%s.%s" % (case["cls"], case["fn"]))
        site = "%s.%s" % (case["cls"], case["fn"])
        if mutated:
            ctx.violation("heap", site, "mutates-argument", "argument overwritten (on_para_eq_constraint=%s)" % on_para, case)
        if not same(r1, r2):
            ctx.violation("heap", site, "history-dependent", "second call on a copy in a fresh world gives another result", case)
        # the variable vector in other memory layouts: a strided view into a larger buffer, a read-only array
        for lname, largs, parents in layout_variants([before.copy()]):
            if lname == "fortran":
                continue
            dl, dp = digest(largs), digest(parents)
            try:
                rl = canon(f(World().csys(((case["sys"],), 0)), largs[0], **kw))
            except Exception as e:
                rl = canon(e)
            if digest(largs) != dl or digest(parents) != dp:
                ctx.violation("heap", site, "mutates-argument", "%s variable vector overwritten (on_para_eq_constraint=%s)" % (lname, on_para), dict(case, layout=lname))
            elif not same(r1, rl, 1e-12):
                ctx.violation("heap", site, "layout-dependent", "%s on a contiguous vector, %s on the same values as a %s vector" % (_brief(r1), _brief(rl), lname), dict(case, layout=lname))


def var_len(cls, d, on_para, m):
    d2 = d * d
    if cls == "State":
        return d2 - 1 if on_para else d2
    if cls == "Gate":
        return d2 * d2 - d2 if on_para else d2 * d2
    if cls == "Povm":
        return (m - 1) * d2 if on_para else m * d2
    return m * d2 * d2 - d2 if on_para else m * d2 * d2


def rvec(rng, n):
    return ["%d/10" % rng.randint(-12, 12) for _ in range(n)]


def sub_heap(ctx):
    rng = ctx.rng
    cases = []
    for _ in range(ctx.n(30, 300)):
        sysn = 0 if rng.random() < 0.85 or ctx.quick else 2
        d = 3 if sysn == 2 else 2
        on_para = rng.random() < 0.5
        m = rng.randint(1, 3) if d == 2 else 2
        n = var_len("MProcess", d, on_para, m)
        if rng.random() < 0.1:
            n += rng.choice([-1, 1, 3])            # malformed length
        cases.append({"fn": rng.choice(["proj_eq", "proj_eq", "var_to_hss"]), "sys": sysn, "on_para": int(on_para), "var": rvec(rng, max(n, 0))})
    for _ in range(ctx.n(30, 300)):
        cls = rng.choice(["State", "Povm", "Gate", "MProcess"])
        fn = rng.choice(["calc_proj_eq_constraint_with_var", "calc_proj_ineq_constraint_with_var", "convert_var_to_stacked_vector", "convert_stacked_vector_to_var"])
        if cls == "MProcess" and fn == "calc_proj_eq_constraint_with_var":
            continue
        on_para = rng.random() < 0.5
        m = rng.randint(2, 3)
        n = var_len(cls, 2, on_para if fn != "convert_stacked_vector_to_var" else False, m)
        cases.append({"fn": fn, "cls": cls, "sys": 0, "on_para": int(on_para), "var": rvec(rng, n)})
    ctx.sample("heap", cases[0])
    ctx.run_cases("heap", chk_heap, cases)


# ------------------------------------------------------------------------------------------------ bases, copies
def _elem_arrays(e):
    """the numpy buffers behind one basis element (dense array, or data / indices / indptr of a csr matrix)"""
    return [e] if isinstance(e, np.ndarray) else [e.data, e.indices, e.indptr]


def _try_writes(e):
    """every way of writing into a basis element in place; each must be refused"""
    done = []
    import warnings as _w
    with _w.catch_warnings():
        _w.simplefilter("ignore")
        if isinstance(e, np.ndarray):
            attempts = [("e[0] = e[0] + 1", lambda: e.__setitem__(0 if e.ndim == 1 else (0, 0), e.flat[0] + 1.0)),
                        ("e += 1", lambda: e.__iadd__(1.0))]
        else:
            nz = tuple(int(v[0]) for v in e.nonzero()) if e.nnz else (0, 0)
            dense = e.toarray()
            zeros = np.argwhere(dense == 0)
            zpos = tuple(int(v) for v in zeros[0]) if len(zeros) else None
            attempts = [("e.data[0] += 1", lambda: e.data.__setitem__(0, e.data[0] + 1.0)),
                        ("e[i, j] = v at a stored entry", lambda: e.__setitem__(nz, 7.0)),
                        ("e *= 2", lambda: e.__imul__(2.0))]
            if zpos is not None:
                attempts.append(("e[i, j] = v at a structural zero", lambda: e.__setitem__(zpos, 7.0)))
        for name, f in attempts:
            try:
                f()
                done.append(name)
            except (ValueError, TypeError, RuntimeError, NotImplementedError):
                pass
    return done


def chk_basis(ctx, case):
    Q = q()
    mb = Q["mb"]
    kind = case["kind"]
    shared = []
    if kind in ("getter", "getter_vect"):
        b = getattr(mb, case["name"])(*case.get("args", []))
        site = "matrix_basis." + case["name"]
        if kind == "getter_vect":
            b = b.to_vect()
            site = S_VECT
    elif kind == "sparse_from":
        # a SparseMatrixBasis built by the user from a list of dense arrays / of csr matrices / from a MatrixBasis
        import scipy.sparse as sp
        src = getattr(mb, case["name"])(*case.get("args", []))
        given = [np.array(x) for x in src] if case["of"] == "dense" else [sp.csr_matrix(np.array(x)) for x in src] if case["of"] == "csr" else src
        b = mb.SparseMatrixBasis(given)
        site = S_SPARSE
        if case["of"] != "basis":
            if b.basis is given:
                shared.append("the list handed to the constructor IS the basis container")
            if any(x is y for x in b for y in given):
                shared.append("elements are the caller's objects")
            if any(np.shares_memory(u, v) for x, y in zip(b, given) for u in _elem_arrays(x) for v in _elem_arrays(y)):
                shared.append("elements share memory with the caller's arrays")
    else:
        w = World()
        c = w.csys((tuple(case["names"]), 0))
        b = c.basis() if kind in ("csys", "vect") else w.esys(case["names"][0]).basis
        site = S_SPARSE if type(b) is mb.SparseMatrixBasis else "MatrixBasis.__init__"
        if kind == "vect":
            b = b.to_vect()
            site = S_VECT
    ctx.count("basis", key=repr(case), label="%s %s" % (kind, type(b).__name__))
    if not isinstance(b.basis, tuple):
        ctx.violation("basis", site, "container-mutable", "basis container is %s, not a tuple" % type(b.basis).__name__, case)
    if shared:
        ctx.violation("basis", site, "shares-caller-objects", "; ".join(shared) + " - the caller can modify the basis afterwards", case)
    before = digest(b)
    writable, succeeded = [], []
    for i, e in enumerate(b):
        if any(a.flags.writeable for a in _elem_arrays(e)):
            writable.append(i)
        succeeded += ["element %d: %s" % (i, n) for n in _try_writes(e)]
    changed = digest(b) != before
    if writable or changed or succeeded:
        ctx.violation("basis", site, "elements-writable",
                      "elements %s of the %s are writable; in-place writes that went through: %s; the basis %s" % (
                          writable[:4], type(b).__name__, succeeded[:3], "changed" if changed else "did not change"), case)
    if kind == "csys" and changed:
        # consequence (C13_cache_needs_immutable_basis): tables built afterwards differ from a fresh system's
        bad = [SLOTS[i] for i in (3, 6) if digest(GETTERS[i](c)) != fresh_table(tuple(case["names"]), i)]
        if bad:
            ctx.note("writable sparse basis: after an in-place write the tables %s differ from a fresh system's (C13_cache_needs_immutable_basis)" % bad)


def chk_copy(ctx, case):
    """copies are independent of their originals: no shared memory, writing into the copy leaves the original alone"""
    rng = random.Random(case["seed"])
    w = World()
    pool = make_pool(w, rng)
    for key, ent in pool.items():
        o = ent["obj"]
        if ent["kind"] not in ("State", "Gate", "Povm", "MProcess"):
            continue
        before = digest(o)
        for how in ("copy", "deepcopy"):
            cp = o.copy() if how == "copy" else copy.deepcopy(o)
            site = "%s.%s" % (ent["kind"], how)
            ctx.count("copy", key=(case["seed"], key, how), label=site)
            if digest(cp) != before:
                ctx.violation("copy", site, "value", "copy differs from the original", dict(case, key=key)); continue
            fo, fc = freeze(o, None)["arrs"], None
            arrs_o = [o.vec] if ent["kind"] == "State" else [o.hs] if ent["kind"] == "Gate" else list(o.vecs) if ent["kind"] == "Povm" else list(o.hss)
            arrs_c = [cp.vec] if ent["kind"] == "State" else [cp.hs] if ent["kind"] == "Gate" else list(cp.vecs) if ent["kind"] == "Povm" else list(cp.hss)
            if any(np.shares_memory(a, b) for a in arrs_o for b in arrs_c):
                ctx.violation("copy", site, "shares-memory", "copy shares an array with the original", dict(case, key=key)); continue
            for a in arrs_c:
                if a.flags.writeable:
                    a += 1.0
            if digest(o) != before:
                ctx.violation("copy", site, "not-independent", "writing into the copy changed the original", dict(case, key=key))
            if how == "copy" and cp.composite_system is not o.composite_system:
                ctx.violation("copy", site, "value", "copy lives on another composite system", dict(case, key=key))


def sub_basis(ctx):
    cases = [{"kind": "getter", "name": n, "args": a} for n, a in
             [("get_comp_basis", [2]), ("get_comp_basis", [3]), ("get_pauli_basis", [1]), ("get_normalized_pauli_basis", [1]),
              ("get_normalized_pauli_basis", [2]), ("get_hermitian_basis", [3]), ("get_normalized_hermitian_basis", [2]),
              ("get_gell_mann_basis", []), ("get_normalized_gell_mann_basis", []), ("get_generalized_gell_mann_basis", [1, 3]),
              ("get_normalized_generalized_gell_mann_basis", [1, 3])]]
    cases += [{"kind": "esys", "names": [0]}, {"kind": "esys", "names": [2]},
              {"kind": "csys", "names": [0]}, {"kind": "csys", "names": [2]}, {"kind": "csys", "names": [0, 1]},
              {"kind": "vect", "names": [0]}, {"kind": "vect", "names": [2]}, {"kind": "vect", "names": [0, 1]},
              {"kind": "sparse_from", "of": "dense", "name": "get_pauli_basis", "args": [1]},
              {"kind": "sparse_from", "of": "csr", "name": "get_normalized_pauli_basis", "args": [1]},
              {"kind": "sparse_from", "of": "csr", "name": "get_gell_mann_basis", "args": []},
              {"kind": "sparse_from", "of": "basis", "name": "get_normalized_gell_mann_basis", "args": []}]
    cases += [{"kind": "getter_vect", "name": n, "args": a} for n, a in [("get_normalized_pauli_basis", [1]), ("get_gell_mann_basis", [])]]
    ctx.sample("basis", cases[-1])
    ctx.run_cases("basis", chk_basis, cases)
    cc = [{"seed": ctx.rng.randrange(1 << 30)} for _ in range(ctx.n(3, 30))]
    ctx.run_cases("copy", chk_copy, cc)


# ------------------------------------------------------------------------------------------------ pool of objects
def fr10(rng, lo=-9, hi=9):
    return rng.randint(lo, hi) / 10.0


# a configuration that differs from the defaults in every settable respect (half of the pool objects carry it)
VARIED = dict(on_para_eq_constraint=False, on_algo_eq_constraint=False, on_algo_ineq_constraint=False, mode_proj_order="ineq_eq",
              eps_proj_physical=1e-6, eps_truncate_imaginary_part=1e-8)


def make_pool(world, rng):
    """objects of all types on qubit systems 0 and 1 and the qutrit system 2, from small rationals; a mixture of
    physical and non-physical ones (is_physicality_required False so that arithmetic results are admissible)"""
    Q = q()
    pool = {}
    s2 = 1 / np.sqrt(2)

    def add(key, kind, obj, csid, **meta):
        pool[key] = dict(kind=kind, obj=obj, csid=csid, **meta)

    def rgate():
        hs = np.eye(4)
        M = np.array([[fr10(rng) for _ in range(3)] for _ in range(3)]) * 0.5
        hs[1:, 1:] = M
        hs[1:, 0] = [fr10(rng, -3, 3) * 0.5 for _ in range(3)]
        if rng.random() < 0.3:
            hs[0, 1:] = [fr10(rng, -2, 2) for _ in range(3)]       # not trace preserving
        return hs

    for n in (0, 1):
        cid = ((n,), 0)
        c = world.csys(cid)
        for k in range(2):
            r = np.array([fr10(rng), fr10(rng), fr10(rng)])
            if k == 0 and np.linalg.norm(r) > 0.95:
                r = r / (2 * np.linalg.norm(r))
            vec = s2 * np.concatenate([[1.0 if rng.random() < 0.8 else 1.2], r])
            add("S%d%d" % (n, k), "State", Q["st"].State(c, vec, is_physicality_required=False, is_estimation_object=bool(k), **(VARIED if k else {})), cid)
        for k in range(2):
            add("G%d%d" % (n, k), "Gate", Q["gt"].Gate(c, rgate(), is_physicality_required=False, is_estimation_object=bool(k), **(VARIED if k else {})), cid)
        m = 2 + (n + rng.randint(0, 1)) % 2
        a = [0.5, 0.25, 0.25][:m] if m == 3 else [0.6, 0.4]
        ns = [np.array([fr10(rng), fr10(rng), fr10(rng)]) for _ in range(m - 1)]
        ns.append(-sum(ai * ni for ai, ni in zip(a, ns)) / a[-1])
        vecs = [np.sqrt(2) * ai * np.concatenate([[1.0], ni]) for ai, ni in zip(a, ns)]
        add("P%d0" % n, "Povm", Q["pv"].Povm(c, vecs, is_physicality_required=False, **(VARIED if n else {})), cid)
        mo = 2 if n == 0 else 3
        ps = [0.7, 0.3] if mo == 2 else [0.5, 0.3, 0.2]
        hss = [p * rgate() for p in ps]
        add("M%d0" % n, "MProcess", Q["mp"].MProcess(c, hss, is_physicality_required=False, **({} if n else VARIED)), cid)
        for cls in ("State", "Gate", "Povm", "MProcess"):
            for on_para in (True, False):
                mm = {"Povm": m, "MProcess": mo}.get(cls, 1)
                v = np.array([fr10(rng, -12, 12) for _ in range(var_len(cls, 2, on_para, mm))])
                add("V%d%s%d" % (n, cls[0], on_para), "var", v, cid, cls=cls, on_para=on_para)
    # joint distributions (unequal numbers of values per variable, one with a zero entry)
    for key, shape in (("D0", (2, 3)), ("D1", (2, 2, 2)), ("D2", (4,))):
        n = int(np.prod(shape))
        wts = [rng.randint(1, 9) for _ in range(n)]
        if key == "D2":
            wts[rng.randrange(n)] = 0
        add(key, "MD", Q["md"].MultinomialDistribution(np.array(wts, dtype=np.float64) / sum(wts), shape=shape), None)
    cid = ((2,), 0)
    c = world.csys(cid)
    for k in range(2):
        vec = np.concatenate([[1 / np.sqrt(3)], [fr10(rng, -4, 4) * 0.5 for _ in range(8)]])
        add("S2%d" % k, "State", Q["st"].State(c, vec, is_physicality_required=False), cid)
    e0 = np.zeros(9); e0[0] = np.sqrt(3)
    dv = np.array([0.0] + [fr10(rng, -3, 3) * 0.5 for _ in range(8)])
    add("P20", "Povm", Q["pv"].Povm(c, [0.5 * e0 + dv, 0.5 * e0 - dv], is_physicality_required=False), cid)
    hs = np.eye(9) * 0.8; hs[0, 0] = 1.0; hs[1:, 0] = [fr10(rng, -2, 2) * 0.1 for _ in range(8)]
    add("G20", "Gate", Q["gt"].Gate(c, hs, is_physicality_required=False), cid)
    # every base object has a copy made NOW ("twin"): it must stay compatible with its original (same configuration)
    for key, ent in pool.items():
        if ent["kind"] in ("State", "Gate", "Povm", "MProcess"):
            ent["base"] = True
            ent["twin"] = ent["obj"].copy()
            ent["twin_fr"] = freeze(ent["obj"], ent["csid"])
    return pool


# ------------------------------------------------------------------------------------------------ operations of histories
def _cls(Q, name):
    return {"State": Q["st"].State, "Povm": Q["pv"].Povm, "Gate": Q["gt"].Gate, "MProcess": Q["mp"].MProcess}[name]


UNARY = {
    "State": ["to_density_matrix", "to_density_matrix_with_sparsity", "is_physical", "to_var", "to_stacked_vector",
              "calc_proj_eq_constraint", "calc_proj_ineq_constraint", "calc_proj_physical", "copy", "generate_zero_obj",
              "generate_origin_obj", "is_eq_constraint_satisfied", "is_ineq_constraint_satisfied", "calc_eigenvalues", "is_hermitian",
              "is_trace_one", "is_positive_semidefinite"],
    "Gate": ["to_choi_matrix", "to_choi_matrix_with_dict", "to_choi_matrix_with_sparsity", "to_kraus_matrices", "to_process_matrix",
             "is_tp", "is_cp", "is_physical", "to_var", "to_stacked_vector", "calc_proj_eq_constraint", "calc_proj_ineq_constraint",
             "calc_proj_physical", "copy", "generate_zero_obj", "generate_origin_obj", "convert_to_comp_basis"],
    "Povm": ["matrices", "is_physical", "is_identity_sum", "is_positive_semidefinite", "to_var", "to_stacked_vector",
             "calc_proj_eq_constraint", "calc_proj_ineq_constraint", "calc_proj_physical", "copy", "generate_zero_obj",
             "generate_origin_obj", "calc_eigenvalues", "is_hermitian", "convert_to_comp_basis"],
    "MProcess": ["is_sum_tp", "is_cp", "is_physical", "to_var", "to_stacked_vector", "to_povm", "calc_proj_eq_constraint",
                 "calc_proj_ineq_constraint", "calc_proj_physical", "copy", "generate_zero_obj", "generate_origin_obj"],
}
UNARY["MD"] = ["ps", "shape", "is_zero_dist", "eps_zero"]
UNARY["Ens"] = ["prob_dist", "states", "eps_zero"]
INDEXED = {"MProcess": ["to_choi_matrix", "to_choi_matrix_with_dict", "to_choi_matrix_with_sparsity", "to_kraus_matrices", "to_process_matrix", "hs"],
           "Povm": ["matrix", "vec"]}
COMPOSE = [("Gate", "State"), ("Povm", "State"), ("Gate", "Gate"), ("Povm", "Gate"), ("MProcess", "State"), ("MProcess", "Gate"),
           ("Gate", "MProcess"), ("Povm", "MProcess"), ("MProcess", "MProcess"), ("Gate", "Ens"), ("Povm", "Ens"), ("MProcess", "Ens")]
TENSOR = [("State", "State"), ("Gate", "Gate"), ("Povm", "Povm"), ("MProcess", "Gate"), ("Gate", "MProcess"), ("State", "Ens"), ("Ens", "State")]
VARFN = ["calc_proj_eq_constraint_with_var", "calc_proj_ineq_constraint_with_var", "convert_var_to_stacked_vector", "generate_from_var"]
# function factories on an object: every one, with every combination of its arguments (also None = "the object's own")
FACTORIES = {"func_calc_proj_eq_constraint": 1, "func_calc_proj_eq_constraint_with_var": 1, "func_calc_proj_ineq_constraint": 1,
             "func_calc_proj_ineq_constraint_with_var": 1, "func_calc_proj_physical": 3, "func_calc_proj_physical_with_var": 3}
FACTORY_ARGS = [(op, order, it) for op in (None, True, False) for order in (None, "eq_ineq", "ineq_eq") for it in (None, 1, 30)]
SETTERS = [("set_mode_proj_order", "eq_ineq"), ("set_mode_proj_order", "ineq_eq"), ("eps_truncate_imaginary_part", 1e-6), ("eps_truncate_imaginary_part", 1e-11),
           ("set_zero", None)]


def probe_vectors(obj, on_para):
    """two fixed non-physical variable vectors of the length the closure expects"""
    Q = q()
    cls = type(obj).__name__
    m = len(obj.vecs) if cls == "Povm" else len(obj.hss) if cls == "MProcess" else 1
    n = var_len(cls, obj.dim, obj.on_para_eq_constraint if on_para is None else on_para, m)
    return [[((3 * i + 1 + 5 * j) % 7 - 3) / 5.0 + (0.6 if i == 0 else 0.0) for i in range(n)] for j in range(2)]


def perform(world, desc, operands):
    """execute one operation descriptor on already materialised operands; returns the raw result"""
    Q = q()
    t = desc["t"]
    if t == "unary":
        f = getattr(operands[0], desc["m"])
        if desc["m"] == "calc_proj_physical":
            return f(max_iteration=desc.get("maxit", 200))
        if desc["m"] == "is_physical" and "atols" in desc:
            return f(atol_eq_const=desc["atols"][0], atol_ineq_const=desc["atols"][1])
        if desc["m"] in ("is_eq_constraint_satisfied", "is_ineq_constraint_satisfied") and "atols" in desc:
            return f(atol=desc["atols"][0])
        return f() if callable(f) else f                       # read-only properties of distributions / ensembles
    if t == "indexed":
        return getattr(operands[0], desc["m"])(desc["i"])
    if t == "factory":
        o = operands[0]
        kw = {}
        if desc["on_para"] is not None:
            kw["on_para_eq_constraint"] = desc["on_para"]
        if FACTORIES[desc["m"]] == 3:
            if desc["order"] is not None:
                kw["mode_proj_order"] = desc["order"]
            kw["max_iteration"] = 30 if desc["maxit"] is None else desc["maxit"]          # (the default 1000 only costs time)
        return Closure(getattr(o, desc["m"])(**kw), probe_vectors(o, desc["on_para"]))
    if t == "setter":
        o = operands[0]
        if desc["m"] == "set_mode_proj_order":
            o.set_mode_proj_order(desc["v"])
        elif desc["m"] == "set_zero":
            o.set_zero()
        else:
            setattr(o, desc["m"], desc["v"])
        return o                                                    # the whole object afterwards is the observation
    if t == "twin":
        a, b = operands
        return [a + b, a - b, b - a]
    if t == "md":
        o = operands[0]
        if desc["m"] == "getitem":
            return o[tuple(desc["idx"]) if isinstance(desc["idx"], list) else desc["idx"]]
        if desc["m"] == "marginalize":
            return o.marginalize(list(desc["idx"]))
        if desc["m"] == "conditionalize":
            return o.conditionalize(list(desc["idx"]), [tuple(v) if isinstance(v, list) else v for v in desc["vals"]] if desc.get("multi") else list(desc["vals"]))
        if desc["m"] == "sampling":
            return o.execute_random_sampling(desc["num"], desc["size"], random_generator=desc["seed"])
        if desc["m"] == "state":
            return o.state(tuple(desc["idx"]) if isinstance(desc["idx"], list) else desc["idx"])
        raise KeyError(desc["m"])
    if t == "arith":
        a = operands[0]
        if desc["m"] == "add":
            return a + operands[1]
        if desc["m"] == "sub":
            return a - operands[1]
        if desc["m"] == "mul":
            return a * desc["c"]
        if desc["m"] == "rmul":
            return desc["c"] * a
        return a / desc["c"]
    if t == "compose":
        return Q["op"].compose_qoperations(operands[0], operands[1])
    if t == "tensor":
        return Q["op"].tensor_product(operands[0], operands[1])
    if t == "varfn":
        obj, var = operands
        m = desc["m"]
        if m.startswith("func_"):
            return getattr(obj, m)(on_para_eq_constraint=desc["on_para"])(var)
        if m == "generate_from_var":
            return obj.generate_from_var(var, on_para_eq_constraint=desc["on_para"], is_physicality_required=False, **desc.get("kw", {}))
        return getattr(type(obj), m)(obj.composite_system, var, on_para_eq_constraint=desc["on_para"])
    if t == "cache":
        c = operands[0]
        if desc["code"] < 16:
            return GETTERS[desc["code"]](c)
        getattr(c, DELETERS[desc["code"] - 16])()
        return None
    if t == "basisq":
        c = operands[0]
        return [c.dim, c.num_e_sys, c.is_orthonormal_hermitian_0thprop_identity, c.is_basis_hermitian, c.basis(), c.comp_basis()]
    raise KeyError(t)


def choose_op(rng, pool, hist_world):
    """draw one operation descriptor applicable to the current pool"""
    keys = sorted(pool)
    by = lambda kind: [k for k in keys if pool[k]["kind"] == kind]
    allobjs = [k for k in keys if pool[k]["kind"] in UNARY]
    objs = [k for k in allobjs if pool[k]["kind"] not in ("MD", "Ens")]
    for _ in range(50):
        r = rng.random()
        if r < 0.07:
            # distributions and ensembles: indexed access, marginalisation, conditioning, seeded sampling
            k = rng.choice([x for x in allobjs if pool[x]["kind"] in ("MD", "Ens")])
            o = pool[k]["obj"]
            if pool[k]["kind"] == "Ens":
                if rng.random() < 0.5:
                    return {"t": "unary", "m": rng.choice(UNARY["Ens"]), "a": [k]}
                return {"t": "md", "m": "state", "idx": rng.randrange(len(o.states) + 1), "a": [k]}
            shape = tuple(int(x) for x in o.shape)
            nv = len(shape)
            m = rng.choice(["getitem", "marginalize", "conditionalize", "conditionalize", "sampling", "unary"])
            if m == "unary":
                return {"t": "unary", "m": rng.choice(UNARY["MD"]), "a": [k]}
            if m == "getitem":
                idx = [rng.randrange(n) for n in shape] if rng.random() < 0.6 else rng.randrange(int(np.prod(shape)) + 1)
                return {"t": "md", "m": m, "idx": idx, "a": [k]}
            if m == "marginalize":
                return {"t": "md", "m": m, "idx": sorted(rng.sample(range(nv), rng.randint(1, nv))) if rng.random() < 0.9 else [nv], "a": [k]}
            if m == "conditionalize":
                idx = sorted(rng.sample(range(nv), rng.randint(1, max(1, nv - 1))))
                return {"t": "md", "m": m, "idx": idx, "vals": [rng.randrange(shape[i]) for i in idx], "a": [k]}
            return {"t": "md", "m": m, "num": rng.choice([1, 10, 50]), "size": rng.randint(1, 3), "seed": rng.randrange(1000), "a": [k]}
        if r < 0.18:
            # function factories, configuration setters, arithmetic with the copy made earlier - on base objects
            base = [x for x in objs if pool[x].get("base") and (pool[x]["obj"].dim == 2 or pool[x]["kind"] in ("State", "Povm"))]
            k = rng.choice(base)
            r2 = rng.random()
            if r2 < 0.6:
                m = rng.choice(sorted(FACTORIES))
                op_, order, it = rng.choice(FACTORY_ARGS)
                return {"t": "factory", "m": m, "on_para": op_, "order": order if FACTORIES[m] == 3 else None, "maxit": it if FACTORIES[m] == 3 else None, "a": [k]}
            if r2 < 0.8:
                m, v = rng.choice(SETTERS)
                return {"t": "setter", "m": m, "v": v, "a": [k]}
            return {"t": "twin", "a": [k]}
        if r < 0.34:
            k = rng.choice(objs); kind = pool[k]["kind"]
            if kind in INDEXED and rng.random() < 0.3:
                o = pool[k]["obj"]
                n = len(o.hss) if kind == "MProcess" else len(o.vecs)
                return {"t": "indexed", "m": rng.choice(INDEXED[kind]), "i": rng.randrange(n), "a": [k]}
            d_ = {"t": "unary", "m": rng.choice(UNARY[kind]), "a": [k]}
            if d_["m"] == "calc_proj_physical" and rng.random() < 0.5:
                d_["maxit"] = rng.choice([1, 5, 60])
            if d_["m"] in ("is_physical", "is_eq_constraint_satisfied", "is_ineq_constraint_satisfied") and rng.random() < 0.5:
                d_["atols"] = [rng.choice([1e-3, 1e-9]), rng.choice([1e-3, 1e-9])]
            return d_
        if r < 0.46:
            k = rng.choice(objs); kind = pool[k]["kind"]
            m = rng.choice(["add", "sub", "mul", "rmul", "div"])
            if m in ("add", "sub"):
                same_sys = [x for x in by(kind) if pool[x]["csid"] == pool[k]["csid"]]
                k2 = rng.choice(same_sys if rng.random() < 0.9 else by(kind))
                return {"t": "arith", "m": m, "a": [k, k2]}
            return {"t": "arith", "m": m, "c": rng.choice([2, 0.5, -1.5, 3]), "a": [k]}
        if r < 0.60:
            ka, kb = rng.choice(COMPOSE)
            A, B = by(ka), by(kb)
            if not A or not B:
                continue
            a = rng.choice(A)
            Bs = [x for x in B if pool[x]["csid"] == pool[a]["csid"]]
            if not Bs and rng.random() < 0.9:
                continue
            return {"t": "compose", "a": [a, rng.choice(Bs or B)]}
        if r < 0.68:
            ka, kb = rng.choice(TENSOR)
            A = [x for x in by(ka) if len(pool[x]["csid"][0]) == 1]
            if not A:
                continue
            a = rng.choice(A)
            lim = 4 if "Gate" in (ka, kb) or "MProcess" in (ka, kb) else 6
            dim_of = lambda o: o.states[0].dim if hasattr(o, "states") else o.dim
            B = [x for x in by(kb) if len(pool[x]["csid"][0]) == 1 and pool[x]["csid"][0] != pool[a]["csid"][0]
                 and dim_of(pool[x]["obj"]) * dim_of(pool[a]["obj"]) <= lim]
            if not B:
                continue
            return {"t": "tensor", "a": [a, rng.choice(B)]}
        if r < 0.84:
            V = by("var")
            if not V:
                continue
            v = rng.choice(V)
            O = [x for x in by(pool[v]["cls"]) if pool[x]["csid"] == pool[v]["csid"] and x[0] in "SGPM" and len(x) == 3]
            if not O:
                continue
            d_ = {"t": "varfn", "m": rng.choice(VARFN), "on_para": pool[v]["on_para"], "a": [rng.choice(O), v]}
            if d_["m"] == "generate_from_var" and rng.random() < 0.7:
                # configuration arguments that differ from the generating object's own configuration
                opts = {"is_estimation_object": rng.random() < 0.5, "on_algo_eq_constraint": rng.random() < 0.5, "on_algo_ineq_constraint": rng.random() < 0.5,
                        "mode_proj_order": rng.choice(["eq_ineq", "ineq_eq"]), "eps_proj_physical": rng.choice([1e-4, 1e-7])}
                d_["kw"] = {k_: opts[k_] for k_ in sorted(opts) if rng.random() < 0.6}
            return d_
        if r < 0.97:
            cids = sorted(set(pool[k]["csid"] for k in objs))
            cid = rng.choice(cids)
            if rng.random() < 0.2:
                return {"t": "basisq", "cs": [list(cid[0]), cid[1]], "a": []}
            i = rng.randrange(9)
            code = i if rng.random() < 0.5 else 16 + (i if i > 0 else rng.randrange(1, 9))
            if len(cid[0]) > 1 or cid[0] == (2,):
                code = code if code >= 16 or code in (3, 4) else 3 + code % 2        # keep the big tables of larger systems out of the quick path
            return {"t": "cache", "code": code, "cs": [list(cid[0]), cid[1]], "a": []}
    return {"t": "unary", "m": "to_var", "a": [objs[0]]}


def op_site(desc, pool):
    t = desc["t"]
    kinds = [pool[k]["kind"] if k in pool else "?" for k in desc["a"]]
    if t in ("unary", "indexed"):
        return "%s.%s" % (kinds[0], desc["m"])
    if t == "factory":
        return "%s.%s" % (kinds[0], desc["m"])
    if t == "setter":
        return "%s.%s" % (kinds[0], desc["m"] if desc["m"].startswith("set_") else desc["m"] + ".setter")
    if t == "twin":
        return "%s.__add__/__sub__(copy made earlier)" % kinds[0]
    if t == "md":
        return "%s.%s" % ({"MD": "MultinomialDistribution", "Ens": "StateEnsemble"}.get(kinds[0], kinds[0]), {"getitem": "__getitem__", "sampling": "execute_random_sampling"}.get(desc["m"], desc["m"]))
    if t == "arith":
        return "%s.__%s__" % (kinds[0], {"div": "truediv"}.get(desc["m"], desc["m"]))
    if t == "compose":
        return "operators.compose_qoperations(%s,%s)" % tuple(kinds)
    if t == "tensor":
        return "operators.tensor_product(%s,%s)" % tuple(kinds)
    if t == "varfn":
        return "%s.%s" % (kinds[0], desc["m"])
    if t == "cache":
        return "CompositeSystem." + (SLOTS[desc["code"]] if desc["code"] < 16 else DELETERS[desc["code"] - 16])
    return "CompositeSystem.basis"


def run_history(ctx, case, report=True, record=None):
    """executes a history; returns (ops actually executed, failures [(site, signature, op index, what)])"""
    Q = q()
    rng = random.Random(case["seed"])
    world = World()
    pool = make_pool(world, random.Random(case["pool_seed"]))
    trackers = {}
    fails = []
    watch = []
    gen = case.get("ops") is None
    ops = [] if gen else case["ops"]
    length = case["length"] if gen else len(ops)
    labels = []
    atol0 = Q["Settings"].get_atol()
    for k in range(length):
        desc = choose_op(rng, pool, world) if gen else ops[k]
        if gen:
            if rng.random() < 0.08:
                desc["atol"] = rng.choice([1e-6, 1e-9, 1e-3])
            ops.append(desc)
        if any(a not in pool for a in desc["a"]):
            continue                                         # operand was produced by an operation removed while shrinking
        site = op_site(desc, pool)
        # ---- snapshots of every pool object and of every composite system's basis
        before = {key: snap(ent["obj"]) for key, ent in pool.items()}
        bases = {cid: digest(c.basis()) for cid, c in world.cs.items()}
        if desc["t"] in ("cache", "basisq"):
            cid = (tuple(desc["cs"][0]), desc["cs"][1])
            if cid not in world.cs:
                continue
            operands = [world.cs[cid]]
            frozen = None
        elif desc["t"] == "twin":
            # the object and the copy made of it earlier (at pool creation / after its last configuration setter); the fresh
            # world gets two objects thawed from the snapshot taken when that copy was made
            ent = pool[desc["a"][0]]
            if "twin" not in ent:
                continue
            operands = [ent["obj"], ent["twin"]]
            frozen = [ent["twin_fr"], ent["twin_fr"]]
        else:
            operands = [pool[a]["obj"] for a in desc["a"]]
            frozen = [freeze(pool[a]["obj"], pool[a]["csid"]) for a in desc["a"]]
        for cid2, c in list(world.cs.items()):
            if cid2 not in trackers:
                trackers[cid2] = CacheTracker(ctx, c, "history", "system %s" % (cid2,))
            else:
                trackers[cid2].__init__(ctx, c, "history", trackers[cid2].label)     # adopt what the snapshots above may have built
        # ---- the call in the history world
        if "atol" in desc:
            Q["Settings"].set_atol(desc["atol"])
        try:
            with warnings.catch_warnings():
                warnings.simplefilter("ignore")
                res = perform(world, desc, operands)
                rh = canon(res)                      # (a returned function is evaluated here, under the same global tolerance as in the fresh world)
        except Exception as e:
            res = e
            rh = canon(e)
        finally:
            atol_after = Q["Settings"].get_atol()
            Q["Settings"].set_atol(atol0)
        # ---- cache machine alongside: the exact step, compared IMMEDIATELY after the call (before the harness itself evaluates
        #      anything that may build tables); every other operation: resynchronised at the end of the iteration
        if desc["t"] == "cache":
            op_cid = (tuple(desc["cs"][0]), desc["cs"][1])
            for cid2, tr in trackers.items():
                tr.apply([desc["code"]] if cid2 == op_cid else [], "op %d" % k, dict(case, ops=ops[:k + 1]))
        if atol_after != desc.get("atol", atol0):
            fails.append((site, "mutates-global-settings", k, "op %d (%s) left Settings.atol at %r (was %r)" % (k, site, atol_after, desc.get("atol", atol0))))
        # ---- the same call on fresh deep copies in a fresh world
        fw = World()
        if frozen is None:
            fops = [fw.csys(cid)]
        else:
            fops = [thaw(fr, fw) for fr in frozen]
        if "atol" in desc:
            Q["Settings"].set_atol(desc["atol"])
        try:
            with warnings.catch_warnings():
                warnings.simplefilter("ignore")
                rf = canon(perform(fw, desc, fops))
        except Exception as e:
            rf = canon(e)
        finally:
            Q["Settings"].set_atol(atol0)
        if record is not None and frozen is not None and desc["t"] not in ("setter", "twin") and len(record) < 400:
            record.append({"k": k, "site": site, "desc": desc, "frozen": frozen, "rh": rh})
        if not same(rh, rf):
            fails.append((site, "history-dependent", k, "result of op %d (%s) differs from the same call on fresh copies in a fresh world: %s vs %s" % (k, site, _brief(rh), _brief(rf))))
        # ---- nothing that existed before may have changed
        for key, ent in pool.items():
            if desc["t"] == "setter" and key == desc["a"][0]:
                # a configuration setter is MEANT to change its operand (the state afterwards was compared with the fresh world
                # above); the copy kept for later compatibility checks is renewed
                if "twin" in ent:
                    ent["twin"] = ent["obj"].copy(); ent["twin_fr"] = freeze(ent["obj"], ent["csid"])
                continue
            if snap(ent["obj"]) != before[key]:
                sig = "mutates-argument" if key in desc["a"] else "mutates-derived-object"
                fails.append((site, sig, k, "op %d (%s) changed the value of pool object %s (%s)" % (k, site, key, "operand" if key in desc["a"] else "not an operand")))
        for cid2, c in world.cs.items():
            if cid2 in bases and digest(c.basis()) != bases[cid2]:
                fails.append((site, "mutates-basis", k, "op %d (%s) changed the basis of composite system %s" % (k, site, cid2)))
        for cid2, c in world.cs.items():
            for i, s in enumerate(SLOTS):
                o = getattr(c, s)
                if o is not None and (len(cid2[0]) == 1 or i in (3, 4)) and digest(o) != fresh_table(cid2[0], i):
                    fails.append(("CompositeSystem." + s, "stale-or-corrupted-table", k, "after op %d (%s) the cached table differs from a fresh system's" % (k, site)))
        # ---- results derived earlier (arrays, lists, closures returned by the func_calc_* factories observed through their outputs
        #      on fixed probe vectors) must keep their value whatever is done later to the objects they were derived from
        for wt in watch:
            dg = digest(wt["obj"])
            if dg != wt["dg"]:
                fails.append((site, "mutates-derived-object", k, "op %d (%s) changed the %s returned earlier by op %d (%s)" % (
                    k, site, "outputs of the function" if isinstance(wt["obj"], Closure) else "result", wt["k"], wt["site"])))
                wt["dg"] = dg
        if isinstance(res, (Closure, np.ndarray, list)) and desc["t"] != "twin":
            watch.append({"k": k, "site": site, "obj": res, "dg": digest(res)})
            cl = [w_ for w_ in watch if isinstance(w_["obj"], Closure)]
            ot = [w_ for w_ in watch if not isinstance(w_["obj"], Closure)]
            watch[:] = sorted(cl[-4:] + ot[-8:], key=lambda w_: w_["k"])
        # ---- a returned quara object is a NEW object: it owns its arrays (accessors that hand out a member are exempt)
        accessor = desc["t"] in ("setter", "cache", "basisq") or (desc["t"] == "md" and desc["m"] == "state") or \
            (desc["t"] == "unary" and desc["m"] in ("states", "prob_dist", "ps", "shape", "eps_zero", "is_zero_dist"))
        if not accessor and not isinstance(res, (Exception, np.ndarray, Closure)) and mutable_arrays_of(res):
            # generate_from_var is a constructor in the sense of the property ("constructors, which adopt the arrays handed to
            # them, excepted"): the generated object may be a view of the variable vector, and so may an object generated earlier
            adopts = desc["t"] == "varfn" and desc["m"] == "generate_from_var"
            for sig, msg in independence(res, [] if adopts else [(key, mutable_arrays_of(ent["obj"])) for key, ent in pool.items() if ent["kind"] != "var"]):
                fails.append((site, sig, k, "op %d (%s): %s" % (k, site, msg)))
        # ---- results join the pool
        labels.append(desc["t"] if not isinstance(res, Exception) else desc["t"] + "!raise")
        if desc["t"] == "setter":
            pass
        elif isinstance(res, (Q["st"].State, Q["gt"].Gate, Q["pv"].Povm, Q["mp"].MProcess)) and len(pool) < 60:
            cid = world.register(res.composite_system)
            pool["r%d" % k] = dict(kind=type(res).__name__, obj=res, csid=cid)
        elif isinstance(res, Q["md"].MultinomialDistribution) and len(pool) < 60:
            pool["r%d" % k] = dict(kind="MD", obj=res, csid=None)
        elif isinstance(res, Q["se"].StateEnsemble) and len(pool) < 60 and len(res.states) > 0:
            cid = world.register(res.states[0].composite_system)
            pool["r%d" % k] = dict(kind="Ens", obj=res, csid=cid)
        elif isinstance(res, np.ndarray) and desc["t"] == "varfn" and res.ndim == 1 and len(pool) < 60 and not desc["m"].startswith("convert"):
            v = pool[desc["a"][1]]
            pool["r%d" % k] = dict(kind="var", obj=res, csid=v["csid"], cls=v["cls"], on_para=v["on_para"])
    return ops, fails, labels


def _brief(c):
    s = repr(c)
    return s if len(s) < 160 else s[:160] + "..."


def shrink_history(ctx, case, ops, target):
    """greedy removal of operations while the same (site, signature) still fails"""
    cur = list(ops)
    i = len(cur) - 1
    budget = 60
    while i >= 0 and budget > 0:
        cand = cur[:i] + cur[i + 1:]
        budget -= 1
        try:
            _, fails, _ = run_history(ctx, dict(case, ops=cand))
        except Exception:
            fails = []
        if any((s, g) == target for s, g, _, _ in fails):
            cur = cand
        i -= 1
    return cur


def chk_history(ctx, case):
    ops, fails, labels = run_history(ctx, case)
    for lb in labels:
        ctx.count("history", key=(case["seed"], case["pool_seed"], len(labels), lb, ctx.evaluations), nontrivial=not lb.endswith("!raise"), label=lb)
    seen = set()
    for site, sig, k, what in fails:
        if (site, sig) in seen:
            continue
        seen.add((site, sig))
        small = shrink_history(ctx, case, ops[:k + 1], (site, sig)) if not case.get("noshrink") else ops[:k + 1]
        ctx.violation("history", site, sig, what + " | minimal history: %d operation(s)" % len(small),
                      {"seed": case["seed"], "pool_seed": case["pool_seed"], "ops": small, "noshrink": 1})


def chk_factory(ctx, case):
    """one func_calc_* factory of one pool object, called with EVERY combination of its arguments (None = the object's own
    setting): building the function must leave the object as it was (all public attributes and arrays), the function is the one
    a fresh copy in a fresh world gives, it keeps its outputs when the object is re-configured or overwritten afterwards, and a
    copy of the object made before stays compatible with it"""
    w = World()
    pool = make_pool(w, random.Random(case["pool_seed"]))
    ent = pool[case["key"]]
    fr = freeze(ent["obj"], ent["csid"])
    m = case["m"]
    kind = ent["kind"]
    site = "%s.%s" % (kind, m)
    combos = FACTORY_ARGS if FACTORIES[m] == 3 else [(op_, None, None) for op_ in (None, True, False)]
    for op_, order, it in combos:
        desc = {"t": "factory", "m": m, "on_para": op_, "order": order, "maxit": it, "a": [case["key"]]}
        sub = dict(case, combo=[op_, order, it])
        if case.get("combo") is not None and list(case["combo"]) != [op_, order, it]:
            continue
        obj = thaw(fr, w)
        twin = obj.copy()
        d0 = snap(obj)
        try:
            cl = perform(w, desc, [obj])
        except Exception as e:
            ctx.count("factory", key=(case["key"], m, op_, order, it), nontrivial=False, label="%s!raise" % m)
            r2 = None
            try:
                perform(World(), desc, [thaw(fr, World())])
            except Exception as e2:
                r2 = e2
            if type(r2) is not type(e):
                ctx.violation("factory", site, "history-dependent", "factory raised %r, on a fresh copy %r" % (e, r2), sub)
            continue
        own = (obj.on_para_eq_constraint, obj.mode_proj_order)
        differs = (op_ is not None and op_ != own[0]) or ((order or "eq_ineq") != own[1] and FACTORIES[m] == 3)
        ctx.count("factory", key=(case["key"], m, op_, order, it), nontrivial=True,
                  label="%s %s" % (m, "arguments differ from the object's configuration" if differs else "arguments = the object's configuration"))
        if snap(obj) != d0:
            ctx.violation("factory", site, "mutates-argument",
                          "%s(on_para_eq_constraint=%s, mode_proj_order=%s, max_iteration=%s) changed its object: public attributes %s" % (
                              m, op_, order, it, [(a, b[1], c[1]) for a, b, c in [(x[0], x, y) for x, y in zip(public_config(thaw(fr, World())), public_config(obj))] if not same(b[1], c[1])][:4]), sub)
        out1 = canon(cl)
        fw = World()
        out_f = canon(perform(fw, desc, [thaw(fr, fw)]))
        if not same(out1, out_f):
            ctx.violation("factory", site, "history-dependent", "outputs of the function on the probe vectors %s, of the function built from a fresh copy %s" % (_brief(out1), _brief(out_f)), sub)
        # a copy made before the factory call is still compatible with the object
        try:
            _ = obj + twin; _ = twin - obj
        except Exception as e:
            ctx.violation("factory", site, "copy-incompatible", "after %s(%s, %s, %s) the object cannot be combined with a copy of itself made before: %r" % (m, op_, order, it, e), sub)
        # later changes of the object must not reach the function built earlier
        for what, act in (("set_mode_proj_order(other order)", lambda: obj.set_mode_proj_order("eq_ineq" if obj.mode_proj_order == "ineq_eq" else "ineq_eq")),
                          ("eps_truncate_imaginary_part = 1e-6", lambda: setattr(obj, "eps_truncate_imaginary_part", 1e-6)),
                          ("set_zero()", lambda: obj.set_zero())):
            try:
                act()
            except Exception:
                continue
            out2 = canon(cl)
            if not same(out1, out2):
                ctx.violation("factory", site, "closure-aliases-object",
                              "the function returned by %s(%s, %s, %s) changed its outputs after %s on the object it was built from: %s -> %s" % (m, op_, order, it, what, _brief(out1), _brief(out2)), sub)
                break


# ------------------------------------------------------------------------------------------------ utility functions
def pure_table():
    """(module, function, [argument lists]) for the array-valued helper functions that the objects, losses and estimators call on
    the user's data: float64 / complex128 arrays (never lists - those would be copied by np.asarray anyway), probability
    vectors with an entry that is exactly 0 in first / middle / last position, matrices with rounding-size imaginary parts"""
    A = lambda *v: np.array(v, dtype=np.float64)
    pvs = [A(0.5, 0.3, 0.2), A(1.0, 0.0), A(0.0, 0.25, 0.75), A(0.25, 0.0, 0.75), A(0.25, 0.75, 0.0)]
    H2 = np.array([[1.0, 0.5 - 0.25j], [0.5 + 0.25j, -0.5]], dtype=np.complex128)
    R4 = np.array([[((3 * i + 5 * j) % 7 - 3) / 4.0 for j in range(4)] for i in range(4)], dtype=np.float64)
    C4 = R4 + 1e-15j * R4.T
    P4 = R4 @ R4.T
    grads = lambda m: [A(*[((2 * x + a) % 5 - 2) / 3.0 for a in range(3)]) for x in range(m)]
    T = []
    for n in ("is_real", "is_symmetric", "is_unitary", "is_hermitian", "is_positive_semidefinite", "truncate_imaginary_part",
              "truncate_computational_fluctuation", "truncate_and_normalize", "calc_left_inv", "flatten", "toarray", "where_not_zero", "eig"):
        T.append(("matrix_util", n, [[H2.copy()], [R4.copy()], [C4.copy()], [P4.copy()]]))
    T += [("matrix_util", "partial_trace1", [[C4.copy(), 2], [R4.copy(), 2]]), ("matrix_util", "is_tp", [[C4.copy(), 2], [P4.copy(), 2]]),
          ("matrix_util", "truncate_hs", [[C4.copy()], [R4.astype(np.complex128)], [R4.copy()]]),
          ("matrix_util", "replace_prob_dist", [[v.copy()] for v in pvs] + [[pvs[1].copy(), 1e-3]]),
          ("matrix_util", "calc_covariance_mat", [[v.copy(), 100] for v in pvs]),
          ("matrix_util", "calc_covariance_mat_total", [[[(100, pvs[0].copy()), (50, pvs[1].copy())]], [[(10, pvs[2].copy())]]]),
          ("matrix_util", "calc_direct_sum", [[[H2.copy(), R4.copy()]], [[P4.copy()]]]),
          ("matrix_util", "calc_conjugate", [[H2.copy(), H2.T.copy()]]),
          ("matrix_util", "calc_mat_from_vector_adjoint", [[np.array([1.0 + 1j, 0.5], dtype=np.complex128)]]),
          ("matrix_util", "calc_se", [[[pvs[0].copy(), pvs[1].copy()], [pvs[4].copy(), pvs[1][::-1].copy()]]]),
          ("matrix_util", "calc_mse_prob_dists", [[[[pvs[0].copy()], [pvs[2].copy()]], [[pvs[3].copy()], [pvs[4].copy()]]]]),
          ("matrix_util", "calc_fisher_matrix", [[v.copy(), grads(len(v))] for v in pvs]),
          ("matrix_util", "calc_fisher_matrix_total", [[[pvs[1].copy(), pvs[2].copy()], [grads(2), grads(3)], [100.0, 50.0]]]),
          ("matrix_util", "kron", [[H2.copy(), R4.copy()]]), ("matrix_util", "vdot", [[H2.copy(), H2.conj().copy()]]),
          ("matrix_util", "allclose", [[R4.copy(), C4.copy()]]),
          ("entropy", "round_varz_vector", [[v.copy(), 1e-10] for v in pvs]),
          ("entropy", "relative_entropy", [[pvs[3].copy(), pvs[0].copy()], [pvs[0].copy(), pvs[4].copy(), None, None, False]]),
          ("entropy", "relative_entropy_vector", [[pvs[3].copy(), pvs[0].copy()], [pvs[0].copy(), pvs[4].copy(), None, None, False]]),
          ("entropy", "gradient_relative_entropy_2nd", [[pvs[3].copy(), pvs[0].copy(), np.array(grads(3))]]),
          ("entropy", "gradient_relative_entropy_2nd_vector", [[pvs[3].copy(), pvs[0].copy(), np.array(grads(3))]]),
          ("entropy", "hessian_relative_entropy_2nd", [[pvs[3].copy(), pvs[0].copy(), np.array(grads(3)), np.zeros((3, 3, 3))]]),
          ("matrix", "multiply_veca_vecb", [[pvs[0].copy(), pvs[2].copy()]]),
          ("matrix", "multiply_veca_vecb_matc", [[pvs[0].copy(), pvs[2].copy(), np.diag(pvs[3]).copy()]]),
          ("matrix", "project_to_traceless_matrix", [[P4.copy()], [H2.copy()]]),
          ("norm", "l2_norm", [[pvs[0].copy(), pvs[2].copy()]]),
          ("probability", "validate_prob_dist", [[v.copy()] for v in pvs]),
          ("func_proj", "proj_to_hyperplane", [[A(1.0, 2.0, 2.0)]]), ("func_proj", "proj_to_nonnegative", [[]]), ("func_proj", "proj_to_self", [[]])]
    return T


def layout_variants(args):
    """the same argument VALUES in other memory layouts: Fortran order, a strided view into a larger buffer (gaps filled with 99),
    read-only copies.  returns [(name, args, parents)] - parents are the buffers behind the views (they must stay untouched too)"""
    def mapa(x, f):
        if isinstance(x, np.ndarray):
            return f(x)
        if isinstance(x, list):
            return [mapa(v, f) for v in x]
        if isinstance(x, tuple):
            return tuple(mapa(v, f) for v in x)
        return x
    parents = []

    def strided(a):
        if a.ndim == 0 or a.size == 0:
            return a.copy()
        big = np.full(a.shape[:-1] + (2 * a.shape[-1],), 99, dtype=a.dtype)
        view = big[..., ::2]
        view[...] = a
        parents.append(big)
        return view

    def ro(a):
        b = a.copy(); b.setflags(write=False); return b
    out = [("fortran", mapa(args, lambda a: np.asfortranarray(a.copy()) if a.ndim >= 2 else a.copy()), [])]
    sv = mapa(args, strided)
    out.append(("strided", sv, parents))
    out.append(("read-only", mapa(args, ro), []))
    return out


def chk_pure(ctx, case):
    """helper functions neither change their arguments nor depend on earlier calls (the returned projection functions neither)"""
    import importlib
    modname = {"matrix_util": "quara.utils.matrix_util"}.get(case["mod"], "quara.math." + case["mod"])
    f = getattr(importlib.import_module(modname), case["fn"])
    rows = [r for (mo, fn, rws) in pure_table() if mo == case["mod"] and fn == case["fn"] for r in rws]
    site = "%s.%s" % (case["mod"], case["fn"])
    for idx, args in enumerate(rows):
        if case.get("row") is not None and idx != case["row"]:
            continue
        sub = dict(case, row=idx)
        d0 = digest(args)

        def call(a):
            try:
                with warnings.catch_warnings():
                    warnings.simplefilter("ignore")
                    r = f(*a)
                    if callable(r):                       # projection factories: observe the function on a probe vector
                        probe = np.array([0.5, -1.5, 2.0])
                        pd = digest(probe)
                        out = r(probe)
                        return ["function", canon(out), digest(probe) == pd]
                    return canon(r)
            except Exception as e:
                return canon(e)
        r1 = call(args)
        changed = digest(args) != d0
        ctx.count("pure", key=(site, idx), nontrivial=not (isinstance(r1, tuple) and r1[0] == "exc"), label=case["mod"])
        if changed:
            ctx.violation("pure", site, "mutates-argument", "%s changed its argument(s) (argument list %d of the table: %s)" % (site, idx, _brief(canon(args))), sub)
            continue
        if isinstance(r1, list) and len(r1) == 3 and isinstance(r1[0], str) and r1[0] == "function" and r1[2] is False:
            ctx.violation("pure", site, "mutates-argument", "the function returned by %s changed the vector it was applied to" % site, sub)
        r2 = call(args)
        r3 = call([copy.deepcopy(a) for a in args])
        if not same(r1, r2) or not same(r1, r3):
            ctx.violation("pure", site, "history-dependent", "%s: first call %s, second call %s, call on copies %s" % (site, _brief(r1), _brief(r2), _brief(r3)), sub)
        # the result depends on the VALUES of the arguments, not on their memory layout / write flag; the arguments (and the buffers behind
        # strided views) stay untouched
        for lname, largs, parents in layout_variants(args):
            dl, dp = digest(largs), digest(parents)
            rl = call(largs)
            ctx.count("pure", key=(site, idx, lname), nontrivial=not (isinstance(rl, tuple) and rl and rl[0] == "exc"), label="%s %s" % (case["mod"], lname))
            if digest(largs) != dl or digest(parents) != dp:
                ctx.violation("pure", site, "mutates-argument", "%s changed its %s argument(s) (argument list %d)" % (site, lname, idx), dict(sub, layout=lname))
            elif not same(r1, rl, 1e-12):
                ctx.violation("pure", site, "layout-dependent", "%s: %s on C-contiguous writable arrays, %s on the same values as %s arrays" % (site, _brief(r1), _brief(rl), lname), dict(sub, layout=lname))


def sub_pure(ctx):
    cases = [{"mod": mo, "fn": fn} for (mo, fn, _) in pure_table()]
    ctx.sample("pure", cases[0])
    ctx.run_cases("pure", chk_pure, cases)


# ------------------------------------------------------------------------------------------------ getters
def getter_objects(which):
    """fresh objects of every class, built with DEFAULT arguments wherever the constructor has defaults (lazily resolved defaults)"""
    Q = q()
    w = World()
    c = w.csys(((0,), 0))
    if which in ("State", "Gate", "Povm", "MProcess"):
        from quara.objects.state import get_x0_1q
        from quara.objects.gate import get_h
        from quara.objects.povm import get_z_povm
        if which == "State":
            return get_x0_1q(c)
        if which == "Gate":
            return get_h(c)
        if which == "Povm":
            return get_z_povm(c)
        return Q["mp"].MProcess(c, [0.5 * np.eye(4), 0.5 * np.eye(4)])
    if which == "MProcess(sampling)":
        return Q["mp"].MProcess(c, [0.5 * np.eye(4), 0.5 * np.eye(4)], mode_sampling=True, random_seed_or_generator=np.random.Generator(np.random.MT19937(5)))
    if which == "MultinomialDistribution":
        return Q["md"].MultinomialDistribution(np.array([0.25, 0.0, 0.5, 0.25]), shape=(2, 2))
    if which == "StateEnsemble":
        from quara.objects.state import get_x0_1q, get_z0_1q
        return Q["se"].StateEnsemble([get_x0_1q(c), get_z0_1q(c)], Q["md"].MultinomialDistribution(np.array([0.5, 0.5])))
    if which == "Experiment":
        return mk_experiment(w)
    if which.startswith("Standard"):
        return make_tomo(which[8:].lower(), True, w)
    if which.startswith("loss"):
        kind = int(which[4:])
        w2, c2, qst = loss_env(True)
        lo = new_loss(kind, qst.num_variables)
        lo.set_from_standard_qtomography_option_data(qst, loss_option(kind, "identity", None), mk_dataset([[100, "3/5"], [100, "9/20"], [100, "1/10"]]), True, False)
        return lo
    if which == "algo":
        from quara.minimization_algorithm.projected_gradient_descent_backtracking import ProjectedGradientDescentBacktracking as A
        a = A()
        a.set_from_option(algo_option(3))
        a.set_constraint_from_standard_qt_and_option(loss_env(True)[2], algo_option(3))
        return a
    raise KeyError(which)


GETTER_CLASSES = ["State", "Gate", "Povm", "MProcess", "MProcess(sampling)", "MultinomialDistribution", "StateEnsemble", "Experiment",
                  "StandardQst", "StandardPovmt", "StandardQpt", "StandardQmpt", "loss0", "loss1", "loss2", "loss3", "algo"]


def chk_getters(ctx, case):
    """READING is not an operation: reading any public property of a fresh object (built with default arguments), outside and inside
    a temporary Settings.set_atol window, leaves the PRIVATE state of the object (vars(), taken without getters) exactly as it was -
    a getter that resolves a default lazily would freeze the global tolerance of that moment into the object"""
    Q = q()
    which = case["cls"]
    atol0 = Q["Settings"].get_atol()
    for window in (None, 1e-3):
        o = getter_objects(which)
        names = [n for n in sorted(dir(type(o))) if not n.startswith("_") and isinstance(getattr(type(o), n, None), property)]
        if case.get("prop") is not None:
            names = [n for n in names if n == case["prop"]]
        r0 = raw_state(o)
        for n in names:
            if window is not None:
                Q["Settings"].set_atol(window)
            try:
                with warnings.catch_warnings():
                    warnings.simplefilter("ignore")
                    getattr(o, n)
            except Exception:
                pass
            finally:
                Q["Settings"].set_atol(atol0)
            r1 = raw_state(o)
            ctx.count("getters", key=(which, n, window), label=which)
            if repr(r1) != repr(r0):
                ch = [(a[0], a[1], b[1]) for a, b in zip(r0[1], r1[1]) if repr(a) != repr(b)] if isinstance(r0, tuple) and isinstance(r1, tuple) and len(r0[1]) == len(r1[1]) else "?"
                ctx.violation("getters", "%s.%s" % (type(o).__name__, n), "getter-mutates-object",
                              "reading the property %s of a fresh %s%s changed its private state: %s" % (
                                  n, which, "" if window is None else " while Settings.atol was temporarily %g" % window, _brief(ch)), dict(case, prop=n))
                r0 = r1


def sub_getters(ctx):
    cases = [{"cls": c_} for c_ in GETTER_CLASSES]
    ctx.sample("getters", cases[0])
    ctx.run_cases("getters", chk_getters, cases)


# ------------------------------------------------------------------------------------------------ seeded sampling
def chk_sampling(ctx, case):
    """an MProcess with mode_sampling=True and its own seed: what a composition returns is determined by the arguments (HS
    matrices, seed, state, number of draws made from THIS object before) - not by the state of numpy's global generator, which
    a seeded object must not touch either"""
    Q = q()
    rng = random.Random(case["seed"])
    w = World()
    pool = make_pool(w, random.Random(case["pool_seed"]))
    c = w.csys(((0,), 0))
    def tp_gate():                                 # trace-preserving HS matrix from small rationals
        hs = np.eye(4)
        hs[1:, 1:] = np.array([[fr10(rng) for _ in range(3)] for _ in range(3)]) * 0.5
        hs[1:, 0] = [fr10(rng, -3, 3) * 0.5 for _ in range(3)]
        return hs
    hss = [pw * tp_gate() for pw in ([0.5, 0.3, 0.2] if rng.random() < 0.5 else [0.6, 0.4])]      # outcome probabilities = the weights
    seed = case["mseed"]

    def mk():
        return Q["mp"].MProcess(c, [h.copy() for h in hss], is_physicality_required=False, mode_sampling=True, random_seed_or_generator=seed)
    st = Q["st"].State(c, np.array([1.0, fr10(rng, -5, 5), fr10(rng, -5, 5), fr10(rng, -5, 5)]) / np.sqrt(2), is_physicality_required=False)   # trace one
    target = st if case["on"] == "state" else Q["op"].compose_qoperations(Q["mp"].MProcess(c, [h.copy() for h in hss], is_physicality_required=False), st)
    runs = []
    touched = False
    for g_seed in case["global_seeds"]:
        m = mk()
        np.random.seed(g_seed)
        st0 = np.random.get_state()
        outs = []
        for _ in range(case["draws"]):
            try:
                with warnings.catch_warnings():
                    warnings.simplefilter("ignore")
                    outs.append(canon(Q["op"].compose_qoperations(m, target)))
            except Exception as e:
                outs.append(canon(e))
        st1 = np.random.get_state()
        touched = touched or not (st0[0] == st1[0] and np.array_equal(st0[1], st1[1]) and st0[2:] == st1[2:])
        runs.append(outs)
    ctx.count("sampling", key=(case["on"], seed, tuple(case["global_seeds"])), nontrivial=len(set(repr(o) for o in runs[0])) > 1, label="MProcess x %s" % case["on"])
    site = "operators._compose_qoperations_MProcess_%s(mode_sampling=True)" % ("State" if case["on"] == "state" else "StateEnsemble")
    if any(not same(runs[0], r) for r in runs[1:]):
        ctx.violation("sampling", site, "depends-on-global-rng",
                      "two MProcess objects built from the same arguments (seed %d) give different sequences of %d compositions depending on the state of numpy's GLOBAL generator "
                      "(np.random.seed %s): the object's own random_state is not used" % (seed, case["draws"], case["global_seeds"]), case)
    elif touched:
        ctx.violation("sampling", site, "consumes-global-rng", "a composition with a seeded sampling MProcess advanced numpy's global generator", case)


def chk_sampling_copy(ctx, case):
    """copies of a sampling-mode MProcess are independent of their original also in their RANDOM STREAM, for every kind of
    random_seed_or_generator (int seed, np.random.Generator instance): sampling with the copy leaves the private state of the
    original (generator state included) as it was, and the original then samples what a never-copied twin built from the same
    arguments samples"""
    Q = q()
    rng = random.Random(case["seed"])
    w = World()
    c = w.csys(((0,), 0))

    def tp_gate():
        hs = np.eye(4)
        hs[1:, 1:] = np.array([[fr10(rng) for _ in range(3)] for _ in range(3)]) * 0.5
        hs[1:, 0] = [fr10(rng, -3, 3) * 0.5 for _ in range(3)]
        return hs
    hss = [pw * tp_gate() for pw in (0.5, 0.3, 0.2)]
    st = Q["st"].State(c, np.array([1.0, fr10(rng, -5, 5), fr10(rng, -5, 5), fr10(rng, -5, 5)]) / np.sqrt(2), is_physicality_required=False)
    ens = Q["op"].compose_qoperations(Q["mp"].MProcess(c, [h.copy() for h in hss], is_physicality_required=False), st)
    seedarg = (lambda: case["mseed"]) if case["seedkind"] == "int" else (lambda: np.random.Generator(np.random.MT19937(case["mseed"])))
    mk = lambda: Q["mp"].MProcess(c, [h.copy() for h in hss], is_physicality_required=False, mode_sampling=True, random_seed_or_generator=seedarg())

    def draws(mp, n):
        out = []
        for j in range(n):
            try:
                with warnings.catch_warnings():
                    warnings.simplefilter("ignore")
                    out.append(canon(Q["op"].compose_qoperations(mp, st if j % 2 == 0 else ens)))
            except Exception as e:
                out.append(canon(e))
        return out
    m, twin = mk(), mk()
    how = case["how"]
    cp = m.copy() if how == "copy" else copy.deepcopy(m) if how == "deepcopy" else m.copy().copy()
    site = "MProcess.%s" % ("copy" if how != "deepcopy" else "__deepcopy__")
    r0 = repr(raw_state(m))
    d_cp = draws(cp, 6)
    ctx.count("sampling", key=(case["seedkind"], how, case["mseed"]), nontrivial=len(set(repr(x) for x in d_cp)) > 1, label="copy of a sampling MProcess (%s seed)" % case["seedkind"])
    if repr(raw_state(m)) != r0:
        ctx.violation("sampling_copy", site, "copy-shares-random-state",
                      "6 sampled compositions with a %s of a sampling MProcess (random_seed_or_generator: %s) changed the private state of the ORIGINAL (its random generator advanced)" % (how, case["seedkind"]), case)
        return
    d_m, d_t = draws(m, 6), draws(twin, 6)
    if not same(d_m, d_t):
        ctx.violation("sampling_copy", site, "not-independent", "after sampling with its %s the original samples other states than a never-copied twin built from the same arguments" % how, case)
    if not same(d_cp, d_t):
        ctx.violation("sampling_copy", site, "value", "the %s does not sample what its original would have sampled (a copy is value-identical, random stream included)" % how, case)


def sub_sampling(ctx):
    cases = [{"seed": ctx.rng.randrange(1 << 30), "pool_seed": ctx.rng.randrange(1 << 30), "mseed": ctx.rng.randrange(1000), "on": on,
              "global_seeds": [1, 2, 3], "draws": 8} for on in ("state", "ensemble") for _ in range(ctx.n(2, 10))]
    st = np.random.get_state()
    try:
        ctx.sample("sampling", cases[0])
        ctx.run_cases("sampling", chk_sampling, cases)
        cc = [{"seed": ctx.rng.randrange(1 << 30), "mseed": ctx.rng.randrange(1000), "seedkind": sk, "how": how}
              for sk in ("int", "generator") for how in ("copy", "copy.copy")]       # (copy.deepcopy also duplicates the composite system: nothing can be composed with it)
        ctx.run_cases("sampling_copy", chk_sampling_copy, cc)
    finally:
        np.random.set_state(st)


# ------------------------------------------------------------------------------------------------ tomography objects
def make_tomo(kind, on_para, world=None):
    """a 1-qubit tomography object of each class, built from fresh objects"""
    from quara.objects.povm import get_x_povm, get_y_povm, get_z_povm
    from quara.objects.state import get_z0_1q, get_z1_1q, get_x0_1q, get_y0_1q
    w = world or World()
    c = w.csys(((0,), 0))
    povms = lambda: [get_x_povm(c), get_y_povm(c), get_z_povm(c)]
    states = lambda: [get_z0_1q(c), get_z1_1q(c), get_x0_1q(c), get_y0_1q(c)]
    if kind in ("qst", "qst_perm"):
        from quara.protocol.qtomography.standard.standard_qst import StandardQst
        pv = povms()
        return StandardQst(pv if kind == "qst" else [pv[2], pv[0], pv[1]], on_para_eq_constraint=on_para, seed_data=7)
    if kind in ("povmt", "povmt_perm"):
        from quara.protocol.qtomography.standard.standard_povmt import StandardPovmt
        sv = states()
        return StandardPovmt(sv if kind == "povmt" else [sv[3], sv[2], sv[0], sv[1]], num_outcomes=2, on_para_eq_constraint=on_para, seed_data=7)
    if kind == "qpt":
        from quara.protocol.qtomography.standard.standard_qpt import StandardQpt
        return StandardQpt(states(), povms(), on_para_eq_constraint=on_para, seed_data=7)
    from quara.protocol.qtomography.standard.standard_qmpt import StandardQmpt
    return StandardQmpt(states(), povms(), num_outcomes=2, on_para_eq_constraint=on_para, seed_data=7)


def tomo_probe_var(qt):
    return np.array([((5 * i + 2) % 9 - 4) / 10.0 for i in range(qt.num_variables)])


def tomo_members(qt):
    return list(qt.states) + list(qt.povms) + list(qt.gates) + list(qt.mprocesses)


def tomo_snapshot(qt):
    """the observable value of a tomography object: members, coefficient tables and the answers of its queries"""
    obs = [qt.num_schedules, qt.num_variables, bool(qt.on_para_eq_constraint), np.array(qt.calc_matA()), np.array(qt.calc_vecB()),
           [canon(x) for x in tomo_members(qt)], canon(qt.generate_empty_estimation_obj_with_setting_info()),
           canon(qt.convert_var_to_qoperation(tomo_probe_var(qt))), [int(qt.num_outcomes(i)) for i in range(qt.num_schedules)]]
    h = hashlib.sha1(); _feed(h, [canon(o) for o in obs])
    return h.hexdigest()


TOMO_DERIVE = ["generate_empty_estimation_obj_with_setting_info", "convert_var_to_qoperation",
               "generate_empty_estimation_obj_with_setting_info().copy", "generate_empty_estimation_obj_with_setting_info().generate_origin_obj",
               "generate_empty_estimation_obj_with_setting_info().generate_zero_obj"]
MUTATORS = [("set_mode_proj_order(other order)", lambda o: o.set_mode_proj_order("eq_ineq" if o.mode_proj_order == "ineq_eq" else "ineq_eq")),
            ("eps_truncate_imaginary_part = 1e-3", lambda o: setattr(o, "eps_truncate_imaginary_part", 1e-3)),
            ("set_zero()", lambda o: o.set_zero())]


def chk_tomo(ctx, case):
    """objects obtained from a tomography object (empty estimation object, object of a variable vector, and objects derived from
    those) are independent of it and of each other: every public mutator applied to them leaves the tomography object (members,
    coefficient tables, answers of all its queries) as it was, and two results of the same query share nothing"""
    kind, on_para = case["kind"], bool(case["on_para"])
    qt = make_tomo(kind, on_para)
    ref = tomo_snapshot(make_tomo(kind, on_para))
    site0 = "Standard%s%s" % (kind[0].upper(), kind[1:].split("_")[0])
    s0 = tomo_snapshot(qt)
    ctx.count("tomo", key=(kind, on_para, "queries"), label="%s queries" % kind)
    if s0 != ref:
        ctx.violation("tomo", site0, "history-dependent", "two tomography objects built from the same arguments answer their queries differently", case)
    if tomo_snapshot(qt) != s0:
        ctx.violation("tomo", site0, "mutates-argument", "answering the queries once changed the answers to the same queries", case)
        return

    def derive_t(how):
        d = qt.convert_var_to_qoperation(tomo_probe_var(qt)) if how.startswith("convert") else qt.generate_empty_estimation_obj_with_setting_info()
        if "()." in how:
            d = getattr(d, how.split("().")[1])()
        return d
    for how in TOMO_DERIVE:
        site = "%s.%s" % (site0, how)
        for mname, mut in MUTATORS:
            if case.get("step") is not None and [how, mname] != list(case["step"]):
                continue
            sub = dict(case, step=[how, mname])
            d1 = derive_t(how)
            d2 = derive_t(how)
            ctx.count("tomo", key=(kind, on_para, how, mname), label="%s %s" % (kind, mname))
            for sig, msg in independence(d1, [("a member / the template of the tomography object", [a for x in tomo_members(qt) for a in arrays_of(x)]),
                                              ("the object returned by another call of the same query", arrays_of(d2))]):
                ctx.violation("tomo", site, sig, msg, sub)
            if d1 is d2 or any(d1 is x for x in tomo_members(qt)):
                ctx.violation("tomo", site, "result-aliases-existing-object", "the query hands out the same object on every call (its internal one)", sub)
            before2 = digest(d2)
            try:
                mut(d1)
            except Exception:
                continue
            if tomo_snapshot(qt) != s0:
                ctx.violation("tomo", site, "mutates-derived-from",
                              "%s on the object returned by %s changed the tomography object (its members / the answers of its queries)" % (mname, how), sub)
                qt = make_tomo(kind, on_para)
                continue
            if digest(d2) != before2:
                ctx.violation("tomo", site, "mutates-derived-object", "%s on one object returned by %s changed another object returned by the same query" % (mname, how), sub)


def tomo_data(qt, k):
    """empirical distributions of the right shapes from small rationals; the k-th set has an outcome that never occurred"""
    out = []
    for i in range(qt.num_schedules):
        m = int(qt.num_outcomes(i))
        wts = [((3 * i + 2 * x + k) % 5) + 1 for x in range(m)]
        if (i + k) % 3 == 0:
            wts[(i + k) % m] = 0
        out.append((100 * (k + 1), np.array(wts, dtype=np.float64) / sum(wts)))
    return out


def chk_tomo_estimate(ctx, case):
    """one LinearEstimator object re-used over three data sets on one tomography object: every estimate equals the estimate of a
    fresh estimator on a fresh tomography object, the data and the tomography object are left as they were, and the estimated
    object handed out is independent of the tomography object (all its public mutators applied)"""
    from quara.protocol.qtomography.standard.linear_estimator import LinearEstimator
    kind, on_para = case["kind"], bool(case["on_para"])
    qt = make_tomo(kind, on_para)
    s0 = tomo_snapshot(qt)
    est = LinearEstimator()
    site = "LinearEstimator.calc_estimate(Standard%s%s)" % (kind[0].upper(), kind[1:])
    for k in range(3):
        data = tomo_data(qt, k)
        dd0 = data_digest([data])

        def run(e, t, d):
            try:
                with warnings.catch_warnings():
                    warnings.simplefilter("ignore")
                    r = e.calc_estimate(t, d, is_computation_time_required=False)
                return r, canon([np.array(r.estimated_var), r.estimated_qoperation])
            except Exception as ex:
                return None, canon(ex)
        r, v = run(est, qt, data)
        _, vf = run(LinearEstimator(), make_tomo(kind, on_para), [(n, pr.copy()) for n, pr in data])
        sub = dict(case, k=k)
        ctx.count("tomo", key=(kind, on_para, "estimate", k), nontrivial=r is not None, label="%s linear estimate" % kind)
        if not same(v, vf, 1e-9):
            ctx.violation("tomo_estimate", site, "history-dependent", "data set %d: re-used estimator / tomography objects give %s, fresh ones %s" % (k, _brief(v), _brief(vf)), sub)
        if data_digest([data]) != dd0:
            ctx.violation("tomo_estimate", site, "mutates-argument", "the estimation overwrote the empirical distributions handed to it (data set %d)" % k, sub)
        if tomo_snapshot(qt) != s0:
            ctx.violation("tomo_estimate", site, "mutates-argument", "the estimation changed the tomography object (data set %d)" % k, sub)
            return
        if r is None:
            continue
        qo = r.estimated_qoperation
        for sig, msg in independence(qo, [("a member / the template of the tomography object", [a for x in tomo_members(qt) for a in arrays_of(x)])]):
            ctx.violation("tomo_estimate", site, sig, "estimated_qoperation: " + msg, sub)
        var_before = digest(np.array(r.estimated_var))
        for mname, mut in MUTATORS:
            try:
                mut(qo)
            except Exception:
                continue
            if tomo_snapshot(qt) != s0:
                ctx.violation("tomo_estimate", site, "mutates-derived-from", "%s on the estimated object changed the tomography object" % mname, sub)
                return
        if digest(np.array(r.estimated_var)) != var_before:
            ctx.violation("tomo_estimate", site, "mutates-derived-object", "mutating the estimated object changed the estimated variables of the result", sub)


_SHARED_EST = {}


def chk_shared_estimators(ctx, case):
    """ONE LinearEstimator, ONE ProjectedLinearEstimator (and, thorough tier / small systems, one CvxpyLossMinimizationEstimator with one
    loss and one algorithm object) re-used over ALL tomography classes, parametrisations and data sets of the run, in the order of
    the case list: every estimate equals that of fresh estimator / loss / algorithm objects on a fresh tomography object"""
    from quara.protocol.qtomography.standard.linear_estimator import LinearEstimator
    from quara.protocol.qtomography.standard.projected_linear_estimator import ProjectedLinearEstimator
    kind, on_para, k = case["kind"], bool(case["on_para"]), case["k"]
    which = case["est"]
    qt = make_tomo(kind, on_para)
    data = tomo_data(qt, k)
    dd0 = data_digest([data])
    s0 = tomo_snapshot(qt)

    def mk():
        if which == "linear":
            return LinearEstimator()
        if which == "projected":
            return ProjectedLinearEstimator(mode_proj_order=case.get("order", "eq_ineq"))
        from quara.interface.cvxpy.qtomography.standard.estimator import CvxpyLossMinimizationEstimator
        from quara.interface.cvxpy.qtomography.standard.loss_function import CvxpyRelativeEntropy, CvxpyUniformSquaredError, CvxpyLossFunctionOption
        from quara.interface.cvxpy.qtomography.standard.minimization_algorithm import CvxpyMinimizationAlgorithm, CvxpyMinimizationAlgorithmOption
        return {"est": CvxpyLossMinimizationEstimator(), "loss": {"sq": CvxpyUniformSquaredError(), "re": CvxpyRelativeEntropy()},
                "algo": CvxpyMinimizationAlgorithm(), "lopt": CvxpyLossFunctionOption, "aopt": CvxpyMinimizationAlgorithmOption}

    def run(e, t, d):
        try:
            with warnings.catch_warnings():
                warnings.simplefilter("ignore")
                if which == "cvxpy":
                    r = e["est"].calc_estimate(t, d, e["loss"][case["loss"]], e["lopt"](), e["algo"], e["aopt"](name_solver="clarabel", eps_tol=1e-9), is_computation_time_required=False)
                else:
                    r = e.calc_estimate(t, d, is_computation_time_required=False)
            return canon(np.array(r.estimated_var))
        except Exception as ex:
            return canon(ex)
    key = (which, case.get("order"))
    if case.get("fresh_shared") or key not in _SHARED_EST:
        _SHARED_EST[key] = mk()
    v = run(_SHARED_EST[key], qt, data)
    vf = run(mk(), make_tomo(kind, on_para), [(n, pr.copy()) for n, pr in data])
    tol = 1e-9 if which != "cvxpy" else 1e-6
    ctx.count("shared", key=(which, kind, on_para, k, case.get("loss")), nontrivial=not (isinstance(v, tuple) and v[0] == "exc"), label="%s %s" % (which, kind))
    site = {"linear": "LinearEstimator", "projected": "ProjectedLinearEstimator", "cvxpy": "CvxpyLossMinimizationEstimator"}[which] + ".calc_estimate"
    if not same(v, vf, tol):
        ctx.violation("shared", site, "history-dependent",
                      "estimator object%s re-used over the earlier cases of this run gives %s on (%s, on_para_eq_constraint=%s, data set %d), fresh objects give %s" % (
                          " (+ loss and algorithm objects)" if which == "cvxpy" else "", _brief(v), kind, on_para, k, _brief(vf)), dict(case, fresh_shared=0))
    if data_digest([data]) != dd0:
        ctx.violation("shared", site, "mutates-argument", "the estimation overwrote the empirical distributions handed to it", case)
    if tomo_snapshot(qt) != s0:
        ctx.violation("shared", site, "mutates-argument", "the estimation changed the tomography object", case)


def sub_shared(ctx):
    """(a replayed single case starts with fresh shared objects - the history is the case list of the run)"""
    _SHARED_EST.clear()
    cases = []
    # (the *_perm variants have the same class and the same shapes as their twins but other testers: a per-object memo keyed by shapes shows)
    kinds = ["qst", "qst_perm", "povmt", "povmt_perm", "qpt"] + ([] if ctx.quick else ["qmpt"])
    for k in range(2):
        for kind in kinds:
            for op in (1, 0):
                cases.append({"est": "linear", "kind": kind, "on_para": op, "k": k})
                if kind != "qmpt" and (not ctx.quick or (kind, op) != ("qpt", 0)):
                    cases.append({"est": "projected", "kind": kind, "on_para": op, "k": k, "order": "eq_ineq" if (k + op) % 2 else "ineq_eq"})
    for kind, op, k, lo in ([("qst", 1, 0, "sq"), ("qst", 0, 1, "re"), ("qst", 1, 1, "sq")] if ctx.quick else
                            [("qst", 1, 0, "sq"), ("qst", 0, 1, "re"), ("povmt", 1, 0, "re"), ("qst", 1, 1, "sq"), ("povmt", 0, 1, "sq"), ("qst", 0, 0, "re")]):
        cases.append({"est": "cvxpy", "kind": kind, "on_para": op, "k": k, "loss": lo})
    ctx.sample("shared", cases[0])
    ctx.run_cases("shared", chk_shared_estimators, cases)


# ------------------------------------------------------------------------------------------------ containers
def mk_experiment(world, seed_data=5):
    from quara.qcircuit.experiment import Experiment
    from quara.objects.povm import get_x_povm, get_z_povm
    from quara.objects.state import get_z0_1q, get_x0_1q
    from quara.objects.gate import get_h, get_x
    c = world.csys(((0,), 0))
    sched = [[("state", 0), ("gate", 0), ("povm", 1)], [("state", 1), ("povm", 0)], [("state", 0), ("gate", 1), ("gate", 0), ("povm", 0)]]
    return Experiment(schedules=sched, states=[get_z0_1q(c), get_x0_1q(c)], povms=[get_x_povm(c), get_z_povm(c)], gates=[get_h(c), get_x(c)], seed_data=seed_data)


def exp_snapshot(e):
    obs = [[canon(x) for x in e.states], [canon(x) for x in e.povms], [canon(x) for x in e.gates], [canon(x) for x in e.mprocesses],
           repr(e.schedules), e.seed_data, [np.array(p) for p in e.calc_prob_dists()]]
    h = hashlib.sha1(); _feed(h, [canon(o) for o in obs]); return h.hexdigest()


def chk_containers(ctx, case):
    """Experiment / SetQOperations: queries repeatable and side-effect free; a copy / an object generated from a variable vector
    is independent of its original (every public mutator applied to every member of the copy, entries of the copy replaced)"""
    what = case["what"]
    w = World()
    e = mk_experiment(w)
    s0 = exp_snapshot(e)
    ctx.count("containers", key=what, label=what)
    if what == "queries":
        if exp_snapshot(mk_experiment(World())) != s0:
            ctx.violation("containers", "Experiment", "history-dependent", "two experiments built from the same arguments differ", case)
        for i in range(len(e.schedules)):
            e.calc_prob_dist(i)
        if exp_snapshot(e) != s0:
            ctx.violation("containers", "Experiment.calc_prob_dist", "mutates-argument", "calc_prob_dist / calc_prob_dists changed the experiment", case)
        return
    if what == "copy":
        e2 = e.copy()
        site = "Experiment.copy"
        if exp_snapshot(e) != s0:
            ctx.violation("containers", site, "mutates-argument", "copy() changed the experiment", case); return
        members = lambda x: list(x.states) + list(x.povms) + list(x.gates) + list(x.mprocesses)
        if not same([canon(a) for a in members(e2)], [canon(a) for a in members(e)]):
            ctx.violation("containers", site, "value", "the members of the copy differ from those of the original", case)
        shared = [type(a).__name__ for a, b in zip(members(e2), members(e)) if a is b]
        # replacing entries of the copy
        e2.states[0] = e2.states[1]
        if exp_snapshot(e) != s0:
            ctx.violation("containers", site, "not-independent", "replacing an entry of the copy's list of states changed the original", case); return
        e2 = e.copy()
        for m_ in members(e2):
            for mname, mut in MUTATORS:
                try:
                    mut(m_)
                except Exception:
                    continue
                if exp_snapshot(e) != s0:
                    ctx.violation("containers", site, "not-independent",
                                  "%s on a %s of the copy changed the ORIGINAL experiment (its members / calc_prob_dists): copy() shares the member objects %s" % (mname, type(m_).__name__, sorted(set(shared))), case)
                    return
        return
    # SetQOperations
    from quara.objects.qoperations import SetQOperations
    sq = SetQOperations(states=list(e.states), gates=list(e.gates), povms=list(e.povms))
    v0 = np.array(sq.var_total())
    site = "SetQOperations.set_qoperations_from_var_total"
    sq2 = sq.set_qoperations_from_var_total(v0.copy())
    if exp_snapshot(e) != s0 or not np.array_equal(np.array(sq.var_total()), v0):
        ctx.violation("containers", site, "mutates-argument", "generating a set of objects from the variables changed the original set", case); return
    if not same(canon(np.array(sq2.var_total())), canon(v0)):
        ctx.violation("containers", site, "value", "var_total of the generated set differs from the variables it was generated from", case)
    for m_ in list(sq2.states) + list(sq2.gates) + list(sq2.povms):
        for mname, mut in MUTATORS:
            try:
                mut(m_)
            except Exception:
                continue
            if exp_snapshot(e) != s0 or not np.array_equal(np.array(sq.var_total()), v0):
                ctx.violation("containers", site, "not-independent", "%s on a member of the generated set changed the original set" % mname, case); return


def sub_containers(ctx):
    cases = [{"what": w_} for w_ in ("queries", "copy", "setq")]
    ctx.sample("containers", cases[0])
    ctx.run_cases("containers", chk_containers, cases)


def sub_tomo(ctx):
    cases = [{"kind": k, "on_para": op} for k in ("qst", "povmt", "qpt", "qmpt") for op in ((1, 0) if not ctx.quick else (1,) if k == "qmpt" else (0, 1))]
    ctx.sample("tomo", cases[0])
    ctx.run_cases("tomo", chk_tomo, cases)
    ctx.run_cases("tomo_estimate", chk_tomo_estimate, cases)


GENERATORS = ["copy", "generate_zero_obj", "generate_origin_obj", "calc_proj_eq_constraint", "calc_proj_ineq_constraint", "calc_proj_physical",
              "to_povm", "convert_to_comp_basis", "copy+set_zero", "generate_from_var(to_var)", "x*0.5", "x+copy"]


def derive(obj, g):
    if g == "copy+set_zero":
        d = obj.copy(); d.set_zero(); return d
    if g == "generate_from_var(to_var)":
        return obj.generate_from_var(obj.to_var(), is_physicality_required=False)
    if g == "x*0.5":
        return obj * 0.5
    if g == "x+copy":
        return obj + obj.copy()
    f = getattr(obj, g)
    return f(max_iteration=50) if g == "calc_proj_physical" else f()


def chk_derived(ctx, case):
    """objects DERIVED from a pool object by every object-returning operation (copy, zero / origin object, projections, conversions,
    set_zero on a copy, regeneration from the variables, arithmetic): the derived object owns its arrays, and every query /
    conversion / projection of it gives what the same call gives on a value-identical object built from fresh arrays - the
    result depends on the VALUE of the operand, not on how it was obtained (no hidden sharing inside the object)"""
    w = World()
    pool = make_pool(w, random.Random(case["pool_seed"]))
    ent = pool[case["key"]]
    obj, kind = ent["obj"], ent["kind"]
    g = case["g"]
    if not (hasattr(obj, g) or "+" in g or "(" in g or "*" in g):
        return
    site_g = "%s.%s" % (kind, g)
    d0 = snap(obj)
    try:
        with warnings.catch_warnings():
            warnings.simplefilter("ignore")
            d = derive(obj, g)
    except Exception as e:
        ctx.count("derived", key=(case["key"], g), nontrivial=False, label="%s!raise" % g)
        return
    if snap(obj) != d0:
        ctx.violation("derived", site_g, "mutates-argument", "%s changed its object" % g, case)
    # (generate_from_var adopts the variable vector handed to it - the constructor exception of the property - and to_var() of an
    #  object without parameter constraint hands out its vector: that chain may alias, no quara operation writes through it)
    for sig, msg in independence(d, [] if g == "generate_from_var(to_var)" else [("the object it was derived from", arrays_of(obj))]):
        ctx.violation("derived", site_g, sig, "%s of pool object %s: %s" % (g, case["key"], msg), case)
    dk = type(d).__name__
    if dk not in UNARY or dk in ("MD", "Ens"):
        ctx.count("derived", key=(case["key"], g), nontrivial=True, label="%s -> %s (not an object)" % (g, dk))
        return
    fr = freeze(d, ent["csid"])
    ulist = [(u, None) for u in UNARY.get(dk, [])] + [(u, i) for u in INDEXED.get(dk, []) for i in (0, (len(d.hss) if dk == "MProcess" else len(d.vecs)) - 1)]
    if g == "copy" and case.get("u") is None:
        # a temporary tolerance window leaves no trace IN the objects used inside it: every query once on x while Settings.atol is
        # 1e-3 and once on y under the normal tolerance - afterwards x and y (built from the same snapshot) have the same private state
        atol_n = q()["Settings"].get_atol()
        xw, yw = World(), World()
        x, y = getter_objects(dk), getter_objects(dk)        # built with default arguments (defaults that are resolved lazily stay unresolved)
        ulist = [(u, i) for u, i in ulist if i is None or i == 0]
        for obj_, world_, tol_ in ((x, xw, 1e-3), (y, yw, atol_n)):
            q()["Settings"].set_atol(tol_)
            try:
                for u, i in ulist:
                    try:
                        with warnings.catch_warnings():
                            warnings.simplefilter("ignore")
                            perform(world_, {"t": "unary", "m": u, "a": []} if i is None else {"t": "indexed", "m": u, "i": i, "a": []}, [obj_])
                    except Exception:
                        pass
            finally:
                q()["Settings"].set_atol(atol_n)
        ctx.count("derived", key=(case["key"], "tolerance window"), nontrivial=True, label="tolerance window -> %s" % dk)
        rx, ry = raw_state(x), raw_state(y)
        if repr(rx) != repr(ry):
            ch = [(a[0], a[1], b[1]) for a, b in zip(rx[1], ry[1]) if repr(a) != repr(b)] if len(rx[1]) == len(ry[1]) else "?"
            ctx.violation("derived", "%s (queries under a temporary Settings.set_atol)" % dk, "settings-leak-into-object",
                          "after all queries were called once while Settings.atol was temporarily 1e-3 the object keeps another private state than an identical object queried under the normal tolerance: %s" % _brief(ch), case)
    for u, i in ulist:
        if case.get("u") is not None and [u, i] != list(case["u"]):
            continue
        desc = {"t": "unary", "m": u, "a": []} if i is None else {"t": "indexed", "m": u, "i": i, "a": []}
        dd = snap(d)

        def call(x, world):
            try:
                with warnings.catch_warnings():
                    warnings.simplefilter("ignore")
                    return canon(perform(world, desc, [x]))
            except Exception as e:
                return canon(e)
        atol0 = q()["Settings"].get_atol()
        r1 = call(d, w)
        fw = World()
        r2 = call(thaw(fr, fw), fw)
        # the same query with every tolerance argument given explicitly (a value that is not the global one) must not leak it
        import inspect
        try:
            tolargs = [pn for pn in inspect.signature(getattr(d, u)).parameters if "atol" in pn] if i is None else []
        except (TypeError, ValueError, AttributeError):
            tolargs = []
        if tolargs:
            try:
                with warnings.catch_warnings():
                    warnings.simplefilter("ignore")
                    getattr(d, u)(**{pn: 1e-5 for pn in tolargs})
            except Exception:
                pass
        if q()["Settings"].get_atol() != atol0:
            ctx.violation("derived", "%s.%s" % (dk, u), "mutates-global-settings", "%s%s left Settings.atol at %r (was %r)" % (u, "(%s=1e-5)" % ", ".join(tolargs) if tolargs else "()", q()["Settings"].get_atol(), atol0), dict(case, u=[u, i]))
            q()["Settings"].set_atol(atol0)
        ctx.count("derived", key=(case["key"], g, u, i), nontrivial=not (isinstance(r1, tuple) and r1[0] == "exc"), label="%s -> %s" % (g, dk))
        sub = dict(case, u=[u, i])
        if not same(r1, r2):
            ctx.violation("derived", "%s.%s" % (dk, u), "depends-on-derivation",
                          "%s of the object obtained by %s from %s: %s; of a value-identical object built from fresh arrays: %s" % (u, g, case["key"], _brief(r1), _brief(r2)), sub)
        if snap(d) != dd:
            ctx.violation("derived", "%s.%s" % (dk, u), "mutates-argument", "%s changed the object obtained by %s" % (u, g), sub)
            continue
        # the caller modifies the arrays it was handed, then uses the object again: a conversion / calculation returns NEW arrays.
        # (State.to_stacked_vector and State.to_var without parameter constraint are accessors of the state's own vector, like the
        #  property vec - the one documented exception)
        if g in ("copy", "x*0.5") and not (dk == "State" and u in ("to_stacked_vector", "to_var")) and u not in ("hs", "vec"):   # hs(i) / vec(i): element accessors
            try:
                with warnings.catch_warnings():
                    warnings.simplefilter("ignore")
                    raw = perform(w, desc, [d])
            except Exception:
                raw = None
            outs = [a for a in (raw if isinstance(raw, (list, tuple)) else [raw]) if isinstance(a, np.ndarray) and a.flags.writeable and a.size]
            for a in outs:
                a.flat[0] = a.flat[0] + 1.0
            if outs and snap(d) != dd:
                ctx.violation("derived", "%s.%s" % (dk, u), "result-aliases-operand-array",
                              "writing into the array returned by %s changed the %s it was computed from: the method hands out the object's own memory" % (u, dk), sub)
                d = derive(obj, g)


def sub_derived(ctx):
    keys = ["S00", "G01", "P10", "M10"] + ([] if ctx.quick else ["S01", "G00", "P00", "M00", "S20", "P20"])
    ps = ctx.rng.randrange(1 << 30)
    cases = [{"pool_seed": ps, "key": key, "g": g} for key in keys for g in GENERATORS]
    ctx.sample("derived", cases[0])
    ctx.run_cases("derived", chk_derived, cases)


def sub_factory(ctx):
    keys = ["S00", "G01", "P10", "M00"] + ([] if ctx.quick else ["S01", "G00", "P00", "M10", "S10", "S11", "G10", "G11", "S20", "S21", "P20"])
    cases = []
    for rep in range(ctx.n(1, 2)):
        ps = ctx.rng.randrange(1 << 30)
        for key in keys:
            for m in sorted(FACTORIES):
                cases.append({"pool_seed": ps, "key": key, "m": m})
    ctx.sample("factory", cases[0])
    ctx.run_cases("factory", chk_factory, cases)


def process_worker(path_in, path_out):
    """runs in a FRESH python process: the recorded calls, on operands thawed from their snapshots, in REVERSE order"""
    import pickle
    Q = q()
    recs = pickle.load(open(path_in, "rb"))
    atol0 = Q["Settings"].get_atol()
    out = {}
    for idx in sorted(recs, reverse=True):
        r = recs[idx]
        fw = World()
        try:
            fops = [thaw(fr, fw) for fr in r["frozen"]]
            if "atol" in r["desc"]:
                Q["Settings"].set_atol(r["desc"]["atol"])
            with warnings.catch_warnings():
                warnings.simplefilter("ignore")
                out[idx] = canon(perform(fw, r["desc"], fops))
        except Exception as e:
            out[idx] = canon(e)
        finally:
            Q["Settings"].set_atol(atol0)
    pickle.dump(out, open(path_out, "wb"))


def chk_process(ctx, case):
    """process-global hidden state (module-level memo tables, class attributes, leaked settings): the calls of some histories are
    repeated in a fresh python process, in reverse order, on operands rebuilt from their snapshots - same results"""
    import os, pickle, subprocess, sys
    recs = {}
    for hi, hist in enumerate(case["hists"]):
        rec = []
        run_history(ctx, dict(hist), record=rec)
        for r in rec:
            recs[(hi, r["k"])] = r
    # systematic part: the same operations on two value-DIFFERENT operands of the same type, shape and configuration (objects of two
    # pools), binary operations in both orders - a memo keyed too coarsely (by shape, type, sizes) gives the first operand's answer
    # to the second one here and, with the order reversed, the second one's to the first in the fresh process
    for which, ps in enumerate(case["twins"]):
        tw = World()
        tp = make_pool(tw, random.Random(ps))
        descs = []
        for key in ("S00", "G00", "P00", "M00", "S20", "D0", "D1", "D2"):
            kind = tp[key]["kind"]
            descs += [({"t": "unary", "m": u, "a": [key]}, [key]) for u in UNARY[kind] if u not in ("copy",)]
            descs += [({"t": "indexed", "m": u, "i": 0, "a": [key]}, [key]) for u in INDEXED.get(kind, [])]
            if kind == "MD":
                nv = len(tp[key]["obj"].shape)
                descs += [({"t": "md", "m": "marginalize", "idx": [j], "a": [key]}, [key]) for j in range(nv)]
                descs += [({"t": "md", "m": "conditionalize", "idx": [0], "vals": [1], "a": [key]}, [key]), ({"t": "md", "m": "getitem", "idx": 1, "a": [key]}, [key])]
        for a_, b_ in (("G00", "S00"), ("P00", "S00"), ("M00", "S00"), ("G00", "G01"), ("P00", "G00")):
            descs.append(({"t": "compose", "a": [a_, b_]}, [a_, b_]))
        for a_, b_ in (("S00", "S10"), ("S10", "S00"), ("G00", "G10"), ("G10", "G00"), ("P00", "P10"), ("P10", "P00"), ("S20", "S00"), ("S00", "S20")):
            descs.append(({"t": "tensor", "a": [a_, b_]}, [a_, b_]))
        for j, (desc, keys) in enumerate(descs):
            frozen = [freeze(tp[k_]["obj"], tp[k_]["csid"]) for k_ in keys]
            fw = World()
            try:
                with warnings.catch_warnings():
                    warnings.simplefilter("ignore")
                    rh = canon(perform(fw, desc, [thaw(fr, fw) for fr in frozen]))
            except Exception as e:
                rh = canon(e)
            recs[(100 + which, j)] = {"k": j, "site": op_site(desc, tp), "desc": desc, "frozen": frozen, "rh": rh}
    if case.get("only") is not None:
        recs = {k_: v for k_, v in recs.items() if list(k_) == list(case["only"])}
    d = os.path.join(ctx.scratch, "process")
    os.makedirs(d, exist_ok=True)
    pin, pout = os.path.join(d, "in.pkl"), os.path.join(d, "out.pkl")
    pickle.dump({k_: {"desc": v["desc"], "frozen": v["frozen"]} for k_, v in recs.items()}, open(pin, "wb"))
    if os.path.exists(pout):
        os.remove(pout)
    r = subprocess.run([sys.executable, "-c", "import sys; from props import c13; c13.process_worker(sys.argv[1], sys.argv[2])", pin, pout],
                       capture_output=True, text=True, timeout=600, env=dict(os.environ))
    if r.returncode != 0 or not os.path.exists(pout):
        raise RuntimeError("process worker failed: " + (r.stdout + r.stderr)[-500:])
    out = pickle.load(open(pout, "rb"))
    for k_, v in sorted(recs.items()):
        ctx.count("process", key=(k_[0] if k_[0] >= 100 else tuple(sorted(case["hists"][k_[0]].items())), k_[1]), nontrivial=not (isinstance(v["rh"], tuple) and v["rh"] and v["rh"][0] == "exc"), label=v["desc"]["t"])
        if not same(v["rh"], out[k_]):
            ctx.violation("process", v["site"], "process-state-dependent",
                          "op %d of history %d (%s): in this process (after everything that ran before) %s, in a fresh process %s" % (k_[1], k_[0], v["site"], _brief(v["rh"]), _brief(out[k_])),
                          dict(case, only=list(k_)))


def sub_process(ctx):
    case = {"hists": [{"seed": ctx.rng.randrange(1 << 30), "pool_seed": ctx.rng.randrange(1 << 30), "length": ctx.n(10, 25)} for _ in range(ctx.n(6, 20))],
            "twins": [ctx.rng.randrange(1 << 30), ctx.rng.randrange(1 << 30)]}
    ctx.sample("process", case)
    ctx.run_cases("process", chk_process, [case])


def sub_history(ctx):
    cases = [{"seed": ctx.rng.randrange(1 << 30), "pool_seed": ctx.rng.randrange(1 << 30), "length": ctx.n(10, 40)}
             for _ in range(ctx.n(40, 180))]
    ctx.sample("history", cases[0])
    ctx.run_cases("history", chk_history, cases)


# ------------------------------------------------------------------------------------------------ loss / algorithm machines
MODES = ["identity", "inverse_sample_covariance", "inverse_unbiased_covariance", "unbiased_inverse_covariance", "custom"]


def loss_env(on_para):
    from quara.objects.povm import get_x_povm, get_y_povm, get_z_povm
    from quara.protocol.qtomography.standard.standard_qst import StandardQst
    w = World()
    c = w.csys(((0,), 0))
    qst = StandardQst([get_x_povm(c), get_y_povm(c), get_z_povm(c)], on_para_eq_constraint=on_para, seed_data=7)
    return w, c, qst


def mk_dataset(spec):
    return [(int(n), np.array([float(Fraction(p)), 1.0 - float(Fraction(p))], dtype=np.float64)) for n, p in spec]


def mk_custom(spec):
    out = []
    for a, b, cc in spec:
        out.append(np.array([[float(Fraction(a)), float(Fraction(b))], [float(Fraction(b)), float(Fraction(cc))]], dtype=np.float64))
    return out


def new_loss(kind, nvar, w0=None):
    from quara.loss_function.weighted_probability_based_squared_error import WeightedProbabilityBasedSquaredError as G
    from quara.loss_function.standard_qtomography_based_weighted_probability_based_squared_error import StandardQTomographyBasedWeightedProbabilityBasedSquaredError as F
    from quara.loss_function.standard_qtomography_based_weighted_relative_entropy import StandardQTomographyBasedWeightedRelativeEntropy as R
    from quara.loss_function.weighted_relative_entropy import WeightedRelativeEntropy as RG
    if kind == 0:
        return G(nvar, weight_matrices=w0)
    if kind == 1:
        return F(nvar, weight_matrices=w0)
    if kind == 2:
        return R(nvar, weights=w0)
    return RG(nvar, weights=w0)


def loss_option(kind, mode, custom):
    from quara.loss_function.weighted_probability_based_squared_error import WeightedProbabilityBasedSquaredErrorOption as GO
    from quara.loss_function.weighted_relative_entropy import WeightedRelativeEntropyOption as RO
    if kind in (0, 1):
        return GO(mode, weights=custom) if mode == "custom" else GO(mode)
    return RO("custom", weights=custom) if mode == "custom" else RO("identity")


MODE_CODE = {"identity": 0, "inverse_sample_covariance": 1, "inverse_unbiased_covariance": 2, "unbiased_inverse_covariance": 3}


def model_weights(ctx, tag, datasets, customs):
    """numerical weights named by a tag of the symbolic machine: custom k -> list k; 1000+2d+u -> inverse covariance of dataset d (Coq op)"""
    if tag < 0:
        return None
    if tag < 1000:
        return customs[tag]
    d, u = (tag - 1000) // 2, (tag - 1000) % 2
    ds = datasets[d]
    m = ctx.get_model()
    qs = [1e-8] + [float(n) for n, _ in ds] + [float(n) ** (3 / 2) for n, _ in ds] + [float(x) for _, pr in ds for x in pr]
    flat = [float(v) for v in m.call("c13.invw", [u, len(ds)], qs)]
    return [np.array(flat[4 * i:4 * i + 4]).reshape(2, 2) for i in range(len(ds))]


def model_value(ctx, qst, ds, W, var):
    m = ctx.get_model()
    A = np.asarray(qst.calc_matA(), dtype=np.float64); b = np.asarray(qst.calc_vecB(), dtype=np.float64)
    qs = [float(x) for x in A.ravel()] + [float(x) for x in b] + [float(x) for _, pr in ds for x in pr] + [float(x) for x in var]
    if W is not None:
        qs += [float(x) for Wi in W for x in np.asarray(Wi).ravel()]
    out = [float(v) for v in m.call("c13.loss_value", [2, len(ds), len(var), 0 if W is None else 1], qs)]
    return [out[0], out[1:]]


def relent_value(qst, ds, wts, var):
    """harness-side evaluation of the weighted relative entropy sum_i w_i sum_x q_ix ln(q_ix / p_ix(var)) (no Coq model:
    logarithms); None when a probability is too close to 0 for the plain formula to be what quara's rounding computes"""
    A = np.asarray(qst.calc_matA(), dtype=np.float64); b = np.asarray(qst.calc_vecB(), dtype=np.float64)
    p = A @ np.asarray(var, dtype=np.float64) + b
    qv = np.concatenate([pr for _, pr in ds])
    if p.min() < 1e-6 or qv.min() < 1e-6:
        return None
    terms = qv * np.log(qv / p)
    m = len(ds[0][1])
    w = np.ones(len(ds)) if wts is None else np.asarray(wts, dtype=np.float64)
    return float(sum(w[i] * terms[m * i:m * (i + 1)].sum() for i in range(len(ds))))


def data_digest(datasets, customs=None):
    """byte-level fingerprint of the empirical distributions (and weight lists) handed to losses / estimators"""
    h = hashlib.sha1()
    for ds in datasets:
        for n, pr in ds:
            h.update(repr(n).encode()); h.update(str(pr.dtype).encode()); h.update(np.ascontiguousarray(pr).tobytes())
    for cw in customs or []:
        for W in cw:
            h.update(np.ascontiguousarray(np.asarray(W)).tobytes())
    return h.hexdigest()


LOSS_CLASS = ["WeightedProbabilityBasedSquaredError", "StandardQTomographyBasedWeightedProbabilityBasedSquaredError",
              "StandardQTomographyBasedWeightedRelativeEntropy", "WeightedRelativeEntropy"]


def _observe(loss, var):
    try:
        with warnings.catch_warnings():
            warnings.simplefilter("ignore")
            return [float(loss.value(var)), [float(x) for x in np.array(loss.gradient(var), dtype=float)]]
    except Exception as e:
        return e


def chk_loss(ctx, case):
    """one loss object driven through a sequence of configure / set_weight_matrices (set_weights) operations"""
    kind = case["kind"]
    on_para = bool(case["on_para"])
    w, c, qst = loss_env(on_para)
    datasets = [mk_dataset(s) for s in case["datasets"]]
    customs = [mk_custom(s) for s in case["customs"]] if kind in (0, 1) else [[float(Fraction(x)) for x in s] for s in case["customs"]]
    var = np.array([float(Fraction(x)) for x in case["var"]])
    loss = new_loss(kind, qst.num_variables)
    zs_ops = []
    last_cfg = None
    later_set = None
    m = ctx.get_model()
    setter = (lambda o, W: o.set_weight_matrices(W)) if kind in (0, 1) else (lambda o, W: o.set_weights(W))
    kname = ["generic", "fast", "fast-relent", "relent"][kind]
    dd0 = data_digest(datasets, customs)
    for k, op in enumerate(case["ops"]):
        sub = dict(case, ops=case["ops"][:k + 1])
        if op[0] == "cfg":
            _, d, mode, ck = op
            opt = loss_option(kind, mode, customs[ck] if mode == "custom" else None)
            loss.set_from_standard_qtomography_option_data(qst, opt, datasets[d], True, False)
            if data_digest(datasets, customs) != dd0:
                ctx.violation("loss", LOSS_CLASS[kind] + ".set_from_standard_qtomography_option_data", "mutates-argument",
                              "configuring the %s loss with mode %s overwrote the empirical distributions / weights handed to it: dataset %d is now %s (given %s)" % (
                                  kname, mode, d, [[float(x) for x in pr] for _, pr in datasets[d]], case["datasets"][d]), sub)
                return
            zs_ops += [0, d, MODE_CODE.get(mode, 10 + ck)]
            last_cfg, later_set = (d, mode, ck), None
        else:
            _, ck = op
            try:
                setter(loss, None if ck < 0 else customs[ck])
            except Exception as e:
                ctx.violation("loss", S_FAST if kind == 1 else S_GENERIC if kind == 0 else S_RFAST if kind == 2 else S_RGEN,
                              "exception:" + type(e).__name__, "the weight setter raised after %s: %r" % (zs_ops, e), sub)
                return
            zs_ops += [1, ck, 0]
            later_set = ck
        if last_cfg is None:
            continue
        # ---- observation on the re-used object
        obs = _observe(loss, var)
        # ---- the same configuration on a fresh object (history independence is the PROPERTY)
        d, mode, ck = last_cfg
        fresh = new_loss(kind, qst.num_variables)
        w2, c2, qst2 = loss_env(on_para)
        fresh.set_from_standard_qtomography_option_data(qst2, loss_option(kind, mode, customs[ck] if mode == "custom" else None), datasets[d], True, False)
        fresh_ops = [0, d, MODE_CODE.get(mode, 10 + ck)]
        if later_set is not None:
            setter(fresh, None if later_set < 0 else customs[later_set])
            fresh_ops += [1, later_set, 0]
        obf = _observe(fresh, var)
        if data_digest(datasets, customs) != dd0:
            ctx.violation("loss", LOSS_CLASS[kind] + ".value", "mutates-argument", "value()/gradient()/the setter of the %s loss overwrote the data handed to the loss after %s" % (kname, zs_ops), sub)
            return
        hist_dep = not same(canon(obs), canon(obf), 1e-9)
        label = "%s %s" % (kname, mode if op[0] == "cfg" else "setter")
        if kind in (0, 1):
            # ---- the Coq machine of the repaired code (flags 7) predicts (dataset, weights) in effect, for the re-used
            #      and for the fresh object; the numerical model evaluates value and gradient
            def predict(flags):
                tr_ = [int(v) for v in m.call("c13.loss_machine", [kind, flags, -1] + zs_ops)][-3:]
                tf_ = [int(v) for v in m.call("c13.loss_machine", [kind, flags, -1] + fresh_ops)][-3:]
                return (tr_, tf_, model_value(ctx, qst, datasets[tr_[0]], model_weights(ctx, tr_[1], datasets, customs), var),
                        model_value(ctx, qst, datasets[tf_[0]], model_weights(ctx, tf_[1], datasets, customs), var))
            rep = predict(7)
            ctx.count("loss", key=(kind, on_para, tuple(zs_ops), tuple(case["var"])), nontrivial=True, label=label)
            site = S_FAST if kind == 1 else S_GENERIC
            if isinstance(obs, Exception) or isinstance(obf, Exception):
                ctx.violation("loss", site, "exception:" + type(obs if isinstance(obs, Exception) else obf).__name__, "value()/gradient() raised: %r / %r" % (obs, obf), sub)
                continue
            if same(obs, rep[2], 1e-7) and same(obf, rep[3], 1e-7) and not hist_dep:
                continue
            # ---- deviation from the repaired model: which missing repair explains it?  (most repairs present first)
            cands = sorted([f for f in range(7) if kind == 1 or f < 4], key=lambda f: -bin(f).count("1"))
            expl = None
            for f in cands:
                pr = predict(f | (0 if kind == 1 else 4))
                if same(obs, pr[2], 1e-7) and same(obf, pr[3], 1e-7):
                    expl = (f, pr)
                    break
            what = ("after %s the re-used %s loss returns value %.8g, a fresh object configured the same way %.8g (%s); the call means dataset %d with weights '%s': value %.8g "
                    "[weights: -1 none, k custom list k, 1000+2d+u inverse covariance of dataset d]" % (
                        zs_ops, kname, obs[0], obf[0], "HISTORY DEPENDENT" if hist_dep else "no history dependence, but both deviate from the model of the repaired code",
                        rep[0][0], rep[0][1], rep[2][0]))
            if expl is None:
                ctx.violation("loss", site, "loss-model-mismatch", what + "; no configuration machine explains this", sub)
            else:
                f, pr = expl
                missing = [bit for bit in (1, 2, 4) if not f & bit and (kind == 1 or bit != 4)]
                for bit in missing:
                    vs, vg, slug = FIX_SIG[bit]
                    ctx.violation("loss", vs, vg, what + "; explained by the machine of the code WITHOUT repair %s: re-used object evaluates dataset %d with weights '%s'" % (slug, pr[0][0], pr[0][1]), sub)
        else:
            tb = [int(v) for v in m.call("c13.loss_machine", [3, 0, -1] + zs_ops)][-3:]
            ta = [int(v) for v in m.call("c13.loss_machine", [2, 0, -1] + zs_ops)][-3:]
            want = relent_value(qst, datasets[tb[0]], None if tb[1] < 0 else customs[tb[1]], var)
            ctx.count("loss", key=(kind, on_para, tuple(zs_ops), tuple(case["var"])), nontrivial=want is not None, label=label)
            site_g = S_RFAST if (kind == 2 and op[0] == "set") else S_RGEN
            if isinstance(obs, Exception) or isinstance(obf, Exception):
                ctx.violation("loss", S_RFAST if kind == 2 else S_RGEN, "extend-weights-not-refreshed" if kind == 2 else "exception:" + type(obs if isinstance(obs, Exception) else obf).__name__,
                              "after %s value()/gradient() of the %s loss raised: %r / %r" % (zs_ops, kname, obs, obf), sub)
                continue
            ok_model = want is None or same(obs[0], want, 1e-7)
            if ok_model and not hist_dep:
                continue
            old = relent_value(qst, datasets[ta[0]], None if ta[1] < 0 else customs[ta[1]], var)
            by_old = old is not None and same(obs[0], old, 1e-7)
            sig = ("extend-weights-not-refreshed" if site_g == S_RFAST else "custom-weights-ignored" if (mode == "custom" and not hist_dep) else "identity-mode-keeps-previous-weights") if by_old or hist_dep else "loss-model-mismatch"
            ctx.violation("loss", site_g, sig,
                          "after %s the re-used %s loss returns value %.8g, a fresh object configured the same way %.8g (%s); the call means dataset %d with weights '%s': value %s%s" % (
                              zs_ops, kname, obs[0], obf[0], "HISTORY DEPENDENT" if hist_dep else "no history dependence", tb[0], tb[1], want,
                              "; explained by the machine of the code before fixes c12-re-set-weights-by-mode / c12-re-fast-extend-weights" if by_old else ""), sub)


def gen_loss_case(rng, kind, length):
    nd = 4
    # (probability exactly 0 or 1 - an outcome that never occurred - is met on purpose: the covariance weights replace such entries)
    datasets = [[[rng.choice([100, 400, 900, 50]), "%d/20" % (rng.choice([0, 20]) if rng.random() < 0.15 else rng.randint(1, 19))] for _ in range(3)] for _ in range(nd)]
    if kind in (0, 1):
        customs = [[["%d/4" % rng.randint(4, 12), "%d/4" % rng.randint(-3, 3), "%d/4" % rng.randint(4, 12)] for _ in range(3)] for _ in range(2)]
    else:
        customs = [["%d/4" % rng.randint(1, 16) for _ in range(3)] for _ in range(2)]
    on_para = rng.random() < 0.6
    ops = []
    for _ in range(length):
        if rng.random() < 0.8 or not ops:
            mode = rng.choice(MODES if kind in (0, 1) else ["identity", "custom"])
            ops.append(["cfg", rng.randrange(nd), mode, rng.randrange(2)])
        else:
            ops.append(["set", rng.choice([-1, 0, 1])])
    scale = 5 if kind in (0, 1) else 3
    var = ["%d/10" % rng.randint(-scale, scale) for _ in range(3)]
    if not on_para:
        var = ["7/10"] + var if kind in (2, 3) else ["%d/10" % rng.randint(-5, 5)] + var
    return {"kind": kind, "on_para": int(on_para), "datasets": datasets, "customs": customs, "ops": ops, "var": var}


def algo_env(tag_q):
    """qt tag: 0 = QST with on_para_eq_constraint True, 1 = False"""
    return loss_env(tag_q == 0)


def algo_option(tag_o, eps=1e-9):
    from quara.minimization_algorithm.projected_gradient_descent_backtracking import ProjectedGradientDescentBacktrackingOption as O
    return O(on_algo_eq_constraint=bool(tag_o & 2), on_algo_ineq_constraint=bool(tag_o & 1), eps=eps, max_iteration_optimization=300)


def mkproj_impl(qst, tag_o):
    """the projection ProjectedGradientDescent builds for (qt, option) - as in set_constraint_from_standard_qt_and_option"""
    from quara.minimization_algorithm.projected_gradient_descent_backtracking import ProjectedGradientDescentBacktracking as A
    a = A()
    a.set_constraint_from_standard_qt_and_option(qst, algo_option(tag_o))
    return a.func_proj


def chk_algo(ctx, case):
    """one algorithm object re-used by LossMinimizationEstimator.calc_estimate over several (tomography, option, data) jobs;
    case["user"] = [qt tag, option tag]: the object is constructed WITH a projection (that of this configuration)"""
    from quara.minimization_algorithm.projected_gradient_descent_backtracking import ProjectedGradientDescentBacktracking as A
    from quara.protocol.qtomography.standard.loss_minimization_estimator import LossMinimizationEstimator as E
    m = ctx.get_model()
    est = E()
    envs = {}

    def env(tq):
        if tq not in envs:
            envs[tq] = algo_env(tq)
        return envs[tq]
    user = case.get("user")
    p0 = -1 if user is None else 1000 * user[0] + user[1]
    mk = lambda: A() if user is None else A(func_proj=mkproj_impl(env(user[0])[2], user[1]))
    algo = mk()
    zs = []
    for k, (tq, to, dspec) in enumerate(case["jobs"]):
        qst = env(tq)[2]
        data = mk_dataset(dspec)
        zs += [tq, to]
        tx = [int(v) for v in m.call("c13.algo_machine", [1, p0] + zs)][-2:]       # the repaired object (model of the code)
        tb = [int(v) for v in m.call("c13.algo_machine", [0, p0] + zs)][-2:]       # as coded before fix pgd-cached-func-proj
        sub = dict(case, jobs=case["jobs"][:k + 1])

        def run(a, qs):
            try:
                with warnings.catch_warnings():
                    warnings.simplefilter("ignore")
                    r = est.calc_estimate(qs, data, new_loss(0, qs.num_variables), loss_option(0, "identity", None), a, algo_option(to))
                return np.array(r.estimated_var)
            except Exception as e:
                return e
        r_hist = canon(run(algo, qst))
        r_fresh = canon(run(mk(), algo_env(tq)[2]))
        # what each machine says: a fresh algorithm object that is GIVEN the projection named by the machine
        def realise(tag):
            pq, po = tag // 1000, tag % 1000
            return canon(run(A(func_proj=mkproj_impl(env(pq)[2], po)), algo_env(tq)[2]))
        r_model = realise(tx[0])
        hist_dep = not same(r_hist, r_fresh, 1e-7)
        # the projection closure itself, on probe vectors (an interior estimate would hide a wrong projection)
        want_proj = mkproj_impl(env(tx[0] // 1000)[2], tx[0] % 1000)
        nv = qst.num_variables
        for j in range(3):
            v = np.array([((7 * j + 3 * i + k) % 11 - 5) / 4.0 for i in range(nv)])
            def ev(f):
                try:
                    with warnings.catch_warnings():
                        warnings.simplefilter("ignore")
                        return canon(np.array(f(v.copy())))
                except Exception as e:
                    return canon(e)
            pa, pw = ev(algo.func_proj), ev(want_proj)
            if not same(pa, pw, 1e-9):
                old = tb[0] != tx[0] and same(pa, ev(mkproj_impl(env(tb[0] // 1000)[2], tb[0] % 1000)), 1e-9)
                ctx.violation("algo", S_ALGO, "cached-func-proj" if old else "algo-model-mismatch",
                              "after the configuration for (qt %d, constraints %d) algo.func_proj(%s) = %s, the projection of this configuration gives %s%s" % (
                                  tq, to, [float(x) for x in v], _brief(pa), _brief(pw), " [it is still the projection of the first job: the machine of the code before fix pgd-cached-func-proj]" if old else ""), sub)
                break
        ctx.count("algo", key=(p0,) + tuple(zs), nontrivial=(tb[0] != tx[0]) or user is not None,
                  label="job %d%s%s" % (min(k, 3), " user projection" if user is not None else "", " [projection differs from the first job's]" if tb[0] != tx[0] else ""))
        if same(r_hist, r_model, 1e-7) and not hist_dep:
            continue
        r_old = realise(tb[0]) if tb[0] != tx[0] else r_model
        if tb[0] != tx[0] and same(r_hist, r_old, 1e-7):
            ctx.violation("algo", S_ALGO, "cached-func-proj",
                          "algorithm object re-used for (qt %d, constraints %d) still projects with the closure built for (qt %d, constraints %d) "
                          "[the machine of the code before fix pgd-cached-func-proj]: estimate %s, fresh object %s" % (tq, to, tb[0] // 1000, tb[0] % 1000, _brief(r_hist), _brief(r_fresh)), sub)
        elif hist_dep:
            ctx.violation("algo", S_ALGO, "history-dependent-unexplained", "re-used %s vs fresh %s" % (_brief(r_hist), _brief(r_fresh)), sub)
        else:
            ctx.violation("algo", S_ALGO, "algo-model-mismatch", "re-used algorithm result %s differs from the result with the projection the machine names (%d): %s" % (_brief(r_hist), tx[0], _brief(r_model)), sub)


def chk_estimate(ctx, case):
    """LossMinimizationEstimator.calc_estimate_sequence with ONE loss object per class and ONE algorithm object re-used over several
    calls (weighting mode, constraint option and datasets change from call to call): every estimate must be the estimate that
    fresh objects give for that dataset alone (C13_estimation_history_independent: est_step_gp / est_step_fp = est_spec)"""
    from quara.minimization_algorithm.projected_gradient_descent_backtracking import ProjectedGradientDescentBacktracking as A
    from quara.protocol.qtomography.standard.loss_minimization_estimator import LossMinimizationEstimator as E
    on_para = bool(case["on_para"])
    w, c, qst = loss_env(on_para)
    datasets = [mk_dataset(sp) for sp in case["datasets"]]
    customs = [mk_custom(sp) for sp in case["customs"]]
    losses = {}
    algo = A()
    est = E()
    for k, (kind, mode, ck, to, ds) in enumerate(case["calls"]):
        sub = dict(case, calls=case["calls"][:k + 1])
        if kind not in losses:
            losses[kind] = new_loss(kind, qst.num_variables)
        opt = lambda: loss_option(kind, mode, customs[ck] if mode == "custom" else None)
        dd0 = data_digest(datasets, customs)
        try:
            with warnings.catch_warnings():
                warnings.simplefilter("ignore")
                seq = [np.array(v) for v in est.calc_estimate_sequence(qst, [datasets[d] for d in ds], losses[kind], opt(), algo, algo_option(to)).estimated_var_sequence]
        except Exception:
            # the sequence call raised for ONE of its datasets (fresh objects may raise for it as well): the objects stay in use,
            # the datasets are now estimated one by one so that every outcome can be attributed
            seq = []
            for d in ds:
                try:
                    with warnings.catch_warnings():
                        warnings.simplefilter("ignore")
                        seq.append(np.array(est.calc_estimate(qst, datasets[d], losses[kind], opt(), algo, algo_option(to)).estimated_var))
                except Exception as e:
                    seq.append(e)
        if data_digest(datasets, customs) != dd0:
            ctx.violation("estimate", "LossMinimizationEstimator.calc_estimate_sequence", "mutates-argument",
                          "call %d (loss %s, mode %s) overwrote the empirical distributions handed to it: %s" % (
                              k, ["generic", "fast"][kind], mode, [[[float(x) for x in pr] for _, pr in datasets[d]] for d in ds]), sub)
            return
        for i, d in enumerate(ds):
            try:
                with warnings.catch_warnings():
                    warnings.simplefilter("ignore")
                    w2, c2, qst2 = loss_env(on_para)
                    fr = np.array(E().calc_estimate(qst2, datasets[d], new_loss(kind, qst2.num_variables), opt(), A(), algo_option(to)).estimated_var)
            except Exception as e:
                fr = e
            got = seq[i]
            ctx.count("estimate", key=(on_para, k, i, kind, mode, to, repr(case["datasets"][d])), nontrivial=not isinstance(fr, Exception),
                      label="%s %s constraints=%d%s" % (["generic", "fast"][kind], mode, to, " (first call)" if k == 0 and i == 0 else ""))
            if not same(canon(got), canon(fr), 1e-7):
                ctx.violation("estimate", "LossMinimizationEstimator.calc_estimate_sequence", "history-dependent",
                              "call %d (loss %s, mode %s, constraints %d), dataset %d of the sequence: estimate with the re-used loss/algorithm objects %s, with fresh objects %s" % (
                                  k, ["generic", "fast"][kind], mode, to, i, _brief(canon(got)), _brief(canon(fr))), sub)
                return


def chk_loss_pair(ctx, case):
    """two loss objects (classes kind_a, kind_b) configured from tomography objects keep closures over them (functions of the
    probability distributions): whatever is done afterwards to the OTHER loss, to the tomography objects (seed reset, objects handed
    out and mutated, use by the other loss) leaves value()/gradient() of the first loss as they were"""
    ka, kb = case["kinds"]
    base = case["base"]
    datasets = [mk_dataset(sp) for sp in base["datasets"]]
    wa, ca, qa = loss_env(True)
    wb, cb, qb = loss_env(False)
    cust = lambda kind: [mk_custom(sp) for sp in base["customs"]] if kind in (0, 1) else [[float(Fraction(x)) for x in sp] for sp in base["rcustoms"]]
    va_, vb_ = np.array([0.1, -0.2, 0.3]), np.array([0.7, 0.1, -0.2, 0.3])
    la = new_loss(ka, qa.num_variables)
    la.set_from_standard_qtomography_option_data(qa, loss_option(ka, "custom", cust(ka)[0]), datasets[0], True, False)
    obs0 = canon(_observe(la, va_))
    lb = new_loss(kb, qb.num_variables)
    steps = [("configure the other loss on another tomography object", lambda: lb.set_from_standard_qtomography_option_data(qb, loss_option(kb, "custom", cust(kb)[1]), datasets[1], True, False)),
             ("evaluate the other loss", lambda: _observe(lb, vb_)),
             ("reset_seed of the tomography object", lambda: qa.reset_seed(3)),
             ("mutators on the object handed out by the tomography object", lambda: [mut(qa.generate_empty_estimation_obj_with_setting_info()) for _, mut in MUTATORS]),
             ("configure the other loss on the SAME tomography object", lambda: new_loss(kb, qa.num_variables).set_from_standard_qtomography_option_data(qa, loss_option(kb, "identity", None), datasets[2], True, False)),
             ("generate data from the tomography object", lambda: qa.generate_empi_dists(qa.generate_empty_estimation_obj_with_setting_info().generate_origin_obj(), 10))]
    for name, act in steps:
        try:
            with warnings.catch_warnings():
                warnings.simplefilter("ignore")
                act()
        except Exception:
            pass
        obs = canon(_observe(la, va_))
        ctx.count("loss_pair", key=(ka, kb, name), label="%s | %s" % (LOSS_CLASS[ka][:12], name[:30]))
        if not same(obs, obs0, 1e-12):
            ctx.violation("loss_pair", LOSS_CLASS[ka] + ".value", "history-dependent",
                          "value()/gradient() of a configured %s changed after: %s (%s -> %s)" % (LOSS_CLASS[ka], name, _brief(obs0), _brief(obs)), case)
            return


def sub_loss(ctx):
    rng = ctx.rng
    cases = []
    for _ in range(nb(ctx, 24, 240)):
        cases.append(gen_loss_case(rng, rng.choice([0, 0, 1, 1, 2, 3]), rng.randint(2, ctx.n(5, 8))))
    # systematic part: every ordered pair of weighting modes on one object (second configuration on another dataset), and a
    # setter call between / after them - so that "mode B after mode A" is exercised for ALL A, B on every run
    base = gen_loss_case(rng, 0, 1)
    rbase = gen_loss_case(rng, 2, 1)
    for b_ in (base, rbase):                       # an outcome that never occurred, in first and in last position
        b_["datasets"][0][2][1] = "0/20"; b_["datasets"][1][0][1] = "20/20"
    for kind in (0, 1, 2, 3):
        b = base if kind in (0, 1) else rbase
        modes = MODES if kind in (0, 1) else ["identity", "custom"]
        for i, m1 in enumerate(modes):
            for j, m2 in enumerate(modes):
                ops = [["cfg", 0, m1, 0], ["cfg", 1, m2, 1]]
                if (i + j) % 3 == 0:
                    ops = [ops[0], ["set", (i + j) % 2], ops[1], ["set", -1 if i % 2 else 1]]
                cases.append(dict(b, kind=kind, ops=ops))
    ctx.sample("loss", cases[0])
    ctx.run_cases("loss", chk_loss, cases)
    ac = []
    for _ in range(ctx.n(6, 60)):
        jobs = []
        for _ in range(rng.randint(2, 4)):
            jobs.append([0 if rng.random() < 0.8 else 1, rng.randrange(4), [[rng.choice([100, 400]), "%d/20" % rng.choice([1, 2, 18, 19, 10, 3])] for _ in range(3)]])
        ac.append({"jobs": jobs} if rng.random() < 0.75 else {"jobs": jobs, "user": [jobs[0][0], rng.randrange(4)]})
    ctx.sample("algo", ac[0])
    ctx.run_cases("algo", chk_algo, ac)
    ec = []
    for _ in range(ctx.n(3, 20)):
        base = gen_loss_case(rng, 0, 1)
        calls = [[rng.choice([0, 1]), rng.choice(MODES), rng.randrange(2), rng.choice([0, 1, 3]), [rng.randrange(4) for _ in range(rng.randint(1, 2))]] for _ in range(rng.randint(2, 3))]
        ec.append({"on_para": base["on_para"], "datasets": base["datasets"], "customs": base["customs"], "calls": calls})
    # fixed case: a sequence in which the optimiser raises for one dataset (with fresh objects too) - attribution per dataset
    ec.insert(0, {"on_para": 1, "datasets": [[[900, "13/20"], [900, "16/20"], [50, "1/20"]], [[50, "13/20"], [400, "11/20"], [400, "3/20"]]],
                  "customs": [[["10/4", "2/4", "11/4"]] * 3], "calls": [[0, "inverse_sample_covariance", 0, 3, [1, 0]], [1, "identity", 0, 1, [1]]]})
    pb = gen_loss_case(rng, 0, 1)
    pb["rcustoms"] = gen_loss_case(rng, 2, 1)["customs"]
    pairs = [{"kinds": [a, b], "base": pb} for a in range(4) for b in range(4) if not ctx.quick or b in (a, (a + 1) % 4)]
    ctx.run_cases("loss_pair", chk_loss_pair, pairs)
    ctx.sample("estimate", ec[0])
    ctx.run_cases("estimate", chk_estimate, ec)


# ------------------------------------------------------------------------------------------------ witnesses of the refuted theorems
def chk_witness(ctx, case):
    """the witnesses of the ..._refuted theorems (about the code before the fixes): on the repaired code they must not reproduce"""
    name = case["name"]
    ctx.count("witness", key=name, label=name)
    if name == "mprocess-mutates-argument":
        # C13_mprocess_proj_eq_mutates_argument_refuted / C13_wit_fixed: d2 = 4, two outcomes, var_i = i/10
        w = World(); c = w.csys(((0,), 0))
        var = np.arange(32, dtype=np.float64) / 10
        q()["mp"].MProcess.calc_proj_eq_constraint_with_var(c, var, on_para_eq_constraint=False)
        if var[1] != 0.1:
            ctx.violation("witness", S_MPROC, "mutates-argument", "witness of C13_mprocess_proj_eq_mutates_argument_refuted: var[1] 0.1 -> %r" % var[1], case)
    elif name in ("generic-identity", "fast-inverse", "fast-setter"):
        kind = 0 if name == "generic-identity" else 1
        d1 = [[100, "4/5"], [100, "3/10"], [100, "4/5"]]; d = [[100, "3/5"], [100, "9/20"], [100, "1/10"]]
        ops = {"generic-identity": [["cfg", 0, "inverse_sample_covariance", 0], ["cfg", 1, "identity", 0]],
               "fast-inverse": [["cfg", 0, "inverse_sample_covariance", 0], ["cfg", 1, "inverse_sample_covariance", 0]],
               "fast-setter": [["cfg", 1, "identity", 0], ["set", 0]]}[name]
        chk_loss(ctx, {"kind": kind, "on_para": 1, "datasets": [d1, d], "customs": [[["2", "1/2", "3"]] * 3, [["1", "0", "1"]] * 3], "ops": ops, "var": ["1/10", "1/5", "3/10"]})
    elif name == "algo-cached-projection":
        far = [[100, "19/20"], [100, "9/10"], [100, "19/20"]]
        chk_algo(ctx, {"jobs": [[0, 0, far], [0, 3, far]]})


def sub_witness(ctx):
    cases = [{"name": n} for n in ("mprocess-mutates-argument", "generic-identity", "fast-inverse", "fast-setter", "algo-cached-projection")]
    ctx.run_cases("witness", chk_witness, cases)


SUBS = [("cache", sub_cache), ("heap", sub_heap), ("basis", sub_basis), ("loss", sub_loss), ("witness", sub_witness), ("pure", sub_pure), ("getters", sub_getters), ("sampling", sub_sampling), ("tomo", sub_tomo), ("shared", sub_shared), ("containers", sub_containers), ("factory", sub_factory), ("derived", sub_derived), ("history", sub_history), ("process", sub_process)]
FNS = {"cache": chk_cache, "heap": chk_heap, "basis": chk_basis, "copy": chk_copy, "loss": chk_loss, "algo": chk_algo, "estimate": chk_estimate, "loss_pair": chk_loss_pair,
       "witness": chk_witness, "history": chk_history, "factory": chk_factory, "derived": chk_derived, "pure": chk_pure, "tomo": chk_tomo, "tomo_estimate": chk_tomo_estimate, "shared": chk_shared_estimators, "containers": chk_containers, "process": chk_process, "getters": chk_getters, "sampling_copy": chk_sampling_copy, "sampling": chk_sampling}


def regen_tables(ctx):
    """translator tie (protocol of flow.regen_check with this property's own translator gen/c13_py2coq.py): regenerate from the
    CURRENT source the decision tables of the C13 machines (CompositeSystem getter/builder/delete tables; weighting-mode
    dispatch of the squared-error and relative-entropy losses, refresh of the fast losses' extension; ProjectedGradientDescent's
    early return and flag dispatch), compile them and re-check coq/gen/C13_Equiv.v (regenerated tables = hand-written model;
    main cache theorem for the machine built from the regenerated tables).  returns (ok, info)"""
    import os, re, shutil, subprocess, sys
    import runner
    V = runner.V
    scratch = os.path.join(getattr(ctx, "scratch", os.path.join(V, "build", ctx.prop_id)), "gen")
    os.makedirs(scratch, exist_ok=True)
    gen_v = os.path.join(scratch, "Gen_C13.v")
    for stem in (gen_v[:-2], os.path.join(scratch, "C13_Equiv")):
        for ext in (".vo", ".vos", ".vok", ".glob"):
            try:
                os.remove(stem + ext)
            except OSError:
                pass
    equiv = os.path.join(V, "coq", "gen", "C13_Equiv.v")
    src = open(equiv).read()
    src_nc = re.sub(r"\(\*.*?\*\)", " ", src, flags=re.S)
    thms = re.findall(r"^\s*Theorem\s+([\w']+)", src_nc, flags=re.M)
    ctx.theorems = list(ctx.theorems) + [t for t in thms if t not in ctx.theorems]
    ctx.obligations += len(thms)
    r = subprocess.run([sys.executable, os.path.join(V, "gen", "c13_py2coq.py"), os.environ.get("VERIF_REPO", "/repo"), gen_v], capture_output=True, text=True, timeout=120)
    if r.returncode != 0:
        return False, {"theorem": thms[0], "error": "translator rejected the source (outside its subset): " + (r.stdout + r.stderr)[-600:]}
    qq = ["-Q", os.path.join(V, "coq", "theories"), "QV", "-Q", scratch, "QVGen"]
    r = subprocess.run(["timeout", "300", "coqc"] + qq + [gen_v], capture_output=True, text=True)
    if r.returncode != 0:
        return False, {"theorem": thms[0], "error": "regenerated tables do not compile: " + (r.stdout + r.stderr)[-600:]}
    dst = os.path.join(scratch, "C13_Equiv.v")
    shutil.copy(equiv, dst)
    r = subprocess.run(["timeout", "300", "coqc"] + qq + [dst], capture_output=True, text=True)
    out = r.stdout + r.stderr
    if r.returncode != 0:
        m_ = re.search(r"line (\d+), characters", out)
        thm = None
        if m_:
            names = re.findall(r"^\s*(?:Theorem|Lemma)\s+([\w']+)", "\n".join(src.splitlines()[:int(m_.group(1))]), flags=re.M)
            thm = names[-1] if names else None
        return False, {"theorem": thm, "error": out[-800:]}
    blocks = runner.parse_assumptions(out)
    bad = [a for closed, axs in blocks for a in axs if a not in runner.ALLOWED_AXIOMS and a.split(".")[-1] not in runner.ALLOWED_AXIOMS]
    if len(blocks) != len(thms) or bad:
        return False, {"theorem": thms[0], "error": "assumption gate on regenerated proofs: %d blocks / %d theorems, disallowed %s" % (len(blocks), len(thms), bad)}
    for t, (closed, axs) in zip(thms, blocks):
        ctx.axioms[t] = "closed" if closed else sorted(set(axs))
    ctx.discharged += len(thms)
    return True, {}


def run(ctx):
    ctx.rule = ("histories: seeded random interleavings (length 10 quick / 40 thorough) over a pool of ~35 objects of all types on two qubits and a qutrit "
                "built from small rationals (physical and non-physical, unequal outcome counts, asymmetric); every result compared (1e-10) with the same "
                "call on fresh deep copies in a fresh world, SHA-1 byte snapshots of every pool object and basis before/after; non-trivial = the call "
                "returned a value (error branches are compared but counted trivial); snapshots cover every public property; functions returned by the "
                "func_calc_* factories are derived objects observed on fixed probe vectors after every later operation; returned objects must own their arrays. "
                "pure / tomo / derived / sampling: deterministic sweeps (tables in the source), boundary data with an exact zero probability in every position. factory: all 6 factories x all "
                "argument combinations (3 / 27) on 8 (thorough 15) objects with default and non-default configuration. cache: get/delete sequences with the Coq machine alongside. "
                "loss/algo: re-configuration sequences over 4 datasets x 5 weighting modes (2 for relative entropy) with setter calls in between; "
                "every step evaluated on the re-used object, on a fresh object and by the Coq machine of the repaired code + numerical model; "
                "algo non-trivial = the job needs another projection than the first job, or the object carries a user projection. "
                "Failing histories are shrunk by greedy op removal.")
    # flow.standard_run with this property's own translator tie (flow.regen_check is bound to gen/py2coq.py)
    import runner
    ok, info = runner.check_props(ctx)
    ok2, info2 = regen_tables(ctx)
    ctx.boost = False
    if not ok2:
        ok, info = False, info2
        # widen the random sweeps of the sub-checks that exercise the translated code (cache, loss): look harder for a failing input;
        # the copy / getter / projection-dispatch tables have deterministic sub-checks of their own (sampling_copy, getters, algo)
        ctx.boost = info2.get("theorem") not in ("C13_gen_copy_shares_no_mutable_member", "C13_gen_getters_are_pure_reads", "C13_gen_pgd_dispatch")
        ctx.note("regenerated-table obligations (coq/gen/C13_Equiv.v) not discharged: %s" % str(info2)[:400])
        ctx.note("translator tie broken: the random parts of the cache and loss sub-checks run with 3x their quick-tier sizes")
    if not ok:
        ctx.discharged = min(ctx.discharged, ctx.obligations - 1)
    for name, fn in SUBS:
        if ctx.only is None or name in ctx.only:
            fn(ctx)
    if not ok and not ctx.violations:
        ctx.violation("theorems", "Props/%s.v" % ctx.prop_id, "theorem-broken:%s" % info.get("theorem"),
                      "theorem %s no longer checks: %s" % (info.get("theorem"), info.get("error", "")[-400:]),
                      {"theorem": info.get("theorem"), "error": info.get("error")}, no_input=True)
    elif not ok:
        ctx.note("theorem obligations not discharged: %s" % info)


def replay(ctx, doc):
    flow.standard_replay(ctx, doc, FNS)
