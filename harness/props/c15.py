"""C15 — Monte-Carlo simulations are reproducible with independent repetitions.

The Coq dataflow model (Model/C15_Dataflow.v) describes the code WITH the repairs /verif/fixes/c15-*.diff; the definitions
`*_before_fix` of the model are only used to NAME a violation when the implementation follows the old dataflow.

Translator tie (regen_physcheck): gen/c15_py2coq.py regenerates the physicality-check decision functions and the seed/stream dispatch of
execute_simulation from the current source; coq/gen/C15_Equiv.v (regenerated = hand model, transported theorems) is re-checked on every run.

Sub-checks
  single    execute_simulation (single setting): repeat runs bit-identical; the data of every repetition is regenerated from the
            key the Coq dataflow model assigns to it (Generator(MT19937(SeedSequence(root, spawn_key=path))) at offset off);
            repetitions pairwise different exactly where the model keys are pairwise distinct (theorem: always); re-estimation
            from the stored empirical distributions reproduces the stored estimates.
  race      execute_estimation under joblib's threading backend with a FORCED, recorded schedule (every task loads its data before any task optimises; steps serialised by locks):
            every task's estimate must be the serial estimate of ITS data (model run_private on the recorded schedule).
            Deterministic: nothing depends on a race manifesting.
  reest     EVERY re-estimation entry point of both modules (re_estimate, re_estimate_sequence, _from_path, _from_index, flow
            re_estimate_case_unit / _sample_unit / _test_setting_unit / _test_settings, load_simulation_results) on a stored run whose
            estimators / options carry NON-default configuration and whose data make the projection run: bit-identical estimates.
  flow      execute_simulation_test_settings: worker counts {1,2,4} at each of the four joblib levels + repeats: objects,
            empirical distributions, estimates, check verdicts bit-identical; objects/data regenerated from the model keys
            (all mixes of noise methods); repetitions pairwise different; re_estimate reproduces; built-in physicality check
            vs the decision-table model evaluated on the stored estimates.
  depol     depolarised objects (three construction paths, all four object types) vs the model (composition = stated
            mixture, coefficient and operator level), p incl. 0 and 1, physical by quara's verdict and by exact PSD decision.
  randlind  random-Lindbladian noise objects: physical (quara verdict + exact PSD at tolerance), reproducible per seed. MONITORING.
  decision  synthetic stored estimates x estimator kind x parametrisation x algo flags: implementation verdict vs model.
  sched     model-only: par_exec on random covering / non-covering orders; numpy SeedSequence.spawn vs the model's spawn paths.
"""
import os, sys, io, shutil, itertools, contextlib, copy, warnings, threading
from fractions import Fraction
import numpy as np
from common import flow, qcheck
from common.model import cflat, rflat, to_c

LEVEL = "proof"
V = os.path.dirname(os.path.dirname(os.path.dirname(os.path.abspath(__file__))))
SCRATCH = os.path.join(V, "build", "C15", "sim-%d" % os.getpid())
LEVELS = ["per_sample_unit", "per_data_generation", "per_estimator_unit", "per_estimator_execution"]
PHYS_ONLY = {"consistency": False, "mse_of_estimators": False, "mse_of_empi_dists": False, "physicality_violation": True}


# ------------------------------------------------------------------ plumbing
@contextlib.contextmanager
def quiet():
    """silence quara / joblib / tqdm chatter, also from worker processes (they inherit the descriptors)"""
    sys.stdout.flush(); sys.stderr.flush()
    so, se = os.dup(1), os.dup(2)
    dn = os.open(os.devnull, os.O_WRONLY)
    try:
        os.dup2(dn, 1); os.dup2(dn, 2)
        with warnings.catch_warnings():
            warnings.simplefilter("ignore")
            yield
    finally:
        sys.stdout.flush(); sys.stderr.flush()
        os.dup2(so, 1); os.dup2(se, 2)
        os.close(so); os.close(se); os.close(dn)


def note_once(ctx, msg):
    if msg not in ctx.notes:
        ctx.note(msg)


_csys_cache = {}


def csys(mode="qubit"):
    from quara.objects.composite_system import CompositeSystem
    from quara.objects.elemental_system import ElementalSystem
    from quara.objects import matrix_basis
    if mode not in _csys_cache:
        if mode == "qubit":
            _csys_cache[mode] = CompositeSystem([ElementalSystem(0, matrix_basis.get_normalized_pauli_basis())])
        elif mode == "qutrit":
            _csys_cache[mode] = CompositeSystem([ElementalSystem(0, matrix_basis.get_normalized_gell_mann_basis())])
        elif mode == "2qubit":
            _csys_cache[mode] = CompositeSystem([ElementalSystem(0, matrix_basis.get_normalized_pauli_basis()),
                                                 ElementalSystem(1, matrix_basis.get_normalized_pauli_basis())])
    return _csys_cache[mode]


def obj_arrays(q):
    """the numbers that define a quara object"""
    from quara.objects.state import State
    from quara.objects.povm import Povm
    from quara.objects.gate import Gate
    from quara.objects.mprocess import MProcess
    if type(q) == State:
        return [q.vec]
    if type(q) == Povm:
        return list(q.vecs)
    if type(q) == Gate:
        return [q.hs]
    if type(q) == MProcess:
        return list(q.hss)
    raise TypeError(type(q))


def obj_bytes(q):
    return (type(q).__name__,) + tuple(np.ascontiguousarray(a).tobytes() for a in obj_arrays(q))


def empi_bytes(seq):
    """seq: [num_data index][schedule] -> (n, dist)"""
    return tuple((int(n), np.ascontiguousarray(d).tobytes()) for nd in seq for (n, d) in nd)


def est_bytes(er):
    return tuple(np.ascontiguousarray(v).tobytes() for v in er.estimated_var_sequence)


def gen_from_key(root, path, bitgen="MT19937"):
    import numpy.random as npr
    return npr.Generator(getattr(npr, bitgen)(npr.SeedSequence(int(root), spawn_key=tuple(int(x) for x in path))))


def global_state():
    """numpy's process-global generator state, comparable"""
    st = np.random.get_state()
    return (st[0], st[1].tobytes(), st[2], st[3], st[4])


def parse_keys(vals, count):
    """decode [count] keys of the model's encoding; returns (list of ('seed', root, path, off) | ('ambient', off), rest)"""
    out = []
    vals = [int(v) for v in vals]
    i = 0
    for _ in range(count):
        tag, root, off, ln = vals[i:i + 4]
        path = tuple(vals[i + 4:i + 4 + ln]); i += 4 + ln
        out.append(("seed", root, path, off) if tag == 0 else ("ambient", off))
    return out, vals[i:]


def mk_seed(value, dtype=None):
    """an integer seed of the given KIND: python int (dtype None) or a NumPy integer scalar (np.int64 from np.arange, np.uint32 from
    SeedSequence.generate_state, ...).  The model knows only the VALUE (SInt n): the kind must not matter."""
    if value is None:
        return None
    return int(value) if dtype is None else getattr(np, dtype)(int(value))


def estimator_cases():
    from quara.protocol.qtomography.standard.linear_estimator import LinearEstimator
    from quara.protocol.qtomography.standard.projected_linear_estimator import ProjectedLinearEstimator
    from quara.protocol.qtomography.standard.loss_minimization_estimator import LossMinimizationEstimator
    from quara.loss_function.standard_qtomography_based_weighted_relative_entropy import (
        StandardQTomographyBasedWeightedRelativeEntropy, StandardQTomographyBasedWeightedRelativeEntropyOption)
    from quara.minimization_algorithm.projected_gradient_descent_backtracking import (
        ProjectedGradientDescentBacktracking, ProjectedGradientDescentBacktrackingOption)

    def pgdb_opt():
        return ProjectedGradientDescentBacktrackingOption(
            mode_stopping_criterion_gradient_descent="sum_absolute_difference_variable",
            num_history_stopping_criterion_gradient_descent=1, eps=1e-9)
    def pgdb_opt2():          # NON-default configuration: projection order, stopping rule, step parameter
        return ProjectedGradientDescentBacktrackingOption(
            mode_stopping_criterion_gradient_descent="sum_absolute_difference_variable",
            num_history_stopping_criterion_gradient_descent=2, eps=1e-8, mode_proj_order="ineq_eq", gamma=0.4)
    return {
        "linear": dict(estimator=LinearEstimator(), loss=(None, None), algo=(None, None)),
        "projected_linear": dict(estimator=ProjectedLinearEstimator(), loss=(None, None), algo=(None, None)),
        # estimators / options carrying NON-default configuration
        "projected_linear_ineq_eq": dict(estimator=ProjectedLinearEstimator(mode_proj_order="ineq_eq"), loss=(None, None), algo=(None, None)),
        "loss_min_ineq_eq": dict(estimator=LossMinimizationEstimator(),
                                 loss=(StandardQTomographyBasedWeightedRelativeEntropy(), StandardQTomographyBasedWeightedRelativeEntropyOption("identity")),
                                 algo=(ProjectedGradientDescentBacktracking(), pgdb_opt2())),
        "loss_min": dict(estimator=LossMinimizationEstimator(),
                         loss=(StandardQTomographyBasedWeightedRelativeEntropy(), StandardQTomographyBasedWeightedRelativeEntropyOption("identity")),
                         algo=(ProjectedGradientDescentBacktracking(), pgdb_opt())),
    }


TOMO = {   # tomography type -> (true object, testers)
    "state": (("state", "a"), [("povm", "x"), ("povm", "y"), ("povm", "z")]),
    "state_z0": (("state", "z0"), [("povm", "x"), ("povm", "y"), ("povm", "z")]),     # pure true state: linear estimates are often unphysical
    "state_y1": (("state", "y1"), [("povm", "x"), ("povm", "y"), ("povm", "z")]),
    "povm": (("povm", "z"), [("state", "x0"), ("state", "y0"), ("state", "z0"), ("state", "z1")]),
    "gate": (("gate", "hadamard"), [("state", "x0"), ("state", "y0"), ("state", "z0"), ("state", "z1"), ("povm", "x"), ("povm", "y"), ("povm", "z")]),
    "mprocess": (("mprocess", "z-type1"), [("state", "x0"), ("state", "y0"), ("state", "z0"), ("state", "z1"), ("povm", "x"), ("povm", "y"), ("povm", "z")]),
}


# ------------------------------------------------------------------ physicality decision table on stored estimates
def herm(H):
    H = np.asarray(H, dtype=complex)
    return (H + H.conj().T) / 2


def defects(q):
    """(equality defect, inequality defect) of a regenerated estimate, computed independently of quara's verdict functions"""
    from quara.objects.state import State
    from quara.objects.povm import Povm
    from quara.objects.gate import Gate
    from quara.objects.mprocess import MProcess
    c = q.composite_system
    basis = [np.asarray(b.toarray() if hasattr(b, "toarray") else b, dtype=complex) for b in c.basis()]
    d = c.dim
    if type(q) == State:
        rho = sum(v * b for v, b in zip(q.vec, basis))
        return abs(np.trace(rho) - 1), max(0.0, -float(np.linalg.eigvalsh(herm(rho)).min()))
    if type(q) == Povm:
        ms = [sum(v * b for v, b in zip(vec, basis)) for vec in q.vecs]
        return float(np.abs(sum(ms) - np.eye(d)).max()), max(0.0, max(-float(np.linalg.eigvalsh(herm(m)).min()) for m in ms))
    e0 = np.zeros(d * d); e0[0] = 1
    if type(q) == Gate:
        return float(np.abs(q.hs[0] - e0).max()), max(0.0, -float(np.linalg.eigvalsh(herm(q.to_choi_matrix())).min()))
    if type(q) == MProcess:
        from quara.objects import gate as gmod
        chois = [gmod.to_choi_from_hs(c, hs) for hs in q.hss]
        return float(np.abs(sum(q.hss)[0] - e0).max()), max(0.0, max(-float(np.linalg.eigvalsh(herm(ch)).min()) for ch in chois))
    raise TypeError(type(q))


def kind_of(estimator):
    from quara.protocol.qtomography.standard.linear_estimator import LinearEstimator
    from quara.protocol.qtomography.standard.projected_linear_estimator import ProjectedLinearEstimator
    from quara.protocol.qtomography.standard.loss_minimization_estimator import LossMinimizationEstimator
    t = type(estimator)
    return 0 if t == LinearEstimator else 1 if t == ProjectedLinearEstimator else 2 if t == LossMinimizationEstimator else 3


def thresholds():
    from quara.data_analysis import physicality_violation_check as pvc
    return [float(pvc.get_eq_const_eps(True)), float(pvc.get_eq_const_eps(False)), float(pvc.get_ineq_const_eps())]


def in_band(cfgz, para, eq, ineq, th):
    """is some consulted comparison too close to its threshold to be asserted?  The equality verdicts of State/Povm use
    np.isclose/allclose with the default rtol=1e-5 (finding #1/#2 of C01): the band covers both readings."""
    kind, ho, ae, ai = cfgz
    eq_used = kind == 1 or (kind == 0 and para) or (kind == 2 and ho and ae)
    ineq_used = kind == 1 or (kind == 2 and ho and ai)
    teq = th[0] if para else th[1]
    if eq_used and teq / 10 < eq < (teq + 1e-5) * 10:
        return True
    if ineq_used and th[2] / 10 < ineq < th[2] * 10:
        return True
    return False


def model_check(ctx, cfgz, paras, defs, n_rep, n_num):
    """cfgz = (kind, has_option, algo_eq, algo_ineq); paras/defs indexed [r][i]"""
    m = ctx.get_model()
    zs = list(cfgz) + [n_rep, n_num] + [int(paras[r][i]) for r in range(n_rep) for i in range(n_num)]
    qs = thresholds() + [x for r in range(n_rep) for i in range(n_num) for x in (float(defs[r][i][0]), float(defs[r][i][1]))]
    return m.try_call("c15.check", zs, qs)


def check_physicality_verdict(ctx, sub, site, result, case):
    """built-in physicality check of a SimulationResult vs the decision-table model on the stored estimates"""
    st = result.simulation_setting
    n_rep, n_num = len(result.estimation_results), len(st.num_data)
    ao = st.algo_option
    cfgz = (kind_of(st.estimator), int(bool(ao)), int(bool(ao and ao.on_algo_eq_constraint)), int(bool(ao and ao.on_algo_ineq_constraint)))
    paras, defs, band = [], [], False
    th = thresholds()
    for er in result.estimation_results:
        qs = er.estimated_qoperation_sequence
        paras.append([bool(q.on_para_eq_constraint) for q in qs])
        defs.append([defects(q) for q in qs])
    for r in range(n_rep):
        for i in range(n_num):
            band = band or in_band(cfgz, paras[r][i], defs[r][i][0], defs[r][i][1], th)
    mst, mval = model_check(ctx, cfgz, paras, defs, n_rep, n_num)
    impl = [r["result"] for r in result.check_result["results"] if r["name"] == "Physicality Violation"]
    worst = max([max(d[0], d[1]) for row in defs for d in row] + [0.0])
    ctx.count(sub, key=("phys", repr(case), result.result_index["sample_index"] if result.result_index else 0, cfgz),
              nontrivial=not band, label="phys-%s-%s" % (["lin", "plin", "lossmin", "other"][cfgz[0]], "band" if band else ("pass" if impl and impl[0] else "fail")))
    if band or not impl:
        return
    if mst != "ok":
        ctx.violation(sub, site, "check-raises-model", "decision-table model raises on stored estimates (cfg %s)" % (cfgz,), case)
        return
    verdict, anyviol = bool(int(mval[0])), bool(int(mval[1]))
    if bool(impl[0]) != verdict:
        ctx.violation(sub, site, "physicality-verdict",
                      "built-in physicality check says %s, decision table on the stored estimates says %s (cfg %s, worst defect %.3g)" % (impl[0], verdict, cfgz, worst), case)
    elif verdict == anyviol:
        ctx.violation(sub, site, "model-self-consistency", "model check=%s but exists-violation=%s" % (verdict, anyviol), case)


# ------------------------------------------------------------------ single-setting entry point
def build_single(case):
    from quara.objects.qoperation_typical import generate_qoperation
    from quara.simulation import standard_qtomography_simulation as sim
    c = csys()
    tname, testers = TOMO[case["tomo"]]
    true = generate_qoperation(tname[0], tname[1], c)
    tobjs = [generate_qoperation(t[0], t[1], c) for t in testers]
    ec = estimator_cases()[case["est"]]
    st = sim.StandardQTomographySimulationSetting(
        name=case["est"], true_object=true, tester_objects=tobjs, estimator=ec["estimator"],
        seed_data=mk_seed(case["seed_data"], case.get("seed_dtype")), n_rep=case["n_rep"], num_data=case["num_data"],
        schedules=[[tuple(it) for it in sch] for sch in case["schedules"]] if case.get("schedules") else "all",
        eps_proj_physical=1e-5, eps_truncate_imaginary_part=1e-5,
        loss=ec["loss"][0], loss_option=ec["loss"][1], algo=ec["algo"][0], algo_option=ec["algo"][1])
    qt = sim.generate_qtomography(st, para=case["para"], init_with_seed=case.get("init_with_seed", True))
    return sim, st, qt


def single_arg(case):
    """the seed_or_generator argument described by the case"""
    a = case["arg"]
    if a["kind"] == "none":
        return None
    if a["kind"] == "int":
        return mk_seed(a["seed"], a.get("dtype"))
    return gen_from_key(a["root"], a["path"], a.get("bitgen", "MT19937"))


def chk_single(ctx, case):
    m = ctx.get_model()
    a = case["arg"]
    n_rep = case["n_rep"]
    site = "standard_qtomography_simulation.execute_simulation"
    with quiet():
        sim, st, qt = build_single(case)
        runs = []
        seeded_run = not (a["kind"] == "none" and case["seed_data"] is None)
        touched = None
        for rnd in range(2):
            if case.get("ambient_seed") is not None:
                np.random.seed(case["ambient_seed"])
            elif seeded_run:
                # numpy's GLOBAL generator in a different state before each of the two runs: a seeded run must neither read it ...
                np.random.seed(1000 + 7 * rnd + (case["seed_data"] or 0) % 1000)
            g_before = global_state()
            try:
                runs.append(sim.execute_simulation(qt, st, seed_or_generator=single_arg(case)))
            except TypeError as e:
                if "unexpected keyword argument 'seed_or_generator'" not in str(e):
                    raise
                runs = str(e)
                break
            if seeded_run and global_state() != g_before:
                touched = rnd      # ... nor advance / re-seed it
            if rnd == 0 and seeded_run and case.get("history", True):
                # history on the re-used setting / tomography / estimator objects: an unrelated run with ANOTHER seed in between
                sim.execute_simulation(qt, st, seed_or_generator=int((case["seed_data"] or 1) + 12345))
    if isinstance(runs, str):
        # the model yields a result for every tomography type; the implementation yields none
        ctx.count("single", key=repr(case), nontrivial=False, label="%s-%s-raises" % (case["tomo"], case["est"]))
        ctx.violation("single", site, "raises-typeerror-seed-keyword",
                      "execute_simulation for %s tomography raises TypeError: %s - the tomography class does not take the random stream under the "
                      "name execute_simulation passes it; no simulation result for a valid configuration" % (case["tomo"], runs), case)
        return
    r0, r1 = runs
    if touched is not None:
        ctx.violation("single", site, "seeded-run-touches-global-generator",
                      "a run with an explicit seed / Generator changed the state of numpy's process-global generator (np.random): other code that draws "
                      "from np.random is no longer independent of the simulation", case)
    # (a) repeat: bit-identical
    same = ([empi_bytes(s) for s in r0.empi_dists_sequences] == [empi_bytes(s) for s in r1.empi_dists_sequences]
            and [est_bytes(e) for e in r0.estimation_results] == [est_bytes(e) for e in r1.estimation_results])
    # (b) model keys (variant 0 = the model; variant 1 = the dataflow as coded before fix c15-execute-simulation-int-seed-stream,
    #     used only to name the violation)
    ak = {"none": 0, "int": 1, "gen": 2}[a["kind"]]
    zs = [ak, a.get("seed", a.get("root", 0)), 0, int(case["seed_data"] is not None), case["seed_data"] or 0, n_rep] + list(a.get("path", []))
    keys, keys_before = [parse_keys(m.call("c15.single_keys", [v] + zs), n_rep)[0] for v in (0, 1)]
    ambient = any(k[0] == "ambient" for k in keys)
    ctx.count("single", key=repr(case), nontrivial=n_rep >= 2, label="%s-%s-%s%s" % (case["tomo"], case["est"], (a["kind"] + (":np." + a["dtype"] if a.get("dtype") else "")) if a["kind"] != "none" else (("default-seed_data" + (":np." + case["seed_dtype"] if case.get("seed_dtype") else "")) if case["seed_data"] is not None else "ambient"), "" if case["para"] else "-nopara"))
    if not same and not (ambient and case.get("ambient_seed") is None):
        ctx.violation("single", site, "repeat-not-identical", "two runs with the same settings and seed differ (numpy's global generator was in a different state before each "
                      "run, and an unrelated run with another seed was made on the same objects in between)", case)
    # (c) regenerate every repetition's data from the key the model assigns to it
    stored = [empi_bytes(s) for s in r0.empi_dists_sequences]

    def regenerate(ks):
        with quiet():
            if case.get("ambient_seed") is not None:
                np.random.seed(case["ambient_seed"])
            expected = [None] * n_rep
            # group by generator identity, replay in offset order (one task-draw = one generate_empi_dists_sequence call)
            groups = {}
            for r, k in enumerate(ks):
                groups.setdefault(k[:-1], []).append((k[-1], r))
            for ident, lst in groups.items():
                g = np.random if ident[0] == "ambient" else gen_from_key(ident[1], ident[2], a.get("bitgen", "MT19937"))
                for o in range(max(o for o, _ in lst) + 1):
                    d = qt.generate_empi_dists_sequence(st.true_object, st.num_data, g)
                    for (oo, r) in lst:
                        if oo == o:
                            expected[r] = d
        return [empi_bytes(e) for e in expected]
    ident_pairs = [(i, j) for i in range(n_rep) for j in range(i + 1, n_rep) if stored[i] == stored[j]]
    if regenerate(keys) != stored:
        if keys_before != keys and regenerate(keys_before) == stored:
            ctx.violation("single", site, "repetitions-identical-int-seed",
                          "execute_simulation with an integer seed (%s): the repetitions do not draw from ONE stream (model keys %s) - every repetition starts a new "
                          "generator from the seed (key %s for all of them; dataflow single_key_before_fix, theorem C15_single_run_int_seed_identical_before_fix): "
                          "repetitions %s have identical empirical distributions and estimates" % (
                              ("explicit" if a["kind"] == "int" else "simulation_setting.seed_data") + ", kind " + (("numpy." + (a.get("dtype") or case.get("seed_dtype"))) if (a.get("dtype") or case.get("seed_dtype")) else "python int"),
                              keys, keys_before[0], ident_pairs), case)
        else:
            ctx.violation("single", site, "dataflow-model-mismatch",
                          "the repetitions do not use the streams the dataflow model assigns (model keys %s)" % (keys,), case)
        return
    # (d) property: repetitions are not copies of one another (model: keys pairwise distinct, theorem C15_single_keys_distinct)
    if len(set(keys)) != len(keys):
        ctx.violation("single", "model.single_keys", "model-self-consistency", "model keys %s are not pairwise distinct" % (keys,), case)
    if ident_pairs:
        ctx.violation("single", site, "repetitions-identical", "repetitions %s have identical empirical distributions although they draw from distinct stream positions %s" % (ident_pairs, keys), case)
    # (e) re-estimation from the stored empirical distributions reproduces the stored estimates
    with quiet():
        for r in range(n_rep):
            er = sim._execute_estimation(qt, r0.empi_dists_sequences[r], st.estimator, st.loss, st.loss_option, st.algo, st.algo_option)
            if est_bytes(er) != est_bytes(r0.estimation_results[r]):
                ctx.violation("single", "standard_qtomography_simulation._execute_estimation", "re-estimation-differs",
                              "re-estimating repetition %d from its stored empirical distributions gives a different estimate" % r, case)
                break


def sub_single(ctx):
    rng = ctx.rng
    cases = []
    tomos = ["state"] if ctx.quick else ["state", "povm", "gate", "mprocess"]
    for tomo in tomos:
        for est in ["linear", "projected_linear", "loss_min"]:
            if tomo in ("gate", "mprocess") and est == "loss_min" and ctx.quick:
                continue
            seeds = [rng.randrange(1, 2 ** 31) for _ in range(ctx.n(1, 2))] + ([5] if tomo == "state" and est == "linear" else [])
            for sd in seeds:
                base = dict(tomo=tomo, est=est, n_rep=3, num_data=[20, 2000] if tomo == "state" else [20, 500], para=True)
                cases.append(dict(base, seed_data=sd, arg={"kind": "none"}))                                      # documented default: int seed_data
                cases.append(dict(base, seed_data=rng.randrange(1, 2 ** 31), arg={"kind": "int", "seed": sd}))  # explicit int
                cases.append(dict(base, seed_data=sd, arg={"kind": "gen", "root": rng.randrange(1, 2 ** 31), "path": [rng.randrange(5)] if rng.random() < 0.5 else []}))
    # every KIND of integer seed the code accepts (to_stream: int or numpy.integer), as explicit argument and as seed_data default
    dtypes = ["int64", "uint32", "int32", "uint64", "int16", "uint8"]
    for dt in (rng.sample(dtypes, 2) + ["int64"] if ctx.quick else dtypes):
        hi = {"int16": 2 ** 15, "uint8": 2 ** 8}.get(dt, 2 ** 31)
        sd = rng.randrange(1, hi)
        base = dict(tomo="state", est="linear", n_rep=3, num_data=[20, 2000], para=True)
        cases.append(dict(base, seed_data=rng.randrange(1, 2 ** 31), arg={"kind": "int", "seed": sd, "dtype": dt}))
        cases.append(dict(base, seed_data=sd, seed_dtype=dt, arg={"kind": "none"}))
    # a Generator over another bit generator (the code must only thread it), user-defined (re-ordered / repeated) schedules
    cases.append(dict(tomo="state", est="linear", n_rep=3, num_data=[20, 2000], para=True, seed_data=rng.randrange(1, 2 ** 31),
                      arg={"kind": "gen", "root": rng.randrange(1, 2 ** 31), "path": [3], "bitgen": rng.choice(["PCG64", "Philox", "SFC64"])}))
    sched = [[["state", 0], ["povm", k]] for k in rng.sample([0, 1, 2], 3)] + [[["state", 0], ["povm", rng.randrange(3)]]]
    cases.append(dict(tomo="state", est="projected_linear", n_rep=3, num_data=[20, 500], para=rng.random() < 0.5, seed_data=rng.randrange(1, 2 ** 31),
                      schedules=sched, arg={"kind": "none"}))
    cases.append(dict(tomo="state", est="linear", n_rep=2, num_data=[50], para=True, seed_data=rng.randrange(1, 2 ** 31),
                      schedules=sched, arg={"kind": "int", "seed": rng.randrange(1, 2 ** 31), "dtype": "int64"}))
    if ctx.quick:      # the other three kinds of unknown, once each (the thorough tier runs the full grid)
        for tomo in ["povm", "gate", "mprocess"]:
            cases.append(dict(tomo=tomo, est="linear", n_rep=3, num_data=[20, 500], para=True, seed_data=rng.randrange(1, 2 ** 31), arg={"kind": "none"}))
    # ambient stream (no seed anywhere) made observable by seeding np.random first; para False; n_rep 1 and 4
    cases.append(dict(tomo="state", est="linear", n_rep=3, num_data=[20, 2000], para=False, seed_data=None, arg={"kind": "none"},
                      ambient_seed=rng.randrange(1, 2 ** 31), init_with_seed=False))
    cases.append(dict(tomo="state", est="projected_linear", n_rep=4, num_data=[20, 2000], para=False, seed_data=rng.randrange(1, 2 ** 31),
                      arg={"kind": "gen", "root": rng.randrange(1, 2 ** 31), "path": [1, 2]}))
    cases.append(dict(tomo="state", est="linear", n_rep=1, num_data=[20], para=True, seed_data=rng.randrange(1, 2 ** 31), arg={"kind": "none"}))
    ctx.sample("single", cases[0])
    ctx.run_cases("single", chk_single, cases)


# ------------------------------------------------------------------ estimation tasks and the objects they mutate (deterministic)
LOSS_CASES = ["loss_min"]


def empi_key(empi_dists):
    return tuple((int(n), np.ascontiguousarray(d).tobytes()) for (n, d) in empi_dists)


def _nested_backend_probe():
    """executed inside a loky worker process: the backend a joblib.Parallel created THERE would use"""
    from joblib.parallel import get_active_backend
    b = get_active_backend()[0]
    return type(b).__name__


def forced_schedule_run(case):
    """Runs the real execute_estimation on joblib's THREADING backend with one thread per repetition and a FORCED schedule: a barrier in front of algo.optimize lets every
    task load its data (loss.set_from_standard_qtomography_option_data) before any task optimises; the load and optimise steps are
    serialised by a lock and recorded.  Only the scheduling of the threads is constrained - every such schedule is one the
    threading backend may produce by itself.  Returns dict(serial=..., forced=..., events=..., broken=..., loss_ids=...)."""
    import joblib
    n = case["n_tasks"]
    with quiet():
        sim, st, qt = build_single(dict(tomo=case["tomo"], est=case["est"], seed_data=1, n_rep=n, num_data=[case["num"]], para=case["para"], init_with_seed=False))
        data = [qt.generate_empi_dists_sequence(st.true_object, [case["num"]], gen_from_key(case["root"], [t])) for t in range(n)]
        serial = [sim._execute_estimation(qt, data[t], copy.deepcopy(st.estimator), copy.deepcopy(st.loss), st.loss_option, copy.deepcopy(st.algo), st.algo_option).estimated_var_sequence[0]
                  for t in range(n)]
    key_of = {empi_key(d[0]): t for t, d in enumerate(data)}
    tl, lock, barrier = threading.local(), threading.Lock(), threading.Barrier(n)
    events, broken, loss_ids, algo_ids = [], [], {}, {}
    LossT, AlgoT = type(st.loss), type(st.algo)
    orig_set, orig_opt = LossT.set_from_standard_qtomography_option_data, AlgoT.optimize

    def set_wrap(self, qtomography, option, empi_dists, *a, **k):
        t = key_of[empi_key(empi_dists)]
        with lock:
            r = orig_set(self, qtomography, option, empi_dists, *a, **k)
            events.append(2 * t); loss_ids[t] = id(self); tl.task = t
        return r

    def opt_wrap(self, *a, **k):
        t = tl.task
        try:
            barrier.wait(timeout=60)
        except threading.BrokenBarrierError:
            broken.append(t)
        with lock:
            events.append(2 * t + 1); algo_ids[t] = id(self)
            return orig_opt(self, *a, **k)
    LossT.set_from_standard_qtomography_option_data, AlgoT.optimize = set_wrap, opt_wrap
    try:
        with quiet():
            with joblib.parallel_backend("threading"):
                # (execute_estimation_with_saved_empi_dists_sequences is not exercised: on the pinned tree it always raises - the loaded
                #  data is bound to the wrong name in _load_and_execute_estimation - and the flow refuses data_saving="on_storage")
                res = sim.execute_estimation(qt, st, data, n_jobs=n)
    finally:
        LossT.set_from_standard_qtomography_option_data, AlgoT.optimize = orig_set, orig_opt
    forced = [er.estimated_var_sequence[0] for er in res.estimation_results]
    return dict(serial=serial, forced=forced, events=events, broken=broken, loss_ids=loss_ids, algo_ids=algo_ids,
                setting_loss_id=id(st.loss))


def close(a, b):
    return bool(np.allclose(np.asarray(a), np.asarray(b), atol=1e-9, rtol=0))


_probe = {}


def race_probe(ctx):
    """does this tree let the repetitions' estimation tasks share one loss object?  (fixed small configuration, cached)"""
    if "r" not in _probe:
        out = forced_schedule_run(dict(tomo="state", est="loss_min", para=True, num=200, n_tasks=3, root=20260926, entry="memory"))
        _probe["r"] = {"shared": any(not close(out["forced"][t], out["serial"][t]) for t in range(3))}
    return _probe["r"]


def chk_race(ctx, case):
    m = ctx.get_model()
    if case.get("kind") == "backend":
        import joblib
        with quiet():
            names = joblib.Parallel(n_jobs=2)(joblib.delayed(_nested_backend_probe)() for _ in range(2))
        ctx.count("race", key="backend", nontrivial=False, label="nested-backend-" + "/".join(sorted(set(names))))
        ctx.note("race: a joblib.Parallel created inside a loky worker process uses %s (with ThreadingBackend the repetitions' estimation tasks of the flow entry point "
                 "run as threads of one process whenever exactly one enclosing level has n_jobs > 1)" % sorted(set(names)))
        return
    n = case["n_tasks"]
    site = "standard_qtomography_simulation.execute_estimation"
    out = forced_schedule_run(case)
    ev = out["events"]
    # the model on the RECORDED schedule: private copies (the model) / one shared object (as coded before fix c15-execute-estimation-private-copies)
    tr = [int(v) for v in m.call("c15.run_tasks", [0] + ev)]
    tr_before = [int(v) for v in m.call("c15.run_tasks", [1] + ev)]
    po, used = tr[0], {tr[i]: tr[i + 1] for i in range(1, len(tr), 2)}
    used_before = {tr_before[i]: tr_before[i + 1] for i in range(1, len(tr_before), 2)}
    forced_ok = (not out["broken"]) and sorted(ev[:n]) == [2 * t for t in range(n)] and sorted(ev[n:]) == [2 * t + 1 for t in range(n)]
    distinct = all(not close(out["serial"][i], out["serial"][j]) for i in range(n) for j in range(i + 1, n))
    ctx.count("race", key=repr(case), nontrivial=forced_ok and distinct and n >= 2,
              label="%s-%s-%s" % (case["entry"], case["est"], "forced" if forced_ok else "schedule-not-forced"))
    if po != 1 or sorted(used) != list(range(n)):
        ctx.violation("race", "harness.forced_schedule_run", "model-self-consistency", "recorded schedule %s is not a program-ordered run of %d tasks" % (ev, n), case)
        return
    if any(used[t] != t for t in range(n)):
        ctx.violation("race", "model.run_private", "model-self-consistency", "run_private on %s lets a task optimise over foreign data: %s" % (ev, used), case)
        return
    wrong = [t for t in range(n) if not close(out["forced"][t], out["serial"][t])]
    if not wrong:
        return
    shared_ids = len(set(out["loss_ids"].values())) < n
    dev = max(float(np.abs(np.asarray(out["forced"][t]) - np.asarray(out["serial"][t])).max()) for t in wrong)
    if all(close(out["forced"][t], out["serial"][used_before[t]]) for t in range(n)):
        ctx.violation("race", site, "shared-loss-thread-race",
                      "joblib threading backend, %d repetitions, schedule %s (2t = task t loads its data, 2t+1 = task t optimises): tasks %s return the estimate of ANOTHER "
                      "repetition's data (max deviation from their own serial estimate %.3g) - exactly the data indices %s that the one-shared-object dataflow "
                      "(run_shared_before_fix) predicts for this schedule; the model (run_private, theorem C15_private_copies_race_free) gives every task its own data. "
                      "All tasks loaded their data into %s." % (
                          n, ev, wrong, dev, [used_before[t] for t in range(n)],
                          "the SAME loss object (id() equal%s)" % (", the simulation setting's own object" if set(out["loss_ids"].values()) == {out["setting_loss_id"]} else "") if shared_ids else "distinct loss objects"), case)
    else:
        ctx.violation("race", site, "estimate-not-function-of-own-data",
                      "threading backend, schedule %s: estimates of tasks %s differ from the serial estimates of their data (max %.3g) and are not explained by the "
                      "one-shared-object dataflow either" % (ev, wrong, dev), case)


def sub_race(ctx):
    rng = ctx.rng
    cases = [dict(kind="backend")]
    for entry in ["memory"]:
        for _ in range(ctx.n(2, 6)):
            cases.append(dict(tomo="state", est="loss_min", para=rng.random() < 0.7, num=rng.choice([100, 200, 1000]), n_tasks=rng.choice([2, 3, 4]) if not ctx.quick else 3,
                              root=rng.randrange(1, 2 ** 31), entry=entry))
    if not ctx.quick:
        for tomo in ["povm", "gate"]:
            cases.append(dict(tomo=tomo, est="loss_min", para=True, num=200, n_tasks=3, root=rng.randrange(1, 2 ** 31), entry="memory"))
    ctx.sample("race", cases[1])
    ctx.run_cases("race", chk_race, cases)


# ------------------------------------------------------------------ flow entry point
NOISE = {
    "none": (None, {}),
    "depolarized": ("depolarized", {"error_rate": 0.1}),
    "random_lindbladian": ("random_effective_lindbladian", {"lindbladian_base": "identity", "strength_h_part": 0.1, "strength_k_part": 0.1}),
}


def build_test_setting(case):
    from quara.simulation.standard_qtomography_simulation import EstimatorTestSetting, NoiseSetting
    tname, testers = TOMO[case["tomo"]]
    ecs = estimator_cases()
    names = case["ests"]
    tm, tp = NOISE[case["true_noise"]]
    noises = case["tester_noise"] if isinstance(case["tester_noise"], list) else [case["tester_noise"]] * len(testers)
    return EstimatorTestSetting(
        true_object=NoiseSetting(qoperation_base=tuple(tname), method=tm, para=dict(tp)),
        tester_objects=[NoiseSetting(qoperation_base=tuple(t), method=NOISE[n][0], para=dict(NOISE[n][1])) for t, n in zip(testers, noises)],
        seed_qoperation=mk_seed(case["seed_qoperation"], case.get("seed_dtype")), seed_data=mk_seed(case["seed_data"], case.get("seed_dtype")),
        n_sample=case["n_sample"], n_rep=case["n_rep"],
        num_data=case["num_data"], schedules="all", case_names=list(names), estimators=[ecs[n]["estimator"] for n in names],
        eps_proj_physical_list=[1e-5] * len(names), eps_truncate_imaginary_part_list=[1e-5] * len(names),
        algo_list=[ecs[n]["algo"] for n in names], loss_list=[ecs[n]["loss"] for n in names],
        parametrizations=list(case["paras"]), c_sys=csys())


_run_counter = [0]


def run_flow(ts, parallel_mode, exec_check):
    from quara.simulation.standard_qtomography_simulation_flow import execute_simulation_test_settings
    _run_counter[0] += 1
    d = os.path.join(SCRATCH, "run%d" % _run_counter[0])
    shutil.rmtree(d, ignore_errors=True)
    os.makedirs(d, exist_ok=True)
    try:
        with quiet():
            return execute_simulation_test_settings([ts], d, pdf_mode="none", parallel_mode=parallel_mode,
                                                    exec_sim_check=dict(exec_check) if exec_check else None)
    finally:
        shutil.rmtree(d, ignore_errors=True)


def flow_digest(results):
    out = []
    for r in results:
        phys = [x["result"] for x in r.check_result["results"] if x["name"] == "Physicality Violation"]
        out.append((r.result_index["sample_index"], r.result_index["case_index"], obj_bytes(r.simulation_setting.true_object),
                    tuple(obj_bytes(t) for t in r.simulation_setting.tester_objects),
                    tuple(empi_bytes(s) for s in r.empi_dists_sequences), tuple(est_bytes(e) for e in r.estimation_results),
                    tuple(bool(p) for p in phys)))
    return out


DIG_PARTS = ["sample index", "case index", "true object", "tester objects", "empirical distributions", "estimates", "physicality verdict"]


def first_diff(d0, d1):
    if len(d0) != len(d1):
        return "number of results %d vs %d" % (len(d0), len(d1))
    for a, b in zip(d0, d1):
        for k, (x, y) in enumerate(zip(a, b)):
            if x != y:
                return "%s of (sample %s, case %s)" % (DIG_PARTS[k], a[0], a[1])
    return None


def flow_model_keys(ctx, case, n_tester, variant=0, amb=0):
    m = ctx.get_model()
    seeded = lambda n: int(n == "random_lindbladian")
    noises = case["tester_noise"] if isinstance(case["tester_noise"], list) else [case["tester_noise"]] * n_tester
    vals = m.call("c15.flow_keys", [variant, case["seed_qoperation"], case["seed_data"], case["n_sample"], case["n_rep"], seeded(case["true_noise"]), amb] + [seeded(n) for n in noises])
    vals = [int(v) for v in vals]
    raises, ambfree = bool(vals[0]), bool(vals[1])
    i = 2
    gk = {}
    for s in range(case["n_sample"]):
        for j in range(n_tester + 1):
            g = vals[i]; i += 1
            if g == 0:
                tag, root, off, ln = vals[i:i + 4]; path = tuple(vals[i + 4:i + 4 + ln]); i += 4 + ln
                gk[(s, j)] = ("seed", root, path, off) if tag == 0 else ("ambient", off)
            else:
                gk[(s, j)] = ("norandom",) if g == 1 else ("typeerror",)
    dk, rest = parse_keys(vals[i:], case["n_rep"])
    return raises, ambfree, gk, dk


def noise_of(case, j, n_tester):
    if j == 0:
        return case["true_noise"]
    tn = case["tester_noise"]
    return tn[j - 1] if isinstance(tn, list) else tn


def regen_objects(case, ts, gk, s, n_tester):
    """objects of sample s as the generation settings produce them from the model keys (sequential use of one generator per identity)"""
    from quara.objects.qoperation_typical import generate_qoperation
    gs = ts.to_generation_settings()
    settings = [gs.true_setting] + list(gs.tester_settings)
    gens, built = {}, {}
    order = sorted(range(n_tester + 1), key=lambda j: gk[(s, j)][-1] if gk[(s, j)][0] == "seed" else -1)
    for j in order:
        k = gk[(s, j)]
        if k[0] == "seed":
            g = gens.setdefault(k[1:3], gen_from_key(k[1], k[2]))
            o = settings[j].generate(g)
        elif noise_of(case, j, n_tester) == "none":
            nm = (TOMO[case["tomo"]][0] if j == 0 else TOMO[case["tomo"]][1][j - 1])
            o = generate_qoperation(nm[0], nm[1], csys())       # the flow bypasses the (dummy) generation setting
        else:
            o = settings[j].generate()
        built[j] = o[0] if type(o) == tuple else o
    return built


def objects_match(case, ts, gk, by, n_tester):
    for s in range(case["n_sample"]):
        built = regen_objects(case, ts, gk, s, n_tester)
        stored = by[(s, 0)].simulation_setting
        if obj_bytes(built[0]) != obj_bytes(stored.true_object) or any(obj_bytes(built[j + 1]) != obj_bytes(stored.tester_objects[j]) for j in range(n_tester)):
            return s
    return None


def chk_flow(ctx, case):
    from quara.simulation import standard_qtomography_simulation as sim
    n_tester = len(TOMO[case["tomo"]][1])
    site = "standard_qtomography_simulation_flow.execute_simulation_test_settings"
    site_su = "standard_qtomography_simulation_flow.execute_simulation_sample_unit"
    # the model (variant 0) and, only to NAME a violation, the dataflow as coded before fix c15-flow-generation-stream-per-setting
    raises, ambfree, gk, dk = flow_model_keys(ctx, case, n_tester, 0)
    raises_before, ambfree_before, gk_before, _ = flow_model_keys(ctx, case, n_tester, 1)
    with quiet():
        ts = build_test_setting(case)
    label = "%s-true:%s-testers:%s" % (case["tomo"], case["true_noise"], case["tester_noise"] if isinstance(case["tester_noise"], str) else "mixed")
    exec_check = case.get("exec_check", PHYS_ONLY)
    # ---- reference run
    np.random.seed(4242 + case["seed_data"] % 1000)       # numpy's global generator: a fully seeded flow must neither read nor change it
    g_before = global_state()
    try:
        ref = run_flow(ts, None, exec_check)
        impl_raises = None
    except TypeError as e:
        ref, impl_raises = None, "TypeError"
    flow_touched = impl_raises is None and global_state() != g_before
    np.random.seed(99 + case["seed_qoperation"] % 1000)    # ... a different global state before the repeat run
    ctx.count("flow", key=(repr(case), "ref"), label=label + ("-raises" if impl_raises else "-serial"))
    if impl_raises:
        if raises_before and not raises:
            bad = [n for n in (case["tester_noise"] if isinstance(case["tester_noise"], list) else [case["tester_noise"]]) if n != "random_lindbladian"][0]
            ctx.violation("flow", site_su, "mixed-noise-typeerror",
                          "true object with random-Lindbladian noise and a tester with '%s' noise: the run raises TypeError (the sample's stream is passed to a "
                          "generate() that takes no argument; dataflow qop_key_before_fix: GTypeError) - no result for a valid configuration; "
                          "the model hands the stream to exactly the settings that take one (keys %s)" % (bad, [gk[(0, j)] for j in range(n_tester + 1)]), case)
        else:
            ctx.violation("flow", site, "dataflow-model-mismatch", "implementation raises TypeError, the dataflow model does not", case)
        return
    d0 = flow_digest(ref)
    by = {(r.result_index["sample_index"], r.result_index["case_index"]): r for r in ref}
    n_case = len(case["ests"])
    # results are assembled BY INDEX (model flow_spec: sample-major, then case), whatever order the tasks ran in
    want_order = [(s_, c_) for s_ in range(case["n_sample"]) for c_ in range(n_case)]
    got_order = [(d[0], d[1]) for d in d0]
    if got_order != want_order:
        ctx.violation("flow", site, "result-order", "the returned list holds (sample, case) = %s, the model (flow_spec: results in submission order) %s" % (got_order, want_order), case)
        return
    # ---- repeat (property: function of settings and seeds)
    rep_diff = first_diff(d0, flow_digest(run_flow(ts, None, exec_check)))
    ctx.count("flow", key=(repr(case), "repeat"), label=label + "-repeat")
    if rep_diff is not None:
        if not ambfree_before:
            ctx.violation("flow", site_su, "unseeded-tester-generation",
                          "true object noise '%s' needs no random stream but a tester's noise is random: the testers are generated from the process-global np.random "
                          "(dataflow qop_key_before_fix: ambient; the model assigns %s) - %s differ between two runs with identical settings and seeds" % (
                              case["true_noise"], [gk[(0, j)] for j in range(n_tester + 1)], rep_diff), case)
        else:
            ctx.violation("flow", site, "not-reproducible", "%s differ between two serial runs with identical settings and seeds" % rep_diff, case)
        return
    if flow_touched:
        ctx.violation("flow", site, "seeded-run-touches-global-generator",
                      "a serial run of the flow entry point with seed_qoperation / seed_data changed the state of numpy's process-global generator", case)
    # ---- objects regenerated from the model keys
    with quiet():
        bad0 = objects_match(case, ts, gk, by, n_tester)
    if bad0 is not None:
        ctx.violation("flow", site, "dataflow-model-mismatch", "objects of sample %d are not what the generation settings produce from the model keys %s" % (
            bad0, [gk[(bad0, j)] for j in range(n_tester + 1)]), case)
    for s in range(case["n_sample"]):
        st0 = by[(s, 0)].simulation_setting
        for c in range(1, n_case):
            sc = by[(s, c)].simulation_setting
            if obj_bytes(sc.true_object) != obj_bytes(st0.true_object) or [obj_bytes(t) for t in sc.tester_objects] != [obj_bytes(t) for t in st0.tester_objects]:
                ctx.violation("flow", site, "cases-see-different-objects", "sample %d: case %d and case 0 hold different objects" % (s, c), case)
    # ---- worker counts (monitoring of scheduling independence)
    for pm in case["parallel_modes"]:
        res = run_flow(ts, pm, exec_check)
        d1 = flow_digest(res)
        if [(d[0], d[1]) for d in d1] != want_order:
            ctx.violation("flow", site, "result-order", "parallel_mode=%s: the returned list holds (sample, case) = %s, expected %s" % (pm, [(d[0], d[1]) for d in d1], want_order), case)
            continue
        diff = first_diff(d0, d1)
        ctx.count("flow", key=(repr(case), repr(pm), _run_counter[0]), label=label + "-parallel")
        if diff is None:
            continue
        same_inputs = len(d0) == len(d1) and all(a[:5] == b[:5] for a, b in zip(d0, d1))
        if same_inputs and race_probe(ctx)["shared"]:
            # Same objects and data, different estimates, and the deterministic probe (sub-check race) has established that this tree
            # lets the repetitions' tasks share one loss object: the difference is a manifestation of THAT defect, which sub-check
            # race reports with a forced schedule.  A race-dependent observation never decides the verdict.
            note_once(ctx, "flow: estimates differed from the serial run under some worker configuration; explained by the shared loss object "
                           "(violation shared-loss-thread-race of sub-check race) - not reported a second time")
            continue
        ctx.violation("flow", site, "depends-on-worker-count", "%s differ between the serial reference run and parallel_mode=%s" % (diff, pm), case)
    # ---- data regenerated from the model keys
    with quiet():
        for s in range(case["n_sample"]):
            r = by[(s, 0)]
            for rep, k in enumerate(dk):
                g = gen_from_key(k[1], k[2])
                d = r.qtomography.generate_empi_dists_sequence(r.simulation_setting.true_object, r.simulation_setting.num_data, g)
                if empi_bytes(d) != empi_bytes(r.empi_dists_sequences[rep]):
                    ctx.violation("flow", site, "dataflow-model-mismatch", "data of (sample %d, repetition %d) is not generated from the model key %s" % (s, rep, k), case)
            for c in range(1, n_case):
                if [empi_bytes(x) for x in by[(s, c)].empi_dists_sequences] != [empi_bytes(x) for x in r.empi_dists_sequences]:
                    ctx.violation("flow", site, "cases-see-different-data", "sample %d: case %d and case 0 hold different empirical distributions" % (s, c), case)
    # ---- property: repetitions are not copies of one another (model: data keys pairwise distinct)
    for (s, c), r in sorted(by.items()):
        reps = [empi_bytes(x) for x in r.empi_dists_sequences]
        if len(set(reps)) != len(reps):
            ctx.violation("flow", site, "repetitions-identical", "sample %d case %d: some repetitions are identical (%d distinct data of %d)" % (s, c, len(set(reps)), len(reps)), case)
    # ---- re-estimation reproduces the stored estimates
    with quiet():
        for (s, c), r in sorted(by.items()):
            for rep in range(case["n_rep"]):
                er = sim.re_estimate(ts, r, rep)
                if est_bytes(er) != est_bytes(r.estimation_results[rep]):
                    ctx.violation("flow", "standard_qtomography_simulation.re_estimate", "re-estimation-differs",
                                  "re_estimate of (sample %d, case %d, repetition %d) differs from the stored estimate" % (s, c, rep), case)
    # ---- built-in physicality check vs decision table
    for (s, c), r in sorted(by.items()):
        check_physicality_verdict(ctx, "flow", "standard_qtomography_simulation_check.execute_physicality_violation_check", r, dict(case, _sample=s, _case=c))


def sub_flow(ctx):
    rng = ctx.rng
    # grouped by worker count: loky reuses its worker processes while the count stays the same (a fresh pool costs 2-5 s)
    all2, all4 = {l: 2 for l in LEVELS}, {l: 4 for l in LEVELS}
    mixed = {"per_sample_unit": 2, "per_data_generation": 4, "per_estimator_unit": 1, "per_estimator_execution": 2}
    full = [{lvl: 2} for lvl in LEVELS] + [all2] + [{lvl: 4} for lvl in LEVELS] + [all4, mixed]
    # configurations in which joblib runs the repetitions' estimation tasks as THREADS (a Parallel nested in one worker process)
    nested_threads = [{"per_sample_unit": 2, "per_estimator_execution": 2}, {"per_estimator_unit": 2, "per_estimator_execution": 2}]

    def base(tomo="state", **kw):
        d = dict(tomo=tomo, ests=["linear", "projected_linear", "loss_min"], paras=[True, True, True], n_sample=2, n_rep=3,
                 num_data=[20, 2000] if tomo == "state" else [20, 500], seed_qoperation=rng.randrange(1, 2 ** 31), seed_data=rng.randrange(1, 2 ** 31),
                 true_noise="none", tester_noise="none", parallel_modes=[])
        d.update(kw)
        return d
    cases = [
        # mixed noise methods (before fix c15-flow-generation-stream-per-setting: ambient stream / TypeError)
        base(true_noise="none", tester_noise="random_lindbladian", parallel_modes=[all2] if not ctx.quick else []),
        base(true_noise="depolarized", tester_noise=["depolarized", "random_lindbladian", "none"], parallel_modes=[]),
        base(true_noise="random_lindbladian", tester_noise=["random_lindbladian", "depolarized", "random_lindbladian"], parallel_modes=[]),
        base(true_noise="random_lindbladian", tester_noise=["none", "random_lindbladian", "depolarized"], parallel_modes=[]),
        # NumPy-integer seeds (np.int64 from np.arange, np.uint32 from SeedSequence.generate_state): same model keys as the python ints
        base(true_noise="random_lindbladian", tester_noise="random_lindbladian", ests=["linear", "projected_linear_ineq_eq"], paras=[True, False],
             seed_dtype=rng.choice(["int64", "uint32"]), parallel_modes=[]),
        # homogeneous noise
        base(true_noise="none", tester_noise="none", parallel_modes=[all4], paras=[False, True, False],
             exec_check={"consistency": True, "mse_of_estimators": True, "mse_of_empi_dists": True, "physicality_violation": True}),
        base(true_noise="depolarized", tester_noise="depolarized", parallel_modes=full if not ctx.quick else [all2], paras=[True, False, True]),
        base(true_noise="random_lindbladian", tester_noise="random_lindbladian",
             parallel_modes=(full if not ctx.quick else [{lvl: 2} for lvl in LEVELS] + [mixed]) + nested_threads),
    ]
    if not ctx.quick:
        for tomo in ["povm", "gate", "mprocess"]:
            cases.append(base(tomo=tomo, true_noise="random_lindbladian", tester_noise="random_lindbladian", ests=["linear", "projected_linear"], paras=[True, False], parallel_modes=[all2, all4, mixed]))
            cases.append(base(tomo=tomo, true_noise="depolarized", tester_noise="depolarized", ests=["linear", "projected_linear"], paras=[False, True], parallel_modes=[all2, mixed]))
        for _ in range(3):
            cases.append(base(true_noise="random_lindbladian", tester_noise="random_lindbladian", n_sample=3, n_rep=4, parallel_modes=full))
    ctx.sample("flow", cases[0])
    ctx.run_cases("flow", chk_flow, cases)
    ctx.note("flow: %d simulation runs; independence from OS process scheduling is OBSERVED over these runs (worker counts 1/2/4 at each of the four joblib levels), not proved (monitoring)" % _run_counter[0])


# ------------------------------------------------------------------ every re-estimation entry point, configured estimators
def chk_reest(ctx, case):
    """Stored estimates must be reproduced BIT FOR BIT by every re-estimation entry point of both modules, for estimators / options that
    carry NON-default configuration, on data for which the projection actually runs (model: C15_flow_reestimate - the stored estimate of
    case k is  estimate k  applied to the stored objects and data, where k stands for the estimator WITH its configuration)."""
    from quara.simulation import standard_qtomography_simulation as sim
    from quara.simulation import standard_qtomography_simulation_flow as fl
    root = os.path.join(SCRATCH, "reest")
    shutil.rmtree(root, ignore_errors=True)
    d_in = os.path.join(root, "in")
    os.makedirs(d_in, exist_ok=True)
    names = case["ests"]
    try:
        with quiet():
            ts = build_test_setting(case)
            ref = fl.execute_simulation_test_settings([ts], d_in, pdf_mode="none", exec_sim_check=dict(PHYS_ONLY))
        by = {(r.result_index["sample_index"], r.result_index["case_index"]): r for r in ref}
        stored = {k: [est_bytes(e) for e in r.estimation_results] for k, r in by.items()}
        verdicts = {k: [x["result"] for x in r.check_result["results"] if x["name"] == "Physicality Violation"] for k, r in by.items()}
        # did the configuration matter / the projection run?  (linear estimates unphysical beyond the projection threshold)
        ran = False
        if "linear" in names:
            ci = names.index("linear")
            for (s_, c_), r in by.items():
                if c_ == ci:
                    ran = ran or any(defects(q)[1] > 1e-4 for er in r.estimation_results for q in er.estimated_qoperation_sequence)
        differs = False
        if "projected_linear" in names and "projected_linear_ineq_eq" in names:
            a_, b_ = names.index("projected_linear"), names.index("projected_linear_ineq_eq")
            differs = any(stored[(s_, a_)] != stored[(s_, b_)] for s_ in range(case["n_sample"])
                          if case["paras"][a_] == case["paras"][b_])
        ctx.count("reest", key=repr(case), nontrivial=ran, label="%s-%s%s" % (case["tomo"], "projection-ran" if ran else "projection-idle", "-order-matters" if differs else ""))
        ts_path = os.path.join(d_in, "0", "test_setting.pickle")
        n_rep = case["n_rep"]

        def report(entry, key_, rep, what="estimate"):
            mod, fn = entry.split(".")
            ctx.violation("reest", "standard_qtomography_simulation%s.%s" % ("_flow" if mod == "flow" else "", fn), "re-estimation-differs",
                          "%s of (sample %d, case %d = %s, repetition %s) re-estimated through %s from the stored empirical distributions differs from the stored one "
                          "(estimator / options carry non-default configuration: %s)" % (what, key_[0], key_[1], names[key_[1]], rep, entry, names[key_[1]]), case)
        with quiet():
            for key_, r in sorted(by.items()):
                s_, c_ = key_
                res_path = os.path.join(d_in, "0", str(s_), "case_%d_result.pickle" % c_)
                got = {
                    "sim.re_estimate": [sim.re_estimate(ts, r, rep) for rep in range(n_rep)],
                    "sim.re_estimate_sequence": sim.re_estimate_sequence(ts, r),
                    "sim.re_estimate_sequence_from_path": sim.re_estimate_sequence_from_path(ts_path, res_path),
                    "sim.re_estimate_sequence_from_index": sim.re_estimate_sequence_from_index(d_in, 0, s_, c_),
                    "flow.re_estimate_case_unit": fl.re_estimate_case_unit(d_in, c_, s_, 0, os.path.join(root, "out_case"), exec_sim_check=dict(PHYS_ONLY)).estimation_results,
                }
                if c_ == 0:
                    got["flow.re_estimate_case_unit(test_setting=...)"] = fl.re_estimate_case_unit(
                        d_in, c_, s_, 0, os.path.join(root, "out_case2"), test_setting=ts, exec_sim_check=dict(PHYS_ONLY)).estimation_results
                # what was written to disk is what was returned
                loaded = sim.load_simulation_results(d_in, 0, s_, c_)[0]
                got["sim.load_simulation_results"] = loaded.estimation_results
                for entry, ers in got.items():
                    e2 = entry.split("(")[0]
                    if len(ers) != n_rep:
                        report(e2, key_, "count %d" % len(ers)); continue
                    for rep in range(n_rep):
                        if est_bytes(ers[rep]) != stored[key_][rep]:
                            report(e2, key_, rep); break
            multi = {
                "flow.re_estimate_sample_unit": [x for s_ in range(case["n_sample"]) for x in fl.re_estimate_sample_unit(0, s_, os.path.join(root, "out_sample"), d_in, exec_sim_check=dict(PHYS_ONLY), pdf_mode="none")],
                "flow.re_estimate_test_setting_unit": fl.re_estimate_test_setting_unit(0, os.path.join(root, "out_ts"), d_in, exec_sim_check=dict(PHYS_ONLY), pdf_mode="none"),
                "flow.re_estimate_test_settings": fl.re_estimate_test_settings(d_in, os.path.join(root, "out_all"), "none", exec_sim_check=dict(PHYS_ONLY)),
            }
            for entry, results in multi.items():
                seen = set()
                for r2 in results:
                    key_ = (r2.result_index["sample_index"], r2.result_index["case_index"])
                    seen.add(key_)
                    for rep in range(n_rep):
                        if est_bytes(r2.estimation_results[rep]) != stored[key_][rep]:
                            report(entry, key_, rep); break
                    v2 = [x["result"] for x in r2.check_result["results"] if x["name"] == "Physicality Violation"]
                    if v2 != verdicts[key_]:
                        report(entry, key_, "-", what="physicality verdict")
                if seen != set(by):
                    ctx.violation("reest", "standard_qtomography_simulation_flow." + entry.split(".")[1], "re-estimation-incomplete",
                                  "%s returned results for %s, stored run has %s" % (entry, sorted(seen), sorted(by)), case)
    finally:
        shutil.rmtree(root, ignore_errors=True)


def sub_reest(ctx):
    rng = ctx.rng
    cases = []
    ests = ["linear", "projected_linear", "projected_linear_ineq_eq", "loss_min_ineq_eq"]

    def base(tomo, **kw):
        d = dict(tomo=tomo, ests=list(ests), paras=[True] * len(ests), n_sample=1, n_rep=ctx.n(2, 3), num_data=[10, 100],
                 seed_qoperation=rng.randrange(1, 2 ** 31), seed_data=rng.randrange(1, 2 ** 31), true_noise="none", tester_noise="none")
        d.update(kw)
        return d
    cases.append(base("state_z0"))                                   # pure true state, few data: the projection runs
    if not ctx.quick:
        cases.append(base("state_y1", paras=[False] * len(ests), n_sample=2))
        cases.append(base("state_z0", true_noise="depolarized", tester_noise="random_lindbladian", n_sample=2))
        cases.append(base("povm", ests=["linear", "projected_linear", "projected_linear_ineq_eq"], paras=[True, True, True], num_data=[10, 50]))
        cases.append(base("gate", ests=["linear", "projected_linear", "projected_linear_ineq_eq"], paras=[True, True, True], num_data=[10, 50]))
    ctx.sample("reest", cases[0])
    ctx.run_cases("reest", chk_reest, cases)


# ------------------------------------------------------------------ depolarising noise
def rat_state_vec(rng, c, boundary=False):
    """a physical state as an exactly rational density matrix L L^dagger / tr, returned as coefficient vector (float)"""
    d = c.dim
    r = 1 if boundary else d
    L = np.array([[complex(rng.randint(-3, 3), rng.randint(-3, 3)) for _ in range(r)] for _ in range(d)])
    if not np.any(L):
        L[0, 0] = 1
    rho = L @ L.conj().T
    rho = rho / np.trace(rho).real
    basis = [np.asarray(b.toarray() if hasattr(b, "toarray") else b, dtype=complex) for b in c.basis()]
    return np.array([np.trace(b.conj().T @ rho).real for b in basis])


def dens(c, vec):
    basis = [np.asarray(b.toarray() if hasattr(b, "toarray") else b, dtype=complex) for b in c.basis()]
    return sum(v * b for v, b in zip(vec, basis))


def basis_mats(c):
    return [np.asarray(b.toarray() if hasattr(b, "toarray") else b, dtype=complex) for b in c.basis()]


def hs_of_map(c, f):
    """HS matrix  HS[a][b] = tr(B_a^dagger f(B_b))  of a Hermiticity-preserving linear map f on d x d operators"""
    B = basis_mats(c)
    img = [f(b) for b in B]
    return np.array([[np.trace(a.conj().T @ y).real for y in img] for a in B])


def rat_unitary(rng, d):
    """rational unitary by the Cayley transform of a small-integer Hermitian matrix (generic: complex, non-diagonal)"""
    A = np.array([[complex(rng.randint(-2, 2), rng.randint(-2, 2)) for _ in range(d)] for _ in range(d)])
    H = (A + A.conj().T) / 4
    I = np.eye(d)
    return (I - 1j * H) @ np.linalg.inv(I + 1j * H)


def rat_density(rng, d, rank=None):
    r = rank or d
    L = np.array([[complex(rng.randint(-3, 3), rng.randint(-3, 3)) for _ in range(r)] for _ in range(d)])
    if not np.any(L):
        L[0, 0] = 1
    rho = L @ L.conj().T
    return rho / np.trace(rho).real


def decay_kraus(d):
    """amplitude damping towards |0> with the Pythagorean rate 9/25 (sqrt = 3/5, sqrt(1 - 9/25) = 4/5): NON-unital, CPTP, any d"""
    K0 = np.diag([1.0] + [0.8] * (d - 1)).astype(complex)
    Ks = [K0]
    for i in range(1, d):
        K = np.zeros((d, d), dtype=complex); K[0, i] = 0.6
        Ks.append(K)
    return Ks


def conj_map(Ks):
    return lambda X: sum(K @ X @ K.conj().T for K in Ks)


def generic_base(rng, c, kind, name):
    """harness-built GENERIC base objects (never produced by the code under test): non-unital CPTP gates, asymmetric
    non-commuting instruments, non-uniform POVMs.  Everything is a rational construction evaluated in floating point."""
    from quara.objects.povm import Povm
    from quara.objects.gate import Gate
    from quara.objects.mprocess import MProcess
    d = c.dim
    V, W, U = rat_unitary(rng, d), rat_unitary(rng, d), rat_unitary(rng, d)
    sigma = rat_density(rng, d, rank=rng.choice([1, d]))
    decay = [V @ K @ W for K in decay_kraus(d)]            # decay channel between two generic unitaries
    t = Fraction(rng.randint(1, 4), 5)
    tf = float(t)
    if kind == "gate":
        if name == "gen-decay":          # amplitude damping itself (the textbook non-unital channel)
            f = conj_map(decay_kraus(d))
        elif name == "gen-repl":         # replacement channel X -> tr(X) sigma
            f = lambda X: np.trace(X) * sigma
        else:                            # "gen-mix": rational mixture of a unitary, a rotated decay channel and a replacement channel
            f = lambda X: tf * (U @ X @ U.conj().T) + (1 - tf) * 0.5 * conj_map(decay)(X) + (1 - tf) * 0.5 * np.trace(X) * sigma
        hs = hs_of_map(c, f)
        hs[0, :] = 0.0; hs[0, 0] = 1.0   # trace preservation holds exactly; remove the rounding dust of the first row
        return Gate(c, hs)
    if kind == "mprocess":
        if name == "gen-instr2":         # 2 outcomes, unequal weights, outcome maps do not commute with each other
            maps = [conj_map(decay[:1]), conj_map(decay[1:])]
        else:                            # "gen-instr3": outcome 2 is a (sub-normalised) unitary branch
            maps = [lambda X: tf * conj_map(decay[:1])(X), lambda X: tf * conj_map(decay[1:])(X), lambda X: (1 - tf) * (U @ X @ U.conj().T)]
        return MProcess(c, [hs_of_map(c, f) for f in maps])
    if kind == "povm":                   # "gen-povm": 3 outcomes with unequal traces and ranks, non-commuting elements
        P = [rat_density(rng, d, rank=1) * Fraction(rng.randint(1, 3), 4).__float__(), rat_density(rng, d) * 0.25]
        P.append(np.eye(d) - sum(P))     # remainder is PSD: ||P_0 + P_1|| <= tr <= 1
        B = basis_mats(c)
        return Povm(c, [np.array([np.trace(b.conj().T @ E).real for b in B]) for E in P])
    raise ValueError(kind)


def chk_depol(ctx, case):
    from quara.objects.state import State
    from quara.objects.povm import Povm
    from quara.objects.gate import Gate
    from quara.objects.mprocess import MProcess
    from quara.objects import gate as gmod
    from quara.objects.qoperation_typical import generate_qoperation, generate_qoperation_depolarized
    from quara.objects import tester_typical
    from quara.simulation.depolarized_qoperation_generation_setting import DepolarizedQOperationGenerationSetting
    m = ctx.get_model()
    c = csys(case["mode"])
    d = c.dim; n = d * d
    p = float(Fraction(case["p"]))
    kind, name, path = case["kind"], case["name"], case["path"]
    site = {"setting": "DepolarizedQOperationGenerationSetting.generate", "typical": "qoperation_typical.generate_qoperation_depolarized",
            "tester": "tester_typical.generate_tester_%ss_depolarized" % kind}[path]
    rngc = __import__("random").Random(case.get("gen_seed", 0))
    ids = case.get("ids")          # multi-qubit gates (cx) need the subsystem ids
    with quiet():
        if name == "generic":
            base = State(c, rat_state_vec(rngc, c, boundary=case.get("boundary", False)))
        elif name.startswith("gen-"):
            base = generic_base(rngc, c, kind, name)
        elif path == "tester" and c.num_e_sys > 1:
            # the tester constructors take 1-qubit names and build the product object on the composite system
            base = (tester_typical.generate_tester_states if kind == "state" else tester_typical.generate_tester_povms)(c, [name])[0]
        else:
            base = generate_qoperation(kind, name, c, ids=ids)
        try:
            if path == "setting":
                gs = DepolarizedQOperationGenerationSetting(c, base if name.startswith("gen") else (kind, name), p, ids=ids)
                out = gs.generate()
            elif path == "typical":
                out = generate_qoperation_depolarized(kind, name, c, p, ids=ids)
            else:
                f = tester_typical.generate_tester_states_depolarized if kind == "state" else tester_typical.generate_tester_povms_depolarized
                out = f(c, [name], p)[0]
            impl = ("ok", out)
        except ValueError:
            impl = ("err", "ValueError")
    arrs = obj_arrays(base)
    # how generic is the base object?  a side / transposition mistake is invisible on unital trace-preserving symmetric maps
    if kind in ("gate", "mprocess"):
        tot = sum(np.asarray(a) for a in arrs)
        nonunital = float(np.abs(tot[1:, 0]).max()) > 1e-3
        asym = max(float(np.abs(np.asarray(a) - np.asarray(a).T).max()) for a in arrs) > 1e-3
        shape_label = ("nonunital" if nonunital else "unital") + ("-asym" if asym else "-sym")
    else:
        shape_label = "generic" if name.startswith("gen") else "named"
    ctx.count("depol", key=repr(case), nontrivial=0 < p < 1 and name not in ("z0",),
              label="%s-%s-%s-%s-%s" % (case["mode"], kind, path, shape_label, "p0" if p == 0 else "p1" if p == 1 else "bad" if not 0 <= p <= 1 else "p"))
    opname = {"state": "c15.depol_state", "povm": "c15.depol_povm_elem", "gate": "c15.depol_gate", "mprocess": "c15.depol_gate"}[kind]
    mixname = "c15.mix_vec" if kind in ("state", "povm") else "c15.mix_hs"
    st, val = m.try_call(opname, [n], [p] + rflat(arrs[0]))
    if st == "err":
        if impl[0] != "err":
            ctx.violation("depol", site, "error-branch", "model rejects rate %s (ValueError), implementation accepts" % p, case)
        return
    if impl[0] == "err":
        ctx.violation("depol", site, "error-branch", "implementation rejects rate %s, model accepts" % p, case)
        return
    out = impl[1]
    oarrs = obj_arrays(out)
    if len(oarrs) != len(arrs):
        ctx.violation("depol", site, "value", "number of elements changed %d -> %d" % (len(arrs), len(oarrs)), case)
        return
    # ---- (1) the PROPERTY's own predicate on the implementation's output, computed with numpy only (no model involved):
    #      "depolarising noise of rate p mixes the ideal object with the maximally mixed one in proportion p"
    #        state / POVM element   X' = (1-p) X + p tr(X) I/d
    #        gate / instrument outcome, as a map:   G'(X) = (1-p) G(X) + p tr(G(X)) I/d   i.e.  HS' = (1-p) HS + p e_0 (row_0 HS);
    #        for a trace-preserving gate this is  (1-p) HS_G + p HS_D,  D = completely depolarising channel (HS_D = e_0 e_0^T)
    hs_dp = np.diag([1.0] + [1.0 - p] * (n - 1))
    e00 = np.zeros((n, n)); e00[0, 0] = 1.0
    for x, (a, o) in enumerate(zip(arrs, oarrs)):
        a, o = np.asarray(a, dtype=float), np.asarray(o, dtype=float)
        if kind in ("state", "povm"):
            X = dens(c, a)
            want_op = (1 - p) * X + p * np.trace(X) * np.eye(d) / d
            ok = np.allclose(dens(c, o), want_op, atol=1e-10, rtol=0)
            dev = float(np.abs(dens(c, o) - want_op).max())
            alts = {"p and 1-p exchanged": np.allclose(dens(c, o), p * X + (1 - p) * np.trace(X) * np.eye(d) / d, atol=1e-10, rtol=0) and abs(p - 0.5) > 1e-6}
        else:
            want = (1 - p) * a + p * np.outer(np.eye(n)[0], a[0])
            ok = np.allclose(o, want, atol=1e-10, rtol=0)
            dev = float(np.abs(o - want).max())
            if kind == "gate":       # literally the property text: mixture with the maximally mixed (completely depolarising) gate
                ok = ok and np.allclose(o, (1 - p) * a + p * e00, atol=1e-10, rtol=0)
            alts = {"noise composed on the WRONG SIDE (G o D_p instead of D_p o G)": np.allclose(o, a @ hs_dp, atol=1e-10, rtol=0),
                    "transposed HS matrix": np.allclose(o, want.T, atol=1e-10, rtol=0),
                    "p and 1-p exchanged": np.allclose(o, p * a + (1 - p) * np.outer(np.eye(n)[0], a[0]), atol=1e-10, rtol=0) and abs(p - 0.5) > 1e-6}
        if not ok:
            hint = [k for k, v in alts.items() if v]
            ctx.violation("depol", site, "not-the-stated-mixture",
                          "%s %s (%s), p=%s, element %d: the depolarised object is not (1-p) * ideal + p * maximally mixed (max deviation %.3g)%s" % (
                              kind, name, shape_label, case["p"], x, dev, "; it equals: " + ", ".join(hint) if hint else ""), case)
            return
    # ---- (2) correspondence with the Coq model: the composition the model computes, and the model's mixture (theorem *_is_mixture)
    for x, (a, o) in enumerate(zip(arrs, oarrs)):
        mod = [float(v) for v in m.call(opname, [n], [p] + rflat(a))]
        mix = [float(v) for v in m.call(mixname, [n], [p] + rflat(a))]
        if not flow.allclose(list(np.asarray(o).ravel()), mod, 1e-12):
            ctx.violation("depol", site, "value", "element %d differs from the model composition: impl %s model %s" % (x, np.asarray(o).ravel()[:6], mod[:6]), case)
            return
        if not flow.allclose(mod, mix, 1e-12):
            ctx.violation("depol", site, "model-self-consistency", "composition and mixture differ in the model", case)
            return
    # ---- (3) operator level through the model's D_p:  D_p(X) = (1-p) X + p tr(X) I/d
    if kind in ("state", "povm"):
        for x, (a, o) in enumerate(zip(arrs, oarrs)):
            X = dens(c, a)
            DX = np.array(to_c(m.call("c15.D_op", [d], [p] + cflat(X)))).reshape(d, d)
            if not np.allclose(dens(c, o), DX, atol=1e-10, rtol=0):
                ctx.violation("depol", site, "not-the-stated-mixture", "element %d: operator is not (1-p) X + p tr(X) I/d (max diff %.3g)" % (x, np.abs(dens(c, o) - DX).max()), case)
                return
    else:
        # on a generic (non-Hermitian, complex) operator X: depolarised map applied to X  =  D_p(base map applied to X)
        X = np.array([[complex(rngc.randint(-4, 4), rngc.randint(-4, 4)) for _ in range(d)] for _ in range(d)]) / 4
        basis = basis_mats(c)
        xv = np.array([np.trace(b.conj().T @ X) for b in basis])
        for x, (a, o) in enumerate(zip(arrs, oarrs)):
            Y = sum(v * b for v, b in zip(np.asarray(a) @ xv, basis))
            Yd = sum(v * b for v, b in zip(np.asarray(o) @ xv, basis))
            DY = np.array(to_c(m.call("c15.D_op", [d], [p] + cflat(Y)))).reshape(d, d)
            if not np.allclose(Yd, DY, atol=1e-10, rtol=0):
                ctx.violation("depol", site, "not-the-stated-mixture", "outcome %d: map is not X -> (1-p) G(X) + p tr(G(X)) I/d (max diff %.3g)" % (x, np.abs(Yd - DY).max()), case)
                return
    # physical: quara's verdict and exact PSD decision at the check's tolerance, unit trace / TP / completeness
    with quiet():
        verdict = bool(out.is_physical(atol_eq_const=1e-9, atol_ineq_const=1e-9))
    if kind == "state":
        mats = [dens(c, oarrs[0])]; eqdef = abs(np.trace(mats[0]) - 1)
    elif kind == "povm":
        mats = [dens(c, o) for o in oarrs]; eqdef = float(np.abs(sum(mats) - np.eye(d)).max())
    else:
        mats = [gmod.to_choi_from_hs(c, np.asarray(o)) for o in oarrs]
        e0 = np.zeros(n); e0[0] = 1
        eqdef = float(np.abs(sum(np.asarray(o) for o in oarrs)[0] - e0).max())
    exact = all(qcheck.herm_psd(ctx, np.round(M, 12), 1e-9) for M in mats) if d <= 3 else all(np.linalg.eigvalsh(herm(M)).min() > -1e-9 for M in mats)
    if not verdict or not exact or eqdef > 1e-9:
        ctx.violation("depol", site, "not-physical", "depolarised %s %s (p=%s): quara verdict %s, exact PSD(+1e-9) %s, equality defect %.3g" % (kind, name, p, verdict, exact, eqdef), case)


def sub_depol(ctx):
    rng = ctx.rng
    cases = []
    ps = ["0", "1", "1/10", "1/3", "7/8", "1/1000"]
    # named objects (all named gates are unitary, hence unital: blind to the side of the composition) AND harness-built generic
    # ones ("gen-*": non-unital CPTP gates, asymmetric non-commuting instruments, non-uniform POVMs, generic states)
    objs = {"qubit": {"state": ["a", "z0", "y1", "generic"], "povm": ["x", "z", "gen-povm"],
                      "gate": ["hadamard", "x90", "piover8", "gen-decay", "gen-repl", "gen-mix"], "mprocess": ["z-type1", "x-type2", "gen-instr2", "gen-instr3"]},
            "qutrit": {"state": ["01z0", "generic"], "povm": ["z3", "gen-povm"], "gate": ["01x90", "gen-decay", "gen-mix"], "mprocess": ["z3-type1", "gen-instr3"]},
            "2qubit": {"state": ["bell_phi_plus", "generic"], "povm": ["bell", "gen-povm"], "gate": ["cx", "gen-mix"], "mprocess": ["gen-instr2"]}}
    modes = ["qubit", "qutrit"] if ctx.quick else ["qubit", "qutrit", "2qubit"]
    for mode in modes:
        for kind, names in objs[mode].items():
            for name in names:
                for p in ps if (mode == "qubit" or not ctx.quick) else ["0", "1", "1/3"]:
                    paths = ["setting"]
                    if not name.startswith("gen"):
                        paths.append("typical")
                        if kind in ("state", "povm") and mode != "2qubit":
                            paths.append("tester")
                    for path in paths:
                        cases.append(dict(mode=mode, kind=kind, name=name, p=p, path=path, gen_seed=rng.randrange(10 ** 6), boundary=rng.random() < 0.5))
                        if name == "cx":
                            cases[-1]["ids"] = rng.choice([[0, 1], [1, 0]])
    if ctx.quick:      # composite system (two elemental systems): global vs local depolarising differ only there; cheap deterministic cases
        for kind, name in [("state", "generic"), ("state", "bell_phi_plus"), ("povm", "gen-povm"), ("gate", "gen-mix"), ("mprocess", "gen-instr2")]:
            for p in ["1/3", "7/8"]:
                cases.append(dict(mode="2qubit", kind=kind, name=name, p=p, path="setting", gen_seed=rng.randrange(10 ** 6), boundary=False))
        cases.append(dict(mode="2qubit", kind="gate", name="cx", p="1/3", path="typical", ids=[0, 1], gen_seed=1))
        cases.append(dict(mode="2qubit", kind="state", name="a", p="1/3", path="tester", gen_seed=1))
    if "2qubit" in modes:      # tester constructors on a composite system: 1-qubit names, product objects
        for kind, name in [("state", "a"), ("state", "z0"), ("povm", "x")]:
            for p in ["0", "1", "1/3"]:
                cases.append(dict(mode="2qubit", kind=kind, name=name, p=p, path="tester", gen_seed=rng.randrange(10 ** 6)))
    for p in ["-1/10", "11/10", "-1/1000000000", "1000000001/1000000000"]:
        for path, kind, name in [("setting", "state", "a"), ("typical", "gate", "hadamard"), ("tester", "povm", "x")]:
            cases.append(dict(mode="qubit", kind=kind, name=name, p=p, path=path))
    ctx.sample("depol", cases[3])
    ctx.run_cases("depol", chk_depol, cases)


# ------------------------------------------------------------------ random-Lindbladian noise (monitoring)
def chk_randlind(ctx, case):
    from quara.objects import gate as gmod
    from quara.simulation.random_effective_lindbladian_generation_setting import RandomEffectiveLindbladianGenerationSetting
    c = csys(case["mode"])
    d = c.dim; n = d * d
    site = "RandomEffectiveLindbladianGenerationSetting.generate"
    with quiet():
        gs = RandomEffectiveLindbladianGenerationSetting(c, tuple(case["base"]), "identity", float(Fraction(case["h"])), float(Fraction(case["k"])))
        o1 = gs.generate(gen_from_key(case["seed"], case["path"]))[0]
        o2 = gs.generate(gen_from_key(case["seed"], case["path"]))[0]
        o3 = gs.generate(gen_from_key(case["seed"], list(case["path"]) + [0]))[0]
        oi = gs.generate(int(case["seed"]))[0]
        oj = gs.generate(int(case["seed"]))[0]
        verdict = bool(o1.is_physical(atol_eq_const=1e-8, atol_ineq_const=1e-8))
    strength = float(Fraction(case["h"])) + float(Fraction(case["k"]))
    ctx.count("randlind", key=repr(case), nontrivial=strength > 0, label="%s-%s-%s" % (case["mode"], case["base"][0], "zero" if strength == 0 else "noisy"))
    if obj_bytes(o1) != obj_bytes(o2) or obj_bytes(oi) != obj_bytes(oj):
        ctx.violation("randlind", site, "not-reproducible", "same stream key, different objects", case)
    if strength > 0 and obj_bytes(o1) == obj_bytes(o3):
        ctx.violation("randlind", site, "keys-not-used", "different stream keys, identical noisy objects", case)
    kind = case["base"][0]
    arrs = obj_arrays(o1)
    if kind == "state":
        mats = [dens(c, arrs[0])]; eqdef = abs(np.trace(mats[0]) - 1)
    elif kind == "povm":
        mats = [dens(c, o) for o in arrs]; eqdef = float(np.abs(sum(mats) - np.eye(d)).max())
    else:
        mats = [gmod.to_choi_from_hs(c, np.asarray(o)) for o in arrs]
        e0 = np.zeros(n); e0[0] = 1
        eqdef = float(np.abs(sum(np.asarray(o) for o in arrs)[0] - e0).max())
    exact = all(qcheck.herm_psd(ctx, np.round(M, 12), 1e-8) for M in mats)
    if not verdict or not exact or eqdef > 1e-8:
        ctx.violation("randlind", site, "not-physical", "random-Lindbladian noisy %s: quara verdict %s, exact PSD(+1e-8) %s, equality defect %.3g" % (case["base"], verdict, exact, eqdef), case)


def sub_randlind(ctx):
    rng = ctx.rng
    cases = []
    bases = [("state", "a"), ("state", "z0"), ("povm", "x"), ("povm", "z"), ("gate", "hadamard"), ("gate", "identity"), ("mprocess", "z-type1")]
    strengths = [("1/10", "1/10"), ("0", "1/2"), ("1", "0"), ("0", "0"), ("3", "2"), ("1/1000", "1/1000")]
    for base in bases:
        for h, k in strengths if not ctx.quick else rng.sample(strengths, 3) + [("0", "0")]:
            for _ in range(ctx.n(1, 4)):
                cases.append(dict(mode="qubit", base=list(base), h=h, k=k, seed=rng.randrange(1, 2 ** 31), path=[rng.randrange(4)]))
    if not ctx.quick:
        for base in [("state", "01z0"), ("gate", "01x90")]:
            for h, k in strengths[:3]:
                cases.append(dict(mode="qutrit", base=list(base), h=h, k=k, seed=rng.randrange(1, 2 ** 31), path=[]))
    ctx.sample("randlind", cases[0])
    ctx.run_cases("randlind", chk_randlind, cases)
    ctx.note("randlind: physicality of random-Lindbladian noise objects rests on scipy expm (C18); checked on outputs only (monitoring, not a proof obligation)")


# ------------------------------------------------------------------ decision table on synthetic stored estimates
@contextlib.contextmanager
def ineq_eps(value):
    """temporarily change the module-global inequality threshold through its documented setter"""
    from quara.data_analysis import physicality_violation_check as pvc
    old = pvc.get_ineq_const_eps()
    if value is not None:
        pvc.set_ineq_const_eps(float(Fraction(value)))
    try:
        yield
    finally:
        pvc.set_ineq_const_eps(old)


def chk_decision(ctx, case):
    with ineq_eps(case.get("ineq_eps")):
        _chk_decision(ctx, case)


def _chk_decision(ctx, case):
    from quara.objects.state import State
    from quara.protocol.qtomography.standard.standard_qst import StandardQst
    from quara.protocol.qtomography.standard.linear_estimator import LinearEstimator, LinearEstimationResult
    from quara.protocol.qtomography.standard.projected_linear_estimator import ProjectedLinearEstimator
    from quara.protocol.qtomography.standard.loss_minimization_estimator import LossMinimizationEstimator
    from quara.minimization_algorithm.projected_gradient_descent_backtracking import ProjectedGradientDescentBacktrackingOption
    from quara.objects.qoperation_typical import generate_qoperation
    from quara.simulation import standard_qtomography_simulation as sim
    from quara.simulation.standard_qtomography_simulation_check import StandardQTomographySimulationCheck
    c = csys()
    site = "standard_qtomography_simulation_check.execute_physicality_violation_check"
    kind, ho, ae, ai = case["cfg"]
    para = case["para"]

    class SubLinear(LinearEstimator):
        pass
    est = [LinearEstimator(), ProjectedLinearEstimator(), LossMinimizationEstimator(), SubLinear()][kind]
    opt = ProjectedGradientDescentBacktrackingOption(on_algo_eq_constraint=bool(ae), on_algo_ineq_constraint=bool(ai)) if ho else None
    n_rep, n_num = case["n_rep"], case["n_num"]
    with quiet():
        testers = [generate_qoperation("povm", x, c) for x in "xyz"]
        qt = StandardQst(testers, on_para_eq_constraint=para, schedules="all")
        st = sim.StandardQTomographySimulationSetting(
            name="synthetic", true_object=generate_qoperation("state", "a", c), tester_objects=testers, estimator=est, seed_data=1, n_rep=n_rep,
            num_data=list(range(10, 10 + n_num)), schedules="all", eps_proj_physical=1e-5, eps_truncate_imaginary_part=1e-5, algo_option=opt)
        # stored estimates: Bloch vector of length rr along a generic direction, trace t
        ers = []
        for r in range(n_rep):
            seq = []
            for i in range(n_num):
                t, rr = case["ests"][r][i]
                t, rr = float(Fraction(t)), float(Fraction(rr))
                dirv = np.array([2.0, -1.0, 2.0]) / 3.0
                full = np.array([t] + list(rr * dirv)) / np.sqrt(2)      # rho = (t I + rr n.sigma)/2
                seq.append(full[1:] if para else full)
            ers.append(LinearEstimationResult(seq, [0.0] * n_num, qt._template_qoperation))
        res = sim.SimulationResult(estimation_results=ers, empi_dists_sequences=[], qtomography=qt, simulation_setting=st)
        try:
            verdict = ("ok", bool(StandardQTomographySimulationCheck(res).execute_physicality_violation_check(show_detail=False)))
        except IndexError:
            verdict = ("err", "IndexError")
        paras = [[bool(q.on_para_eq_constraint) for q in er.estimated_qoperation_sequence] for er in ers]
        defs = [[defects(q) for q in er.estimated_qoperation_sequence] for er in ers]
    th = thresholds()
    band = any(in_band((kind, ho, ae, ai), paras[r][i], defs[r][i][0], defs[r][i][1], th) for r in range(n_rep) for i in range(n_num))
    mst, mval = model_check(ctx, (kind, ho, ae, ai), paras, defs, n_rep, n_num)
    ctx.count("decision", key=repr(case), nontrivial=not band and n_rep > 0 and n_num > 0,
              label="%s-%s" % (["lin", "plin", "lossmin", "other"][kind], "band" if band else "raises" if mst == "err" else "pass" if int(mval[0]) else "fail"))
    if band:
        return
    if mst == "err" or verdict[0] == "err":
        if (mst == "err") != (verdict[0] == "err"):
            ctx.violation("decision", site, "error-branch", "model %s, implementation %s" % ((mst, mval), verdict), case)
        return
    if verdict[1] != bool(int(mval[0])):
        ctx.violation("decision", site, "physicality-verdict", "implementation verdict %s, decision table %s (cfg %s para %s defects %s)" % (verdict[1], bool(int(mval[0])), case["cfg"], para, defs), case)
    elif bool(int(mval[0])) == bool(int(mval[1])):
        ctx.violation("decision", site, "model-self-consistency", "check=%s exists-violation=%s" % (mval[0], mval[1]), case)


def sub_decision(ctx):
    rng = ctx.rng
    cases = []
    cfgs = [(0, 0, 0, 0), (1, 0, 0, 0), (3, 0, 0, 0), (2, 0, 0, 0)] + [(2, 1, ae, ai) for ae in (0, 1) for ai in (0, 1)] + [(0, 1, 1, 1), (1, 1, 0, 0)]
    # (trace, Bloch radius): equality defect |t-1|, inequality defect max(0,(rr-t)/2)
    good = [("1", "1/2"), ("1", "0"), ("1", "1"), ("1", "9999999/10000000")]
    bad_ineq = [("1", "11/10"), ("1", "1001/1000"), ("1", "2")]
    bad_eq = [("101/100", "1/2"), ("999/1000", "1/4"), ("3/2", "1")]
    both = [("11/10", "3/2")]
    for cfg in cfgs:
        for para in (True, False):
            for _ in range(30 if getattr(ctx, "widen", False) else ctx.n(6, 30)):
                n_rep, n_num = rng.choice([1, 2, 3]), rng.choice([1, 2, 3])
                flavour = rng.choice(["good", "ineq", "eq", "both", "mixed"])
                ests = []
                pool = {"good": good, "ineq": bad_ineq, "eq": bad_eq, "both": both, "mixed": good + bad_ineq + bad_eq}[flavour]
                for r in range(n_rep):
                    ests.append([list(rng.choice(good)) for _ in range(n_num)])
                if flavour != "good":      # plant violations at random positions (possibly only the last one)
                    for _ in range(rng.choice([1, 1, 2])):
                        ests[rng.randrange(n_rep)][rng.randrange(n_num)] = list(rng.choice(pool))
                cases.append(dict(cfg=list(cfg), para=para, n_rep=n_rep, n_num=n_num, ests=ests))
            # the inequality threshold changed through set_ineq_const_eps (module global): every path must use the CURRENT value
            for eps_, rr in (("1/1000", "10001/10000"), ("1/1000", "101/100"), ("1/10000000", "100001/100000")):
                n_rep, n_num = rng.choice([1, 2]), rng.choice([1, 2])
                ests = [[list(rng.choice(good)) for _ in range(n_num)] for _ in range(n_rep)]
                ests[rng.randrange(n_rep)][rng.randrange(n_num)] = ["1", rr]
                cases.append(dict(cfg=list(cfg), para=para, n_rep=n_rep, n_num=n_num, ests=ests, ineq_eps=eps_))
            # empty inputs: the IndexError branches
            cases.append(dict(cfg=list(cfg), para=para, n_rep=0, n_num=2, ests=[]))
            cases.append(dict(cfg=list(cfg), para=para, n_rep=2, n_num=0, ests=[[], []]))
    ctx.sample("decision", cases[0])
    ctx.run_cases("decision", chk_decision, cases)


# ------------------------------------------------------------------ model-only: schedules, spawn trees
def chk_sched(ctx, case):
    m = ctx.get_model()
    n, order = case["n"], case["order"]
    tasks = [Fraction(100 + 7 * i) for i in range(n)]
    got = m.call("c15.par_exec", [n] + order, tasks)
    covers = all(i in order for i in range(n))
    ctx.count("sched", key=repr(case), nontrivial=n >= 2, label="covering" if covers else "non-covering")
    if covers and got != tasks:
        ctx.violation("sched", "model.par_exec", "model-self-consistency", "covering order %s gives %s" % (order, got), case)
    if not covers and got == tasks:
        ctx.violation("sched", "model.par_exec", "model-self-consistency", "non-covering order reproduces all results", case)


def chk_spawn(ctx, case):
    """numpy's SeedSequence.spawn really produces the spawn keys the model uses, and distinct streams"""
    from numpy.random import SeedSequence
    m = ctx.get_model()
    counts = case["counts"]
    vals = [int(v) for v in m.call("c15.spawn_paths", counts)]
    paths = []; i = 0
    while i < len(vals):
        ln = vals[i]; paths.append(tuple(vals[i + 1:i + 1 + ln])); i += 1 + ln
    level = [SeedSequence(case["root"])]
    for cnt in counts:
        level = [ch for s in level for ch in s.spawn(cnt)]
    impl = [tuple(s.spawn_key) for s in level]
    ctx.count("sched", key=repr(case), nontrivial=len(paths) >= 2, label="spawn-depth%d" % len(counts))
    if impl != paths:
        ctx.violation("sched", "numpy.random.SeedSequence.spawn", "dataflow-model-mismatch", "spawn keys %s, model paths %s" % (impl[:6], paths[:6]), case)
    states = [tuple(s.generate_state(4)) for s in level]
    if len(set(states)) != len(states) or len(set(paths)) != len(paths):
        ctx.violation("sched", "numpy.random.SeedSequence.spawn", "streams-collide", "spawned children share a state", case)


def sub_sched(ctx):
    rng = ctx.rng
    cases = []
    for _ in range(ctx.n(30, 200)):
        n = rng.randint(0, 7)
        order = list(range(n)); rng.shuffle(order)
        if rng.random() < 0.3 and n:
            order += [rng.randrange(n) for _ in range(rng.randint(1, 3))]; rng.shuffle(order)   # retries
        if rng.random() < 0.25 and n:
            order.remove(rng.randrange(n))
        cases.append(dict(n=n, order=order))
    ctx.run_cases("sched", chk_sched, cases)
    sp = [dict(root=rng.randrange(1, 2 ** 31), counts=[rng.randint(0, 4) for _ in range(rng.randint(0, 3))]) for _ in range(ctx.n(10, 60))]
    sp.append(dict(root=777, counts=[3])); sp.append(dict(root=888, counts=[2, 3]))
    ctx.sample("sched", sp[-1])
    ctx.run_cases("sched", chk_spawn, sp)


SUBS = [("sched", sub_sched), ("decision", sub_decision), ("depol", sub_depol), ("randlind", sub_randlind), ("single", sub_single), ("race", sub_race), ("reest", sub_reest), ("flow", sub_flow)]
FNS = {"sched": lambda ctx, case: (chk_spawn if "counts" in case else chk_sched)(ctx, case), "decision": chk_decision, "depol": chk_depol,
       "randlind": chk_randlind, "single": chk_single, "race": chk_race, "reest": chk_reest, "flow": chk_flow}


def regen_physcheck(ctx):
    """translator tie (same protocol as flow.regen_check, with this property's own translator gen/c15_py2coq.py): regenerate Gallina
    definitions of execute_physicality_violation_check and of the physicality_violation_check functions it reaches from the CURRENT
    source, compile them, and re-check coq/gen/C15_Equiv.v (regenerated = hand-written decision-table model on all inputs; the
    property theorem transported).  returns (ok, info)"""
    import re, subprocess
    import runner
    scratch = os.path.join(getattr(ctx, "scratch", os.path.join(V, "build", ctx.prop_id)), "gen")
    os.makedirs(scratch, exist_ok=True)
    gen_v = os.path.join(scratch, "Gen_c15_physcheck.v")
    for stem in (gen_v[:-2], os.path.join(scratch, "C15_Equiv")):
        for ext in (".vo", ".vos", ".vok", ".glob"):
            try:
                os.remove(stem + ext)
            except OSError:
                pass
    equiv = os.path.join(V, "coq", "gen", "C15_Equiv.v")
    src = open(equiv).read()
    src_nc = re.sub(r"\(\*.*?\*\)", " ", src, flags=re.S)
    thms = re.findall(r"^\s*Theorem\s+([\w']+)", src_nc, flags=re.M)
    ctx.theorems = list(ctx.theorems) + [t for t in thms if t not in ctx.theorems]
    ctx.obligations += len(thms)
    r = subprocess.run([sys.executable, os.path.join(V, "gen", "c15_py2coq.py"), os.environ.get("VERIF_REPO", "/repo"), gen_v],
                       capture_output=True, text=True, timeout=120)
    if r.returncode != 0:
        return False, {"theorem": thms[0], "error": "translator rejected the source (outside its subset): " + (r.stdout + r.stderr)[-600:]}
    q = ["-Q", os.path.join(V, "coq", "theories"), "QV", "-Q", scratch, "QVGen"]
    r = subprocess.run(["timeout", "300", "coqc"] + q + [gen_v], capture_output=True, text=True)
    if r.returncode != 0:
        return False, {"theorem": thms[0], "error": "regenerated functions do not compile: " + (r.stdout + r.stderr)[-600:]}
    dst = os.path.join(scratch, "C15_Equiv.v")
    shutil.copy(equiv, dst)
    r = subprocess.run(["timeout", "600", "coqc"] + q + [dst], capture_output=True, text=True)
    out = r.stdout + r.stderr
    if r.returncode != 0:
        m_ = re.search(r"line (\d+), characters", out)
        thm = None
        if m_:
            upto = "\n".join(src.splitlines()[:int(m_.group(1))])
            names = re.findall(r"^\s*(?:Theorem|Lemma)\s+([\w']+)", upto, flags=re.M)
            thm = names[-1] if names else None
        return False, {"theorem": thm, "error": out[-800:]}
    blocks = runner.parse_assumptions(out)
    bad = [a for closed, axs in blocks for a in axs if a not in runner.ALLOWED_AXIOMS and a.split(".")[-1] not in runner.ALLOWED_AXIOMS]
    if len(blocks) != len(thms) or bad:
        return False, {"theorem": thms[0], "error": "assumption gate on regenerated proofs: %d blocks / %d theorems, disallowed %s" % (len(blocks), len(thms), bad)}
    for t, (closed, axs) in zip(thms, blocks):
        ctx.axioms[t] = "closed" if closed else sorted(set(axs))
    ctx.discharged += len(thms)
    return True, {}


def run(ctx):
    ctx.rule = ("single/flow: tiny 1-qubit tomography settings (n_rep 3-4, two sample sizes, estimator cases linear / projected linear / "
                "loss minimisation), seeds drawn from VERIF_SEED; every run is compared bit for bit (objects, empirical distributions, estimates, "
                "check verdicts) with a serial reference across repeats and worker counts {1,2,4} at each joblib level, and every stream is "
                "regenerated from the key the Coq dataflow model assigns; non-trivial = at least two repetitions. depol: named and generic "
                "(exactly rational) base objects x p in {0,1,rationals} x three construction paths, plus rates outside [0,1]; non-trivial = 0<p<1. "
                "decision: synthetic stored estimates with planted equality / inequality violations well away from the thresholds "
                "(in-band cases counted as trivial) x estimator kind x parametrisation x algo flags, incl. empty inputs; distinct = distinct case record")
    os.makedirs(SCRATCH, exist_ok=True)
    import time
    walls = {}

    def timed(name, fn):
        def run_sub(c):
            t0 = time.time()
            try:
                fn(c)
            finally:
                walls[name] = time.time() - t0
        return run_sub
    # flow.standard_run with this property's own translator tie (flow.regen_check is bound to gen/py2coq.py)
    import runner
    try:
        ok, info = runner.check_props(ctx)
        ok2, info2 = regen_physcheck(ctx)
        if not ok2:
            ok, info = False, info2
            ctx.widen = True      # the tie is broken: the decision-table correspondence runs with the thorough-tier counts
            ctx.note("regenerated physicality-check obligations (coq/gen/C15_Equiv.v) not discharged: %s" % str(info2)[:400])
        if not ok:
            ctx.discharged = min(ctx.discharged, ctx.obligations - 1)
        for name, fn in SUBS:
            if ctx.only is None or name in ctx.only:
                timed(name, fn)(ctx)
        if not ok and not ctx.violations:
            ctx.violation("theorems", "Props/%s.v" % ctx.prop_id, "theorem-broken:%s" % info.get("theorem"),
                          "theorem %s no longer checks: %s" % (info.get("theorem"), info.get("error", "")[-400:]),
                          {"theorem": info.get("theorem"), "error": info.get("error")}, no_input=True)
        elif not ok:
            ctx.note("theorem obligations not discharged: %s" % info)
    finally:
        shutil.rmtree(SCRATCH, ignore_errors=True)
    ctx.note("wall per sub-check (s): " + ", ".join("%s %.1f" % (n, walls[n]) for n, _ in SUBS if n in walls))
    ctx.assumptions = ["independence from OS process scheduling and the determinism of joblib/loky, MT19937 and scipy.stats are OBSERVED over the runs made (monitoring), not proved",
                       "physicality of random-Lindbladian noise objects is checked on outputs (expm is an oracle, see C18)",
                       "the verdict functions is_eq/ineq_constraint_satisfied themselves belong to C01; here they enter through the defects (|tr-1|, -lambda_min, ...) computed by the harness"]


def replay(ctx, doc):
    os.makedirs(SCRATCH, exist_ok=True)
    try:
        flow.standard_replay(ctx, doc, FNS)
    finally:
        shutil.rmtree(SCRATCH, ignore_errors=True)
